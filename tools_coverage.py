#!/usr/bin/env python3
"""Print, from evidence/*.json, the anchored lines of /repo/dit that the last run of each check did not reach."""
import json, os, sys
V = os.path.dirname(os.path.abspath(__file__))
ids = [a for a in sys.argv[1:] if not a.startswith('-')] or ['C%02d' % i for i in range(1, 21)]
for pid in ids:
    e = json.load(open(os.path.join(V, 'evidence', pid + '.json')))
    c = e['coverage'].get('anchor_line_coverage', {})
    print('== %s (%s): function-body lines %s/%s' % (pid, e['tier'], c.get('function_body_lines_executed'), c.get('function_body_lines')))
    for m in c.get('mechanisms', []):
        print('  %-28s %d/%d  %s' % (m['where'], m['executed'], m['body_lines'], (m['mechanism'] or '')[:70]))
        if m['missed_lines'] and '-q' not in sys.argv:
            cache = {}
            for ml in m['missed_lines'][:60]:
                bn, l = ml.rsplit(':', 1)
                f = [w.strip().rsplit(':', 1)[0] for w in m['where'].split(';') if os.path.basename(w.strip().rsplit(':', 1)[0]) == bn][0]
                src = cache.setdefault(f, open(os.path.join('/repo', f)).read().splitlines())
                print('       %s:%5d| %s' % (bn, int(l), src[int(l) - 1][:110]))
