"""
Environment for the checks: put /repo (current working tree), the lattices shim and
the private networkx on sys.path and import dit.  Nothing outside /verif and /repo
is needed at run time (networkx is unpacked from the offline wheelhouse into
/verif/pydeps by setup; it is re-unpacked here if missing).
"""
import os
import subprocess
import sys

VERIF = os.path.dirname(os.path.dirname(os.path.abspath(__file__)))
REPO = os.environ.get('DIT_REPO', '/repo')
PYDEPS = os.path.join(VERIF, 'pydeps')
PYSHIM = os.path.join(VERIF, 'pyshim')
WHEELS = '/opt/veriftools/wheels'


def ensure_pydeps():
    if os.path.isdir(os.path.join(PYDEPS, 'networkx')):
        return
    os.makedirs(PYDEPS, exist_ok=True)
    subprocess.run([sys.executable, '-m', 'pip', 'install', '--no-index', '--find-links', WHEELS,
                    '--target', PYDEPS, '-q', 'networkx'], check=True,
                   stdout=subprocess.DEVNULL, stderr=subprocess.DEVNULL)


def setup_path():
    ensure_pydeps()
    for p in (PYDEPS, PYSHIM, REPO):
        if p in sys.path:
            sys.path.remove(p)
    sys.path.insert(0, PYDEPS)
    sys.path.insert(0, PYSHIM)
    sys.path.insert(0, REPO)


_dit = None


def import_dit():
    """Import dit from the current working tree of /repo (never a cached build)."""
    global _dit
    if _dit is None:
        setup_path()
        sys.dont_write_bytecode = True
        import warnings
        warnings.filterwarnings('ignore')
        import numpy as np
        np.seterr(all='ignore')
        import dit
        assert os.path.realpath(dit.__file__).startswith(os.path.realpath(REPO)), dit.__file__
        _dit = dit
    return _dit


def repo_state():
    def run(*a):
        try:
            return subprocess.run(['git', '-C', REPO] + list(a), capture_output=True, text=True).stdout.strip()
        except Exception:
            return ''
    return {'head': run('rev-parse', 'HEAD'), 'dirty': run('status', '--porcelain').splitlines()}
