"""
Check runner shared by all properties.

A property module (harness/props/cXX.py) provides an object with

    id            'C02'
    rule          how cases are generated and what makes one non-trivial
    tolerances    dict (documentation, copied to the evidence)
    gen(rng, tier)            -> iterable of JSON-serialisable cases
    run(case, drv)            -> Result
    shrink(case)              -> iterable of smaller/neighbouring cases (optional)

`run` executes the case on the real code (imported from the current /repo working
tree) and on the Lean model (through the driver), compares the observables the
property names, and evaluates the property's own oracle on the real code.

Decision (DESIGN.md 2.5): an oracle failure is a failing input -> VIOLATION with that
input as the replay.  A model/implementation disagreement without an oracle failure
triggers a search (shrinks and neighbours of the case) for an input on which the oracle
fails; if none is found the violation is still reported, naming the correspondence
operation, and the line ends with `no-failing-input-found`.  The same happens when the
Lean leg (build, forbidden constructs, axiom audit) does not check.  Everything is
matched against KNOWN_FINDINGS.txt before it is reported.
"""
import argparse
import collections
import hashlib
import importlib
import json
import os
import random
import sys
import time
import traceback

HERE = os.path.dirname(os.path.abspath(__file__))
sys.path.insert(0, HERE)

import env  # noqa: E402
import covtrace  # noqa: E402
import known  # noqa: E402
import leangate  # noqa: E402
from driver import Driver, DriverError  # noqa: E402

VERIF = env.VERIF

TRUSTED_BASE = [
    "Lean 4.33.0 kernel; Mathlib v4.33.0 as a library of checked proofs",
    "axioms allowed for every property theorem: propext, Classical.choice, Quot.sound (audited by #print axioms on every run); no sorry/admit/axiom/native_decide/bv_decide/implemented_by/unsafe",
    "the statements of the theorems in lean/DitModel/DitModel/Props and the hand-written model in lean/DitModel/DitModel/Core",
    "the correspondence check: harness generators, canonicalisation, stated tolerances, Lean compiler/runtime executing the driver, JSON line protocol",
    "modelled, not verified: IEEE-754 arithmetic and libm, NumPy/SciPy kernels, CPython dict ordering/sorted/deepcopy, numpy.random.RandomState",
    "the `lattices` shim under /verif/pyshim and networkx from the wheelhouse (the real `lattices` package is absent)",
]


class Result(object):
    """Outcome of one case."""

    def __init__(self):
        self.oracle_fail = None   # str: which clause of the statement failed on the real code
        self.mismatch = None      # str: which compared observable differs between model and code
        self.nontrivial = False
        self.features = []        # strings for the input-distribution histogram
        self.detail = {}          # impl / model / expected / observed (for the replay)
        self.site = None          # call site (for known-finding matching)

    def bad(self):
        return self.oracle_fail is not None or self.mismatch is not None


def case_key(case):
    return hashlib.sha1(json.dumps(case, sort_keys=True, default=str).encode()).hexdigest()


def load_corpus(pid):
    d = os.path.join(VERIF, 'corpus', pid)
    out = []
    if os.path.isdir(d):
        for f in sorted(os.listdir(d)):
            if f.endswith('.json'):
                c = json.load(open(os.path.join(d, f)))
                out.append(c['case'] if isinstance(c, dict) and 'case' in c and 'origin' in c else c)
    return out


def run_cases(prop, cases, nworkers=1):
    """Run cases; returns list of (case, Result)."""
    if nworkers <= 1 or len(cases) < 4 * nworkers:
        drv = Driver()
        out = []
        try:
            for c in cases:
                out.append((c, safe_run(prop, c, drv)))
        finally:
            drv.close()
        return out
    import multiprocessing as mp
    ctx = mp.get_context('fork')
    chunks = [cases[i::nworkers] for i in range(nworkers)]
    with ctx.Pool(nworkers) as pool:
        parts = pool.map(_worker, [(prop.__module__, ch) for ch in chunks])
    for _, hits in parts:
        covtrace.merge(hits)
    parts = [p for p, _ in parts]
    out = []
    for ch, part in zip(chunks, parts):
        for c, rd in zip(ch, part):
            r = Result()
            r.__dict__.update(rd)
            out.append((c, r))
    return out


def _worker(arg):
    modname, cases = arg
    prop = importlib.import_module(modname).PROP
    drv = Driver()
    try:
        res = [safe_run(prop, c, drv).__dict__ for c in cases]
        return res, covtrace.snapshot()
    finally:
        drv.close()


class HarnessError(Exception):
    pass


class CaseTimeout(BaseException):
    pass


def _alarm(signum, frame):
    raise CaseTimeout()


def safe_run(prop, case, drv):
    import signal
    limit = getattr(prop, 'case_timeout', None)
    try:
        if limit:
            signal.signal(signal.SIGALRM, _alarm)
            signal.setitimer(signal.ITIMER_REAL, limit)
        try:
            return prop.run(case, drv)
        finally:
            if limit:
                signal.setitimer(signal.ITIMER_REAL, 0)
    except CaseTimeout:
        # the real code (an optimiser, usually) did not finish within the per-case budget: the case is
        # dropped and counted, never reported as a violation
        r = Result()
        r.features = ['case-timeout']
        return r
    except DriverError as e:
        # The model could not execute the case: the correspondence does not check for it.
        r = Result()
        r.mismatch = 'driver: ' + str(e)[:300]
        r.detail = {'driver_error': str(e)[:2000]}
        return r
    except Exception as e:
        if type(e).__name__ == 'UnreadableOutcome':
            # a result whose outcomes are not built from the input's symbols is a wrong result, not a harness problem
            r = Result()
            r.oracle_fail = 'the result contains an outcome that is not made of the given symbols: %s' % str(e)[:200]
            r.site = getattr(prop, 'id', '') + '.unreadable-outcome'
            return r
        # The harness could not interpret what the implementation returned (it never fails this way on the unchanged
        # tree: every property runs thousands of cases per tier there). The correspondence is broken for this case.
        r = Result()
        r.mismatch = 'the harness could not interpret the implementation\'s result: %s: %s' % (type(e).__name__, str(e)[:200])
        r.detail = {'traceback': traceback.format_exc()[-1500:]}
        r.site = getattr(prop, 'id', '') + '.uninterpretable'
        return r


def search_failing_input(prop, case, drv, budget=300):
    """Shrinks / neighbours of `case` until the oracle fails on the real code."""
    seen = set()
    frontier = [case]
    tried = 0
    best_mismatch = case
    while frontier and tried < budget:
        c = frontier.pop(0)
        shr = getattr(prop, 'shrink', None)
        if shr is None:
            break
        for c2 in shr(c):
            k = case_key(c2)
            if k in seen:
                continue
            seen.add(k)
            tried += 1
            try:
                r = safe_run(prop, c2, drv)
            except HarnessError:
                continue
            if r.oracle_fail:
                return c2, r, tried
            if r.mismatch:
                frontier.append(c2)
                best_mismatch = c2
            if tried >= budget:
                break
    return None, best_mismatch, tried


def minimise(prop, case, res, drv, budget=200):
    """Greedy shrink of a failing input, keeping the oracle failure."""
    shr = getattr(prop, 'shrink', None)
    if shr is None:
        return case, res
    tried = 0
    improved = True
    while improved and tried < budget:
        improved = False
        for c2 in shr(case):
            tried += 1
            try:
                r = safe_run(prop, c2, drv)
            except HarnessError:
                continue
            if r.oracle_fail and (known.match(prop.id, c2, r) is None) == (known.match(prop.id, case, res) is None):
                case, res, improved = c2, r, True
                break
            if tried >= budget:
                break
    return case, res


def write_replay(pid, payload):
    d = os.path.join(VERIF, 'replays')
    os.makedirs(d, exist_ok=True)
    n = 0
    while os.path.exists(os.path.join(d, '%s_%03d.json' % (pid, n))):
        n += 1
    path = os.path.join(d, '%s_%03d.json' % (pid, n))
    json.dump(payload, open(path, 'w'), indent=1, default=str)
    return os.path.relpath(path, VERIF)


def main(prop, argv=None):
    ap = argparse.ArgumentParser()
    ap.add_argument('--tier', default=os.environ.get('VERIF_TIER', 'quick'), choices=['quick', 'thorough'])
    ap.add_argument('--seed', type=int, default=int(os.environ.get('VERIF_SEED', '0') or 0))
    ap.add_argument('--replay')
    ap.add_argument('--workers', type=int, default=int(os.environ.get('VERIF_WORKERS', '0') or 0))
    args = ap.parse_args(argv)
    t0 = time.time()
    pid = prop.id
    if os.environ.get('VERIF_COV', '1') != '0':
        covtrace.start(os.path.join(env.REPO, 'dit'))
    env.import_dit()

    if args.replay:
        return replay(prop, args.replay)

    # ---- Lean leg
    g = leangate.gate(pid, args.tier)
    lean_ok = not g['problems'] and g['obligations'] > 0 and g['discharged'] == g['obligations']

    # ---- correspondence leg
    rng = random.Random(args.seed * 1000003 + int(pid[1:]))
    corpus = load_corpus(pid)
    cases = list(corpus) + list(prop.gen(rng, args.tier))
    nworkers = args.workers or (min(16, os.cpu_count() or 1) if args.tier == 'thorough' else min(8, os.cpu_count() or 1))
    results = run_cases(prop, cases, nworkers)

    hist = collections.Counter()
    distinct = set()
    bad = []
    for c, r in results:
        for f in r.features:
            hist[f] += 1
        if r.nontrivial:
            distinct.add(case_key(c))
        if r.bad():
            bad.append((c, r))

    violations = []     # (kind, case, result, note)
    known_hits = collections.OrderedDict()
    drv = Driver()
    try:
        handled = set()
        for c, r in bad:
            kf = known.match(pid, c, r)
            if kf is not None:
                known_hits.setdefault(kf, (c, r))
                continue
            sig = (r.site, 'oracle' if r.oracle_fail else 'mismatch')
            if sig in handled or len(violations) >= 4:
                continue
            handled.add(sig)
            if r.oracle_fail:
                c2, r2 = minimise(prop, c, r, drv)
                violations.append(('failing-input', c2, r2, r2.oracle_fail))
            else:
                c2, r2, tried = search_failing_input(prop, c, drv)
                if c2 is not None and known.match(pid, c2, r2) is None:
                    c2, r2 = minimise(prop, c2, r2, drv)
                    violations.append(('failing-input', c2, r2, r2.oracle_fail))
                else:
                    violations.append(('no-failing-input-found', c, r,
                                       'correspondence %s: %s (searched %d neighbouring cases)' % (r.site or pid, r.mismatch, tried)))
        if not lean_ok:
            violations.append(('no-failing-input-found', None, None,
                               'Lean leg does not check: ' + '; '.join(g['problems'])[:1500]))
    finally:
        drv.close()

    # ---- report
    for kf in known_hits:
        print('KNOWN-FINDING: property=%s %s' % (pid, kf))
    st = env.repo_state()
    vcount = 0
    for kind, c, r, note in violations[:5]:
        payload = {'property': pid, 'kind': kind, 'broken': note, 'seed': args.seed, 'tier': args.tier,
                   'case': c, 'site': getattr(r, 'site', None),
                   'oracle': getattr(r, 'oracle_fail', None), 'mismatch': getattr(r, 'mismatch', None),
                   'detail': getattr(r, 'detail', None), 'repo_head': st['head'], 'repo_dirty_files': st['dirty']}
        path = write_replay(pid, payload)
        tail = ' no-failing-input-found' if kind == 'no-failing-input-found' else ''
        print('VIOLATION property=%s replay=%s%s' % (pid, path, tail))
        vcount += 1

    samples = []
    for c, r in results:
        if r.nontrivial and len(samples) < 3:
            samples.append(c)
    if not samples and results:
        samples.append(results[0][0])
    ev = {
        'property_id': pid, 'tier': args.tier, 'seed': args.seed, 'level': 'proof',
        'coverage': {
            'obligations': g['obligations'], 'discharged': g['discharged'],
            'checker_cmd': ('cd lean/DitModel && lake build DitModel ditdriver %s && lake env lean <#print axioms of every theorem in %s>'
                            % (' '.join('DitModel.Props.' + m for m in leangate.prop_files(pid)),
                               ', '.join('DitModel/Props/%s.lean' % m for m in leangate.prop_files(pid)))),
            'theorem_files': ['DitModel/Props/%s.lean' % m for m in leangate.prop_files(pid)],
            'trusted_base': TRUSTED_BASE + list(getattr(prop, 'trusted_extra', [])),
            'theorems': g['theorems'], 'axioms': g.get('axioms', {}), 'partial_theorems': g['partial'],
            'lean_problems': g['problems'], 'leanchecker': g.get('leanchecker'),
            'evaluations': len(results), 'distinct_nontrivial': len(distinct),
            'rule': prop.rule, 'samples': samples,
            'corpus_cases': len(corpus),
            'input_histogram': dict(sorted(hist.items())),
            'tolerances': getattr(prop, 'tolerances', {}),
            'known_findings_hit': list(known_hits.keys()),
            'exhaustive': bool(getattr(prop, 'exhaustive', {}).get(args.tier, False)),
            'modelled_not_verified': getattr(prop, 'modelled', ''),
            'anchor_line_coverage': covtrace.report(pid, os.path.join(VERIF, 'properties.jsonl'), env.REPO),
        },
        'assumptions': TRUSTED_BASE + list(getattr(prop, 'trusted_extra', [])),
        'wall_s': round(time.time() - t0, 2),
        'violations': vcount,
    }
    os.makedirs(os.path.join(VERIF, 'evidence'), exist_ok=True)
    json.dump(ev, open(os.path.join(VERIF, 'evidence', pid + '.json'), 'w'), indent=1, default=str)
    print('%s tier=%s seed=%d: lean %d/%d theorems, %d cases (%d distinct non-trivial), %d known, %d violations, %.1fs'
          % (pid, args.tier, args.seed, g['discharged'], g['obligations'], len(results), len(distinct),
             len(known_hits), vcount, time.time() - t0))
    return 1 if vcount else 0


def replay(prop, path):
    if not os.path.isabs(path):
        path = os.path.join(VERIF, path)
    payload = json.load(open(path))
    case = payload.get('case')
    print('replay of', path, 'kind =', payload.get('kind'))
    print('broken:', payload.get('broken'))
    if case is None:
        print('no case stored (Lean leg); re-run the check to rebuild the theorems')
        return 1
    drv = Driver()
    try:
        r = safe_run(prop, case, drv)
    finally:
        drv.close()
    print('case:', json.dumps(case, default=str)[:3000])
    print('oracle verdict on the real code:', r.oracle_fail or 'holds')
    print('model/implementation:', r.mismatch or 'agree')
    print('detail:', json.dumps(r.detail, default=str)[:3000])
    k = known.match(prop.id, case, r) if r.bad() else None
    if r.bad() and k is None:
        print('VIOLATION property=%s replay=%s%s' % (prop.id, os.path.relpath(path, VERIF),
                                                       '' if r.oracle_fail else ' no-failing-input-found'))
        return 1
    if k is not None:
        print('KNOWN-FINDING: property=%s %s' % (prop.id, k))
    return 0
