"""
Line-protocol client for the Lean model driver.

The compiled `ditdriver` executable is used (built by `lake build ditdriver` when
missing); `lake env lean --run` is the fallback.
"""
import json
import os
import subprocess
from fractions import Fraction

from env import VERIF

LEAN_DIR = os.path.join(VERIF, 'lean', 'DitModel')
EXE = os.path.join(LEAN_DIR, '.lake', 'build', 'bin', 'ditdriver')


class DriverError(Exception):
    pass


def build_driver():
    r = subprocess.run(['lake', 'build', 'ditdriver'], cwd=LEAN_DIR, capture_output=True, text=True)
    if r.returncode != 0 or not os.path.exists(EXE):
        raise DriverError('lake build ditdriver failed:\n' + r.stdout[-3000:] + r.stderr[-3000:])


def q(x):
    """Encode a number exactly: ints as ints, everything else as "n/d"."""
    if isinstance(x, bool):
        return x
    if isinstance(x, int):
        return x
    f = Fraction(x)
    if f.denominator == 1:
        return int(f.numerator)
    return '%d/%d' % (f.numerator, f.denominator)


def unq(x):
    """Decode a protocol rational."""
    if isinstance(x, int):
        return Fraction(x)
    if isinstance(x, str):
        return Fraction(x)
    raise ValueError(x)


class Driver(object):

    def __init__(self):
        if not os.path.exists(EXE):
            build_driver()
        self.p = subprocess.Popen([EXE], stdin=subprocess.PIPE, stdout=subprocess.PIPE, text=True, bufsize=1)
        self.calls = 0

    def call(self, op, args):
        line = op + ' ' + json.dumps(args, separators=(',', ':'))
        self.p.stdin.write(line + '\n')
        self.p.stdin.flush()
        out = self.p.stdout.readline()
        self.calls += 1
        if not out:
            raise DriverError('driver died on: ' + line[:500])
        out = out.strip()
        if out == 'bad-op':
            raise DriverError('bad-op: ' + line[:2000])
        return json.loads(out)

    def close(self):
        try:
            self.p.stdin.close()
            self.p.wait(timeout=5)
        except Exception:
            self.p.kill()
