"""
The Lean leg of every check: build the model and the theorems, refuse forbidden
constructs, and audit the axioms of every property theorem.
"""
import hashlib
import json
import os
import re
import subprocess
import time

from env import VERIF

LEAN_DIR = os.path.join(VERIF, 'lean', 'DitModel')
SRC = os.path.join(LEAN_DIR, 'DitModel')
ALLOWED_AXIOMS = {'propext', 'Classical.choice', 'Quot.sound'}
FORBIDDEN = [r'\bsorry\b', r'\badmit\b', r'^\s*axiom\s', r'\bnative_decide\b', r'\bbv_decide\b',
             r'\bimplemented_by\b', r'\bunsafe\s', r'maxHeartbeats\s+0\b', r'\bextern\b',
             r'\bpartial\s+def\b']
# `partial def` is allowed only in the driver's I/O layer (JSON parser, main loop).
PARTIAL_OK = {'Drv/Json.lean', 'Driver.lean'}


def strip_comments(src):
    out = []
    i, n, depth = 0, len(src), 0
    while i < n:
        if src.startswith('/-', i):
            depth += 1
            i += 2
        elif depth and src.startswith('-/', i):
            depth -= 1
            i += 2
        elif depth:
            if src[i] == '\n':
                out.append('\n')
            i += 1
        elif src.startswith('--', i):
            while i < n and src[i] != '\n':
                i += 1
        elif src[i] == '"':
            j = i + 1
            while j < n and src[j] != '"':
                j += 2 if src[j] == '\\' else 1
            out.append('""')
            i = j + 1
        else:
            out.append(src[i])
            i += 1
    return ''.join(out)


def lean_files():
    res = []
    for root, dirs, files in os.walk(SRC):
        # DitModel/Wip/ is scratch space for proofs in progress: git-ignored, imported by nothing, never built by a check
        dirs[:] = [d for d in dirs if d != 'Wip']
        for f in sorted(files):
            if f.endswith('.lean'):
                res.append(os.path.join(root, f))
    res.append(os.path.join(LEAN_DIR, 'DitModel.lean'))
    return sorted(res)


def grep_forbidden():
    hits = []
    for path in lean_files():
        rel = os.path.relpath(path, SRC)
        code = strip_comments(open(path).read())
        for ln, line in enumerate(code.splitlines(), 1):
            for pat in FORBIDDEN:
                if re.search(pat, line):
                    if 'partial' in pat and rel in PARTIAL_OK:
                        continue
                    hits.append('%s:%d: %s' % (rel, ln, line.strip()[:120]))
    return hits


def prop_files(prop):
    """Props/<prop>.lean plus companion files Props/<prop><Suffix>.lean (e.g. C11Examples.lean)."""
    d = os.path.join(SRC, 'Props')
    out = []
    for f in sorted(os.listdir(d)):
        if f.endswith('.lean') and re.match(r'^%s([A-Za-z]\w*)?\.lean$' % re.escape(prop), f):
            out.append(f[:-5])
    return out


def theorems_of(prop):
    """Names of the theorems stated in Props/<prop>*.lean (fully qualified)."""
    names = []
    for mod in prop_files(prop):
        path = os.path.join(SRC, 'Props', mod + '.lean')
        code = strip_comments(open(path).read())
        ns = []
        for line in code.splitlines():
            m = re.match(r'\s*namespace\s+(\S+)', line)
            if m:
                ns.append(m.group(1))
                continue
            m = re.match(r'\s*end\s+(\S+)', line)
            if m and ns and ns[-1] == m.group(1):
                ns.pop()
                continue
            m = re.match(r'\s*(?:private\s+|protected\s+)?theorem\s+([^\s:({\[]+)', line)
            if m:
                names.append('.'.join(ns + [m.group(1)]))
    return names


def source_hash():
    h = hashlib.sha256()
    for path in lean_files() + [os.path.join(LEAN_DIR, 'lakefile.toml')]:
        h.update(path.encode())
        h.update(open(path, 'rb').read())
    return h.hexdigest()


def lake_build(prop=None):
    t0 = time.time()
    # every Props module of this property (Props/<id>*.lean) is a target of its own, so that a companion file that DitModel.lean does not import yet
    # is still compiled (and a broken one fails the build instead of silently emptying the audit)
    props = ['DitModel.Props.' + m for m in (prop_files(prop) if prop else [])]
    # Two checks started at the same moment (or a developer build in the same tree) can collide on the driver's link
    # step; a failed build is therefore repeated (twice, after a pause) before it is believed.
    for attempt in range(3):
        r = subprocess.run(['lake', 'build', 'DitModel', 'ditdriver'] + props, cwd=LEAN_DIR, capture_output=True, text=True)
        if r.returncode == 0:
            break
        time.sleep(5 + 10 * attempt)
    return r.returncode == 0, (r.stdout + r.stderr)[-6000:], time.time() - t0


def audit_axioms(prop, names):
    """Run `#print axioms` on each theorem; returns {name: [axioms]} (None = not found)."""
    scratch = os.path.join(LEAN_DIR, '.lake', 'audit')
    os.makedirs(scratch, exist_ok=True)
    cache_path = os.path.join(scratch, prop + '.json')
    key = source_hash()
    if os.path.exists(cache_path):
        try:
            c = json.load(open(cache_path))
            if c.get('key') == key and set(c['axioms']) == set(names) and all(v is not None for v in c['axioms'].values()):
                return c['axioms'], True
        except Exception:
            pass
    path = os.path.join(scratch, 'Audit_%s.lean' % prop)
    with open(path, 'w') as f:
        for mod in prop_files(prop):
            f.write('import DitModel.Props.%s\n' % mod)
        for n in names:
            f.write('#print axioms %s\n' % n)
    r = subprocess.run(['lake', 'env', 'lean', path], cwd=LEAN_DIR, capture_output=True, text=True)
    out = r.stdout + r.stderr
    res = {n: None for n in names}
    # "'name' depends on axioms: [a, b]"  /  "'name' does not depend on any axioms"
    for m in re.finditer(r"'(\S+)' depends on axioms: \[([^\]]*)\]", out, re.S):
        res[m.group(1)] = [a.strip() for a in m.group(2).replace('\n', ' ').split(',') if a.strip()]
    for m in re.finditer(r"'(\S+)' does not depend on any axioms", out):
        res[m.group(1)] = []
    if r.returncode == 0:
        json.dump({'key': key, 'axioms': res}, open(cache_path, 'w'))
    return res, False


def gate(prop, tier='quick'):
    """Returns a dict describing the Lean leg for `prop`."""
    t0 = time.time()
    ok, log, bt = lake_build(prop)
    names = theorems_of(prop)
    info = {'build_ok': ok, 'build_s': round(bt, 2), 'theorems': names, 'obligations': len(names),
            'discharged': 0, 'problems': [], 'partial': [n for n in names if n.endswith('_partial')]}
    if not ok:
        info['problems'].append('lake build failed: ' + log[-1500:])
        return info
    hits = grep_forbidden()
    if hits:
        info['problems'].append('forbidden constructs: ' + '; '.join(hits[:10]))
    if not names:
        info['problems'].append('no theorems found in Props/%s.lean' % prop)
        return info
    ax, cached = audit_axioms(prop, names)
    info['axioms'] = ax
    info['audit_cached'] = cached
    good = 0
    for n in names:
        a = ax.get(n)
        if a is None:
            info['problems'].append('theorem %s not found by #print axioms' % n)
        elif not set(a) <= ALLOWED_AXIOMS:
            info['problems'].append('theorem %s depends on %s' % (n, sorted(set(a) - ALLOWED_AXIOMS)))
        else:
            good += 1
    info['discharged'] = good if not hits else 0
    if tier == 'thorough':
        r = subprocess.run(['lake', 'env', 'leanchecker'] + ['DitModel.Props.%s' % m_ for m_ in prop_files(prop)], cwd=LEAN_DIR,
                           capture_output=True, text=True)
        info['leanchecker'] = 'ok' if r.returncode == 0 else (r.stdout + r.stderr)[-800:]
        if r.returncode != 0:
            info['problems'].append('leanchecker failed: ' + info['leanchecker'])
    info['wall_s'] = round(time.time() - t0, 2)
    return info
