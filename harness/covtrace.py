"""
Line coverage of /repo/dit by the correspondence run (Python 3.12 `sys.monitoring`, first hit per line only).

What it is for: the theorems are about the model; the correspondence ties the model to the code only along the paths
the generated cases actually execute.  Every run therefore records, for the files and line ranges the property is
anchored in (properties.jsonl: anchors.files / anchors.mechanism[].where), which executable lines the run reached and
which it did not, and writes that into the evidence (`coverage.anchor_line_coverage`).  It never affects the verdict.
"""
import json
import os
import sys

_hits = set()
_root = None
_on = False


def start(root):
    """Begin recording (idempotent). `root` = directory whose files are recorded (the repo's `dit` package)."""
    global _root, _on
    if _on or not hasattr(sys, 'monitoring'):
        return
    _root = os.path.realpath(root) + os.sep
    mon = sys.monitoring
    tool = mon.COVERAGE_ID
    try:
        mon.use_tool_id(tool, 'verif-anchor-coverage')
    except ValueError:
        return

    def on_line(code, line):
        fn = code.co_filename
        if fn.startswith(_root):
            _hits.add((fn[len(_root):], line))
        return mon.DISABLE

    mon.register_callback(tool, mon.events.LINE, on_line)
    mon.set_events(tool, mon.events.LINE)
    _on = True


def snapshot():
    return sorted(_hits)


def merge(items):
    for fn, line in items:
        _hits.add((fn, line))


def _executable_lines(path):
    try:
        src = open(path).read()
        code = compile(src, path, 'exec')
    except Exception:
        return set()
    out = set()
    stack = [code]
    while stack:
        c = stack.pop()
        for _, _, ln in c.co_lines():
            if ln is not None:
                out.add(ln)
        for k in c.co_consts:
            if hasattr(k, 'co_lines'):
                stack.append(k)
    return out


def _def_lines(path):
    """Lines executed at import only: those of the module's and the class bodies' code objects (not CO_OPTIMIZED)."""
    try:
        code = compile(open(path).read(), path, 'exec')
    except Exception:
        return set()
    out = set()
    stack = [code]
    while stack:
        c = stack.pop()
        if c.co_flags & 0x1:      # a function body: not descended into (nested classes in functions are rare here)
            continue
        for _, _, ln in c.co_lines():
            if ln is not None:
                out.add(ln)
        for k in c.co_consts:
            if hasattr(k, 'co_lines'):
                stack.append(k)
    return out



_base_commit = {}


def _functions(src):
    """qualified name -> (first line, last line) of every function/method in `src`."""
    import ast
    out = {}
    try:
        tree = ast.parse(src)
    except SyntaxError:
        return out

    def walk(node, prefix):
        for ch in ast.iter_child_nodes(node):
            if isinstance(ch, (ast.FunctionDef, ast.AsyncFunctionDef)):
                lo = min([ch.lineno] + [d.lineno for d in ch.decorator_list])
                out[prefix + ch.name] = (lo, ch.end_lineno)
                walk(ch, prefix + ch.name + '.')
            elif isinstance(ch, ast.ClassDef):
                walk(ch, prefix + ch.name + '.')
    walk(tree, '')
    return out


def _current_ranges(repo, f, lo, hi):
    """
    The anchors' line numbers refer to the pinned commit; /repo has moved on (fix: commits).  The range is mapped
    through function names: the functions of the pinned file that the range touches are looked up in the current
    file.  Falls back to the raw range when that is not possible.
    """
    import subprocess
    if repo not in _base_commit:
        try:
            _base_commit[repo] = subprocess.run(['git', '-C', repo, 'rev-list', '--max-parents=0', 'HEAD'],
                                                capture_output=True, text=True).stdout.split()[0]
        except Exception:
            _base_commit[repo] = None
    base = _base_commit[repo]
    try:
        old = subprocess.run(['git', '-C', repo, 'show', '%s:%s' % (base, f)], capture_output=True, text=True).stdout
        cur = open(os.path.join(repo, f)).read()
        fo, fc = _functions(old), _functions(cur)
        names = [n for n, (a, b) in fo.items() if a <= hi and b >= lo]
        # keep innermost/outermost consistently: drop nested functions whose parent is selected too
        names = [n for n in names if not any(n.startswith(o + '.') and o in fo and o in names for o in names if o != n)]
        ranges = [fc[n] for n in names if n in fc]
        if ranges:
            return ranges, [n for n in names if n in fc]
    except Exception:
        pass
    return [(lo, hi)], []


def report(pid, properties_path, repo):
    """Anchor coverage of property `pid` from the hits recorded so far."""
    anchors = None
    for l in open(properties_path):
        p = json.loads(l)
        if p['id'] == pid:
            anchors = p.get('anchors', {})
    if not anchors or not _on:
        return {'enabled': _on}
    pkg = os.path.join(repo, 'dit') + os.sep
    hit_by_file = {}
    for fn, ln in _hits:
        hit_by_file.setdefault(fn, set()).add(ln)
    files = {}
    for f in anchors.get('files', []):
        path = os.path.join(repo, f)
        rel = os.path.relpath(os.path.realpath(path), os.path.realpath(pkg))
        ex = _executable_lines(path)
        body = ex - _def_lines(path)
        got = hit_by_file.get(rel, set()) & ex
        files[f] = {'executable_lines': len(ex), 'executed_lines': len(got),
                    'function_body_lines': len(body), 'function_body_lines_executed': len(got & body)}
    mech = []
    for m in anchors.get('mechanism', []):
        body_all, missed_all, funcs_all = [], [], []
        segs = []
        for seg in str(m.get('where', '')).split(';'):
            seg = seg.strip().split(' ')[0]
            if ':' not in seg:
                continue
            f, rngs = seg.rsplit(':', 1)
            for rng in rngs.split(','):       # "file.py:58-104,269-382"
                segs.append((f, rng))
        for f, rng in segs:
            try:
                lo, hi = (rng.split('-') + [rng])[:2]
                lo, hi = int(lo), int(hi)
            except Exception:
                continue
            path = os.path.join(repo, f)
            rel = os.path.relpath(os.path.realpath(path), os.path.realpath(pkg))
            ranges, names = _current_ranges(repo, f, lo, hi)
            ex = _executable_lines(path) - _def_lines(path)
            body = sorted(l for l in ex if any(a <= l <= b for a, b in ranges))
            got = hit_by_file.get(rel, set())
            body_all += [(f, l) for l in body]
            missed_all += ['%s:%d' % (os.path.basename(f), l) for l in body if l not in got]
            funcs_all += names
        mech.append({'mechanism': m.get('name'), 'where': m.get('where'), 'functions': funcs_all,
                     'body_lines': len(body_all), 'executed': len(body_all) - len(missed_all),
                     'missed_lines': missed_all[:80]})
    tb = sum(v['function_body_lines'] for v in files.values())
    te = sum(v['function_body_lines_executed'] for v in files.values())
    return {'enabled': True, 'note': 'lines of the anchored files reached by this run on the real code (first-hit line events; '
            'def/class/module-level lines are executed at import and reported separately from function bodies)',
            'function_body_lines': tb, 'function_body_lines_executed': te,
            'files': files, 'mechanisms': mech}
