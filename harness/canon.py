"""
Canonicalisation helpers shared by the property modules.
"""
import math
import struct
from fractions import Fraction

import numpy as np


def f2bits(x):
    return struct.unpack('<Q', struct.pack('<d', float(x)))[0]


def bits2f(b):
    return struct.unpack('<d', struct.pack('<Q', int(b)))[0]


def exc_enum(e):
    """Map an exception to the small enum of the protocol."""
    import dit.exceptions as ex
    for name in ('InvalidOutcome', 'InvalidNormalization', 'InvalidProbability', 'InvalidDistribution',
                 'InvalidBase', 'IncompatibleDistribution', 'OptimizationException'):
        if isinstance(e, getattr(ex, name)):
            return name
    if isinstance(e, ex.ditException):
        return 'ditException'
    return 'other:' + type(e).__name__


def close(a, b, atol=1e-12, rtol=1e-9):
    a = float(a)
    b = float(b)
    if math.isnan(a) or math.isnan(b):
        return False
    if math.isinf(a) or math.isinf(b):
        return a == b
    return abs(a - b) <= atol + rtol * max(abs(a), abs(b))


def frac(x):
    return Fraction(x)


def np2py(x):
    """NumPy scalars / arrays to plain Python."""
    if isinstance(x, np.ndarray):
        return [np2py(v) for v in x.tolist()]
    if isinstance(x, (np.generic,)):
        return x.item()
    if isinstance(x, (list, tuple)):
        return [np2py(v) for v in x]
    return x
