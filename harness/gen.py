"""
Structured generation of distributions in "rank space", their rendering as real dit
objects, and the Python-side observable record.

A distribution case is a JSON-serialisable dict:

  klass     'str' | 'tuple' | 'mixed'      outcome class / symbol universe
  n         number of variables
  alphabets [[rank, ...] per variable]      (sorted ranks; the Cartesian space when no custom space)
  outs      [[rank, ...], ...]              specified outcomes, in the order given to dit
  pmf       ["n/d", ...]                    exact linear probabilities (rationals)
  space     None | ['list', outs] | ['ss', outs] | ['cart', alphabets]
  base      'linear' | 2 | 'e' | 10 | 3.5 | 0.5
  sparse, trim   bool
  names     None | [str, ...]

Symbols: rank r stands for UNIVERSE[klass][r]; universes are increasing under Python's
order, so the order on ranks in the model *is* Python's order on symbols.
"""
import math
from fractions import Fraction

import numpy as np

from driver import q, unq
from env import import_dit

UNIVERSE = {
    'str': list('0123456789'),
    'str2': list('abcdefghij'),
    'tuple': list(range(10)),
    'tuple2': [3, 5, 8, 13, 21, 34, 55, 89, 144, 233],
    'mixed': ['a', 'b', 'c', 'dd', 'e', 'f', 'g', 'h', 'i', 'j'],   # tuple outcomes of strings
}
BASES = ['linear', 2, 'e', 10, 3.5, 0.5]
BASE_ID = {'linear': 0, 2: 1, 'e': 2, 10: 3, 3.5: 4, 0.5: 5}
ID_BASE = {v: k for k, v in BASE_ID.items()}


def is_str_class(klass):
    return klass in ('str', 'str2')


def base_num(b):
    return math.e if b == 'e' else float(b)


# ----------------------------------------------------------------------- rendering

def to_py(o, klass):
    """Rank outcome -> Python outcome."""
    u = UNIVERSE[klass]
    if is_str_class(klass):
        return ''.join(u[r] for r in o)
    return tuple(u[r] for r in o)


class UnreadableOutcome(Exception):
    """The implementation produced an outcome that is not made of the symbols it was given."""


def from_py(o, klass):
    u = UNIVERSE[klass]
    inv = {s: i for i, s in enumerate(u)}
    try:
        return [inv[s] for s in o]
    except (KeyError, TypeError):
        raise UnreadableOutcome('%r is not an outcome over the symbols %s' % (o, u))


def to_py_nested(o, klass):
    """Rank outcome of a coalesced distribution (list of inner rank outcomes)."""
    return tuple(to_py(x, klass) for x in o)


def from_py_nested(o, klass):
    return [from_py(x, klass) for x in o]


def log_of(x, base):
    """Float (log-)probability that represents the exact linear value x in `base`."""
    x = Fraction(x)
    if base == 'linear':
        return float(x)
    b = base_num(base)
    if x == 0:
        return -math.inf if b > 1 else math.inf
    if x < 0:
        return math.nan
    return math.log(float(x)) / math.log(b) if base not in (2, 10) else (math.log2(float(x)) if base == 2 else math.log10(float(x)))


def lin_of(v, base):
    """Linear value of a stored float."""
    if base == 'linear':
        return float(v)
    b = base_num(base)
    v = float(v)
    if math.isinf(v):
        return 0.0 if (v < 0) == (b > 1) else math.inf
    return b ** v


def space_arg(case):
    """The sample_space argument for the dit constructor."""
    dit = import_dit()
    sp = case.get('space')
    klass = case['klass']
    if sp is None:
        return None
    kind, data = sp
    if kind == 'list':
        return [to_py(o, klass) for o in data]
    if kind == 'ss':
        return dit.samplespace.SampleSpace([to_py(o, klass) for o in data])
    if kind == 'cart':
        u = UNIVERSE[klass]
        alphs = [[u[r] for r in a] for a in data]
        from dit.helpers import get_product_func
        prod = get_product_func(str if is_str_class(klass) else tuple)
        return dit.samplespace.CartesianProduct(alphs, prod)
    raise ValueError(sp)


def build(case, validate=True):
    """Construct the real dit Distribution for a case (may raise what dit raises)."""
    dit = import_dit()
    klass = case['klass']
    outs = [to_py(o, klass) for o in case['outs']]
    pmf = [log_of(Fraction(p), case['base']) for p in case['pmf']]
    kw = dict(sample_space=space_arg(case), base=case['base'], sparse=case['sparse'], trim=case['trim'],
              validate=validate)
    d = dit.Distribution(outs, pmf, **kw)
    if case.get('names'):
        d.set_rv_names(case['names'])
    return d


# ----------------------------------------------------------------------- model side

def model_space_arg(case):
    sp = case.get('space')
    if sp is None:
        return None
    return [sp[0], sp[1]]


def model_construct_args(case):
    return [case['outs'], [q(Fraction(p)) for p in case['pmf']], model_space_arg(case),
            BASE_ID[case['base']], case['sparse'], case['trim']]


def dist_json(d, klass, nested=False):
    """Encode a real dit distribution as a model `Dist` (values exact: linear floats as
    fractions; log values are converted to the linear domain by exponentiation and are
    therefore only approximately what the code holds - use `model_of_case` where exactness
    matters)."""
    dit = import_dit()
    ss = d._sample_space
    conv = (lambda o: from_py_nested(o, klass)) if nested else (lambda o: from_py(o, klass))
    if isinstance(ss, dit.samplespace.CartesianProduct) and not nested:
        u = UNIVERSE[klass]
        inv = {s: i for i, s in enumerate(u)}
        space = ['cart', [[inv[s] for s in a] for a in ss.alphabets]]
    else:
        space = ['expl', [conv(o) for o in ss]]
    base = d.get_base()
    tab = [[conv(o), q(Fraction(lin_of(v, base)))] for o, v in zip(d.outcomes, d.pmf)]
    return [space, tab, bool(d.is_sparse()), BASE_ID[base]]


# ----------------------------------------------------------------------- observables

def obs_py(d, klass, nested=False):
    """Observable record of a real distribution, in rank space, values as floats in the
    linear domain plus the raw stored floats."""
    conv = (lambda o: from_py_nested(o, klass)) if nested else (lambda o: from_py(o, klass))
    base = d.get_base()
    space = [conv(o) for o in d.sample_space()]
    u = UNIVERSE[klass]
    inv = {s: i for i, s in enumerate(u)}
    if nested:
        alph = [sorted(from_py(s, klass) for s in a) for a in d.alphabet]
    else:
        alph = [sorted(inv[s] for s in a) for a in d.alphabet]
    tab = [[conv(o), float(v)] for o, v in zip(d.outcomes, d.pmf)]
    look = []
    for o in d.sample_space():
        look.append(float(d[o]))
    return {'space': space, 'alphabets': alph, 'tab': tab, 'sparse': bool(d.is_sparse()), 'base': base,
            'lookups': look, 'len': len(d), 'outcome_length': d.outcome_length()}


def obs_model(j):
    """Decode the driver's `obsJ` record."""
    space, alph, tab, sparse, base, look = j
    return {'space': space, 'alphabets': [sorted(a) for a in alph],
            'tab': [[o, unq(v)] for o, v in tab], 'sparse': sparse, 'base': ID_BASE[base],
            'lookups': [None if v is None else unq(v) for v in look]}


def value_agrees(pyv, x, base, exact=False, rtol=1e-9, atol=1e-12):
    """Does the stored float `pyv` (in `base`) represent the exact linear value `x`?"""
    x = Fraction(x)
    if base == 'linear':
        if exact:
            return float(x) == pyv
        return abs(pyv - float(x)) <= atol + rtol * abs(float(x))
    b = base_num(base)
    if x == 0:
        return math.isinf(pyv) and ((pyv < 0) == (b > 1))
    if math.isinf(pyv) or math.isnan(pyv):
        return False
    lin = b ** pyv
    return abs(lin - float(x)) <= atol + rtol * abs(float(x))


def compare_obs(py, mo, exact=False, rtol=1e-9, atol=1e-12, check_alphabets=True):
    """First difference between a Python-side and a model-side observable record, or None."""
    if py['space'] != mo['space']:
        return 'sample space: impl %s model %s' % (py['space'], mo['space'])
    if check_alphabets and [sorted(a) for a in py['alphabets']] != [sorted(a) for a in mo['alphabets']]:
        return 'alphabets: impl %s model %s' % (py['alphabets'], mo['alphabets'])
    if py['sparse'] != mo['sparse']:
        return 'sparse flag: impl %s model %s' % (py['sparse'], mo['sparse'])
    if py['base'] != mo['base']:
        return 'base: impl %s model %s' % (py['base'], mo['base'])
    if [o for o, _ in py['tab']] != [o for o, _ in mo['tab']]:
        return 'stored outcomes: impl %s model %s' % ([o for o, _ in py['tab']], [o for o, _ in mo['tab']])
    for (o, pv), (_, mv) in zip(py['tab'], mo['tab']):
        if not value_agrees(pv, mv, py['base'], exact, rtol, atol):
            return 'stored value of %s: impl %r model %s' % (o, pv, mv)
    for o, pv, mv in zip(py['space'], py['lookups'], mo['lookups']):
        if mv is None or not value_agrees(pv, mv, py['base'], exact, rtol, atol):
            return 'lookup d[%s]: impl %r model %s' % (o, pv, mv)
    return None


# ----------------------------------------------------------------------- generation

def rand_prob_vector(rng, k, style=None):
    """k exact rationals summing to one (entries may be zero depending on style)."""
    style = style or rng.choice(['dyadic', 'dyadic', 'small', 'small', 'uneven', 'near-degenerate'])
    if k == 1:
        return [Fraction(1)], style
    if style == 'dyadic':
        m = rng.choice([2, 3, 4, 5, 6])
        tot = 2 ** m
        cuts = sorted(rng.randint(0, tot) for _ in range(k - 1))
        parts = [b - a for a, b in zip([0] + cuts, cuts + [tot])]
        return [Fraction(p, tot) for p in parts], style
    if style == 'small':
        w = [rng.randint(0, 5) for _ in range(k)]
        if sum(w) == 0:
            w[rng.randrange(k)] = 1
        return [Fraction(x, sum(w)) for x in w], style
    if style == 'uneven':
        w = [rng.choice([1, 1, 2, 3, 7, 20, 100]) for _ in range(k)]
        return [Fraction(x, sum(w)) for x in w], style
    # near-degenerate: one entry 1 - (k-1) 2^-40
    eps = Fraction(1, 2 ** 40)
    i = rng.randrange(k)
    return [1 - (k - 1) * eps if j == i else eps for j in range(k)], style


def rand_dist_case(rng, nmin=1, nmax=4, amax=3, bases=BASES, allow_space=True, allow_names=True,
                   zeros=True, klasses=('str', 'str2', 'tuple', 'tuple2', 'mixed'), max_support=12):
    """A valid distribution specification."""
    klass = rng.choice(klasses)
    n = rng.randint(nmin, nmax)
    homog = rng.random() < 0.5
    if homog:
        a = sorted(rng.sample(range(6), rng.randint(1 if n > 1 else 2, amax)))
        alphabets = [list(a) for _ in range(n)]
    else:
        alphabets = [sorted(rng.sample(range(6), rng.randint(1, amax))) for _ in range(n)]
    if all(len(a) == 1 for a in alphabets):
        alphabets[rng.randrange(n)] = sorted(rng.sample(range(6), 2))
    full = [[]]
    for a in alphabets:
        full = [o + [s] for o in full for s in a]
    k = rng.randint(1, min(len(full), max_support))
    support = rng.sample(full, k)
    pmf, style = rand_prob_vector(rng, k)
    if not zeros:
        while any(p == 0 for p in pmf):
            pmf, style = rand_prob_vector(rng, k, rng.choice(['uneven', 'near-degenerate']))
    space = None
    spacekind = 'none'
    if allow_space and rng.random() < 0.45:
        spacekind = rng.choice(['list', 'ss', 'cart', 'list-sub'])
        if spacekind == 'cart':
            # a Cartesian product that may be larger than the support's alphabets
            big = [sorted(set(a) | set(rng.sample(range(6), rng.randint(0, 1)))) for a in alphabets]
            space = ['cart', big]
        else:
            extra = [o for o in full if o not in support]
            rng.shuffle(extra)
            members = support + extra[:rng.randint(0, len(extra))]
            rng.shuffle(members)
            if spacekind == 'list-sub':
                spacekind = 'list'
            space = [spacekind, members]
    names = None
    if allow_names and rng.random() < 0.4:
        names = rng.choice([list('XYZWV'), list('WZYXA'), ['x1', 'x0', 'b', 'a', 'c2']])[:n]
    case = {'klass': klass, 'n': n, 'alphabets': alphabets, 'outs': support, 'pmf': [str(p) for p in pmf],
            'space': space, 'base': rng.choice(bases), 'sparse': rng.random() < 0.6,
            'trim': rng.random() < 0.6, 'names': names, 'style': style, 'spacekind': spacekind}
    return case


def case_features(case):
    return ['klass=%s' % case['klass'], 'n=%d' % case['n'], 'base=%s' % case['base'],
            'sparse=%s' % case['sparse'], 'trim=%s' % case['trim'], 'space=%s' % case.get('spacekind'),
            'names=%s' % bool(case.get('names')), 'pstyle=%s' % case.get('style'),
            'support=%d' % len(case['outs']), 'zeros=%s' % any(Fraction(p) == 0 for p in case['pmf'])]


def is_dyadic(case):
    for p in case['pmf']:
        d = Fraction(p).denominator
        if d & (d - 1):
            return False
    return True


def avoid_subnull(case, eps=Fraction(1, 2 ** 20)):
    """Replace probabilities within the library's null tolerance (0 < p <= 1e-8) by `eps`, renormalising on the
    largest entry: sparse linear distributions drop such entries by design (make_sparse / marginal)."""
    pmf = [Fraction(p) for p in case['pmf']]
    small = [i for i, p in enumerate(pmf) if 0 < p <= Fraction(1, 10 ** 8)]
    if not small:
        return case
    big = max(range(len(pmf)), key=lambda i: pmf[i])
    for i in small:
        pmf[big] -= eps - pmf[i]
        pmf[i] = eps
    case['pmf'] = [str(p) for p in pmf]
    return case
