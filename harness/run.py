"""Entry point: run.py <Cxx> [options].  Exit 0 / 1 (VIOLATION) / 2 (the check could not run)."""
import importlib
import os
import sys
import traceback

HERE = os.path.dirname(os.path.abspath(__file__))
sys.path.insert(0, HERE)


def main():
    pid = sys.argv[1]
    try:
        import core
        mod = importlib.import_module('props.' + pid.lower())
        rc = core.main(mod.PROP, sys.argv[2:])
    except SystemExit as e:
        rc = e.code if isinstance(e.code, int) else 2
        if rc not in (0, 1):
            rc = 2
    except BaseException:
        traceback.print_exc()
        print('CHECK-ERROR property=%s (the check itself could not run; not a violation)' % pid)
        rc = 2
    sys.stdout.flush()
    os._exit(rc)


if __name__ == '__main__':
    main()
