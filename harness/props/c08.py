"""
C08 — Information values are invariant under every change of representation.
Metamorphic check on the real code; the Lean theorems (Props/C08) prove the invariance for the
model's entropy-combination measures and divergences.
"""
import itertools
import math
from fractions import Fraction

import numpy as np

import core
import gen
from canon import f2bits, bits2f
from env import import_dit

TRANSFORMS = ['relabel', 'relabel-reverse', 'class', 'row-order', 'dense', 'pad-space', 'names', 'names', 'permute-vars', 'log-sparse',
              # zero-probability outcomes stored in a distribution that stays flagged sparse, by each route the API offers
              'zeros-ctor', 'zeros-assigned', 'zeros-dense-sparse',
              # the variables sit at arbitrary positions of a longer joint distribution and are addressed by position
              'embed', 'embed', 'embed']
ZERO_ROUTES = ('zeros-ctor', 'zeros-assigned', 'zeros-dense-sparse')
EMBED_MAX_VARS = 12
N_QUICK = 600
# second and third stream (appended AFTER the first one, which is left exactly as it was):
#  * the same joint cases kept in a LOG base (entropy's log branch: -b**x * x summed with nansum, null outcomes stored as
#    -inf / +inf), Shannon and multivariate families, every transformation;
#  * ScalarDistribution arguments (entropy's non-joint branch) and the binary entropy of a float.
N_QUICK_LOG = 140
N_QUICK_SCALAR = 90
LOG_BASES = [2, 'e', 10, 3.5, 0.5, 0.5]
# fourth stream (appended after the others, which are left exactly as they were): representation changes COMPOSED on one
# object -- a constructor form (input order permuted; sort / trim / sparse flags) followed by a few in-place steps
# (d[o] = 0 for an outcome that is not stored yet, make_dense, make_sparse with and without trimming, copy, d[o] = d[o]);
# the measures are evaluated on the final object, and every joint probability is read back by label
N_QUICK_CHAIN = 260
CHAIN_CTORS = [{}, {'sort': False}, {'sort': False}, {'sort': False}, {'sort': False, 'trim': False}, {'trim': False},
               {'sort': False, 'sparse': False}]
CHAIN_STEPS = ['assign-zero', 'assign-zero', 'assign-zero', 'dense', 'sparse-untrimmed', 'sparse-trimmed', 'copy', 'reassign']
SCALAR_TRANSFORMS = ['relabel', 'relabel-reverse', 'class', 'row-order', 'dense', 'pad-space', 'zeros-ctor', 'zeros-assigned',
                     'pmf-only', 'from-joint']


def block_case(rng, n):
    """A distribution case (same keys as gen.rand_dist_case) whose support has a COMMON PART: every variable's symbols are
    split into b classes (interleaved in sort order) and an outcome is possible only if all its symbols carry the same
    class.  The Gacs-Korner / minimal-sufficient-statistic quantities are non-zero on such supports (they vanish on almost
    every uniformly drawn support), so their invariance is not checked on the value 0 only.  With n >= 3 one variable may
    be left free of the classes."""
    klass = rng.choice(('str', 'tuple'))
    b = rng.choice([2, 2, 3])
    amax = 4 if n < 4 else 3
    free = rng.randrange(n) if (n >= 3 and rng.random() < 0.3) else None
    alphabets, cls = [], []
    for i in range(n):
        if i == free:
            a = sorted(rng.sample(range(6), rng.randint(1, 2)))
            alphabets.append(a)
            cls.append(None)
            continue
        a = sorted(rng.sample(range(6), rng.randint(b, max(b, amax))))
        lab = list(range(b)) + [rng.randrange(b) for _ in range(len(a) - b)]
        rng.shuffle(lab)
        alphabets.append(a)
        cls.append(dict(zip(a, lab)))
    support = []
    for blk in range(b):
        cells = [[]]
        for i in range(n):
            syms = alphabets[i] if cls[i] is None else [x for x in alphabets[i] if cls[i][x] == blk]
            cells = [o + [x] for o in cells for x in syms]
        k = rng.randint(1, min(len(cells), 4))
        support += rng.sample(cells, k)
    rng.shuffle(support)
    pmf, style = gen.rand_prob_vector(rng, len(support))
    return {'klass': klass, 'n': n, 'alphabets': alphabets, 'outs': support, 'pmf': [str(p) for p in pmf],
            'space': None, 'base': 'linear', 'sparse': True, 'trim': True, 'names': None, 'style': style,
            'spacekind': 'none'}


def re_step(entry):
    """Kind of a step of a chain log entry (for the feature list)."""
    if entry.startswith('d['):
        return 'reassign' if entry.endswith(']') else 'assign-zero'
    return entry


def gk_from_definition(rows, groups):
    """Gacs-Korner common information of the variable groups straight from its definition: the entropy of the finest
    common function, i.e. of the connected components of the graph that joins the values (g, x_g) occurring together in
    an outcome of POSITIVE probability.  rows: [(outcome, Fraction)]; exact masses, one float entropy at the end."""
    parent = {}

    def find(a):
        parent.setdefault(a, a)
        while parent[a] != a:
            parent[a] = parent[parent[a]]
            a = parent[a]
        return a

    live = [(o, p) for o, p in rows if p > 0]
    for o, _ in live:
        vs = [(gi, tuple(o[i] for i in g)) for gi, g in enumerate(groups)]
        for v in vs[1:]:
            parent[find(vs[0])] = find(v)
    mass = {}
    for o, p in live:
        root = find((0, tuple(o[i] for i in groups[0])))
        mass[root] = mass.get(root, 0) + p
    return -sum(float(m) * math.log2(float(m)) for m in mass.values() if m > 0)


def entropy_from_definition(rows, S):
    """H[S] in bits from the definition: exact marginal masses of the variables S (Fractions), one float sum at the end."""
    mass = {}
    for o, p in rows:
        k = tuple(o[i] for i in S)
        mass[k] = mass.get(k, 0) + p
    return -sum(float(m) * math.log2(float(m)) for m in mass.values() if m > 0)


class C08(object):
    id = 'C08'
    rule = ("joint linear distributions of 2-4 variables (support drawn uniformly, or made of 2-3 blocks so that the "
            "variables have a common part and K, M are non-zero) x a transformation (per-variable symbol bijections incl. "
            "order-reversing ones, str<->tuple outcome class, permuted input order, dense / explicit zeros / enlarged "
            "sample space, zero-probability outcomes stored in a distribution that stays sparse (constructor with "
            "trim=False, assignment d[o] = 0, make_dense then make_sparse(trim=False); any subset of the null outcomes), "
            "names instead of indices, variable permutation with permuted arguments, the variables placed at arbitrary "
            "positions of a joint distribution of up to 12 variables whose other coordinates are constants, copies or an "
            "independent coin and addressed by position, reordered groups) x "
            "a closed-form measure family (Shannon, 9 multivariate measures, 5 divergences and maximum correlation, "
            "K / M common informations, Shannon partition and complexity profile, 6 PID redundancy measures): f(d) "
            "against f(T d). The untransformed value is also compared with the model's value (Float) for the "
            "entropy-combination measures, and K of both forms with the entropy of the connected components of the "
            "support (its definition, exact masses). Second stream: the same cases held in a log base (2, e, 10, 3.5, 0.5; null "
            "outcomes stored as -inf / +inf), Shannon and multivariate families under every transformation with the "
            "transformed form built in the same base; the model's value is compared in bits (value * log2 b). For the Shannon "
            "family (any base) the entropy of every non-empty set of variables, on both forms, is also compared with "
            "-sum p log p over the exact marginal. Third stream: ScalarDistribution arguments (atoms = the joint outcomes or "
            "integer codes; bijective renaming, atom class, input order, stored / assigned zeros, larger sample space, "
            "pmf-only form, from_distribution; entropy, multivariate.entropy, perplexity, extropy in any base, Renyi / "
            "Tsallis linear) against the transformed form, the joint distribution and the definition, and the binary "
            "entropy of a float p against h(p), h(1-p) and two-outcome distributions. Fourth stream: representation "
            "changes composed on one object (constructor with the input order permuted and any of sort=False / trim=False / "
            "sparse=False, then 1-4 in-place steps among d[o] = 0 for an outcome not stored yet, make_dense, make_sparse with "
            "and without trimming, copy, d[o] = d[o]); every family on the final object (for divergences also one argument "
            "only, matched by label), and every joint probability read back by its label. "
            "Non-trivial = at least 3 positive outcomes and a non-identity transformation")
    tolerances = {'closed forms': 'atol 1e-9', 'measures with an optimiser inside (CCS)': '1e-5'}
    exhaustive = {}

    def gen(self, rng, tier):
        n_cases = N_QUICK if tier == 'quick' else 10000
        for _ in range(n_cases):
            n = rng.choice([2, 3, 3, 4])
            if rng.random() < 0.3:
                c = block_case(rng, n)
                c['support'] = 'blocks'
            else:
                c = gen.rand_dist_case(rng, nmin=n, nmax=n, amax=3 if n < 4 else 2, bases=['linear'], allow_space=False,
                                       allow_names=False, max_support=9, klasses=('str', 'tuple'))
                c['support'] = 'uniform'
            gen.avoid_subnull(c)
            c['sparse'], c['trim'] = True, True
            c['transform'] = rng.choice(TRANSFORMS)
            c['family'] = rng.choice(['shannon', 'multivariate', 'multivariate', 'divergence', 'common', 'profile', 'pid', 'other', 'other'])
            if c['support'] == 'blocks' and c['family'] in ('shannon', 'multivariate') and rng.random() < 0.5:
                c['family'] = 'common'            # the supports made for the common informations mostly go to them
            if c['family'] == 'pid' and n < 3:
                c['family'] = 'multivariate'      # a decomposition needs two sources and a target
            c['seed'] = rng.randrange(2 ** 31)
            yield c
        # ---- the same cases held in a log base (values come out in base-b units on both sides of the comparison)
        for _ in range(N_QUICK_LOG if tier == 'quick' else 2000):
            n = rng.choice([2, 3, 3, 4])
            if rng.random() < 0.25:
                c = block_case(rng, n)
                c['support'] = 'blocks'
            else:
                c = gen.rand_dist_case(rng, nmin=n, nmax=n, amax=3 if n < 4 else 2, bases=['linear'], allow_space=False,
                                       allow_names=False, max_support=9, klasses=('str', 'tuple'))
                c['support'] = 'uniform'
            gen.avoid_subnull(c)
            c['sparse'], c['trim'] = True, True
            c['base'] = rng.choice(LOG_BASES)
            c['transform'] = rng.choice(TRANSFORMS)
            c['family'] = rng.choice(['shannon', 'shannon', 'multivariate'])
            c['seed'] = rng.randrange(2 ** 31)
            yield c
        # ---- scalar distributions and the binary entropy of a float
        for _ in range(N_QUICK_SCALAR if tier == 'quick' else 1500):
            n = rng.choice([1, 2, 3])
            c = gen.rand_dist_case(rng, nmin=n, nmax=n, amax=4 if n < 3 else 3, bases=['linear'], allow_space=False,
                                   allow_names=False, max_support=9, klasses=('str', 'tuple'))
            c['support'] = 'uniform'
            gen.avoid_subnull(c)
            c['sparse'], c['trim'] = True, True
            c['base'] = rng.choice(['linear', 'linear', 'linear'] + LOG_BASES)
            c['atoms'] = rng.choice(['outcome', 'outcome', 'int'])
            c['transform'] = rng.choice(SCALAR_TRANSFORMS)
            c['family'] = 'scalar'
            c['seed'] = rng.randrange(2 ** 31)
            yield c

        # ---- composed representation changes on one object
        for _ in range(N_QUICK_CHAIN if tier == 'quick' else 2500):
            n = rng.choice([2, 2, 3, 3, 4])
            if rng.random() < 0.25:
                c = block_case(rng, n)
                c['support'] = 'blocks'
            else:
                c = gen.rand_dist_case(rng, nmin=n, nmax=n, amax=3 if n < 4 else 2, bases=['linear'], allow_space=False,
                                       allow_names=False, max_support=9, klasses=('str', 'tuple'))
                c['support'] = 'uniform'
            gen.avoid_subnull(c)
            c['sparse'], c['trim'] = True, True
            c['transform'] = 'chain'
            c['family'] = rng.choice(['shannon', 'shannon', 'multivariate', 'divergence', 'divergence', 'common', 'profile', 'pid', 'other'])
            if c['family'] == 'pid' and n < 3:
                c['family'] = 'multivariate'
            if c['family'] in ('shannon', 'multivariate') and rng.random() < 0.25:
                c['base'] = rng.choice(LOG_BASES)
            c['seed'] = rng.randrange(2 ** 31)
            yield c

    def shrink(self, case):
        return []

    # ------------------------------------------------------------------ transformations
    def transform(self, case, d, rs):
        """Returns (d2, addr, perm) where addr(i) addresses original variable i in d2."""
        dit = import_dit()
        klass = case['klass']
        n = case['n']
        T = case['transform']
        outs = [list(o) for o in case['outs']]
        pmf = [float(Fraction(p)) for p in case['pmf']]
        ident = lambda i: i
        base = case.get('base', 'linear')
        zero = gen.log_of(Fraction(0), base)

        def mk(outcomes, probs, **kw):
            # the transformed distribution is built in the SAME base (log base b: stored values log_b p; null = -inf, or +inf
            # for b < 1), so that both values of a comparison are in the same unit
            if base != 'linear':
                probs = [gen.log_of(Fraction(p), base) for p in probs]
                kw['base'] = base
            return dit.Distribution(outcomes, probs, **kw)

        if T in ('relabel', 'relabel-reverse'):
            maps = []
            for i in range(n):
                syms = sorted(set(o[i] for o in outs))
                tgt = list(reversed(syms)) if T == 'relabel-reverse' else list(rs.permutation(range(6))[:len(syms)])
                maps.append(dict(zip(syms, [int(x) for x in tgt])))
            outs2 = [[maps[i][o[i]] for i in range(n)] for o in outs]
            return mk([gen.to_py(o, klass) for o in outs2], pmf), ident
        if T == 'class':
            other = 'tuple' if gen.is_str_class(klass) else 'str'
            return mk([gen.to_py(o, other) for o in outs], pmf), ident
        if T == 'row-order':
            order = list(rs.permutation(len(outs)))
            kw = [{}, {'sort': False}, {'sort': False, 'sparse': False}, {'sparse': False}][int(rs.randint(4))]
            return mk([gen.to_py(outs[i], klass) for i in order], [pmf[i] for i in order], **kw), ident
        if T == 'dense':
            d2 = d.copy()
            d2.make_dense()
            return d2, ident
        if T == 'pad-space':
            alph = [sorted(set(o[i] for o in outs) | {5}) for i in range(n)]
            space = [gen.to_py(list(o), klass) for o in itertools.product(*alph)]
            return mk([gen.to_py(o, klass) for o in outs], pmf, sample_space=space,
                      sparse=bool(rs.randint(2)), trim=False), ident
        if T == 'names':
            d2 = d.copy()
            names = [str(x) for x in rs.permutation(list('XYZWAB'))[:n]]     # index order != alphabetical order
            d2.set_rv_names(names)
            if rs.randint(3):
                d2 = d2.copy()                                                # names must survive a copy in index order
            return d2, (lambda i: names[i])
        if T == 'permute-vars':
            perm = [int(x) for x in rs.permutation(n)]           # new variable j is old variable perm[j]
            outs2 = [[o[perm[j]] for j in range(n)] for o in outs]
            inv = {perm[j]: j for j in range(n)}
            return mk([gen.to_py(o, klass) for o in outs2], pmf), (lambda i: inv[i])
        if T == 'log-sparse':
            # explicit zero outcomes stored, untrimmed
            alph = [sorted(set(o[i] for o in outs)) for i in range(n)]
            full = [list(o) for o in itertools.product(*alph)]
            extra = [o for o in full if o not in outs][:3]
            return mk([gen.to_py(o, klass) for o in outs + extra], pmf + [0.0] * len(extra), trim=False), ident
        if T in ZERO_ROUTES:
            # zero-probability outcomes of the sample space (any subset of them, often all) are STORED while the
            # distribution stays flagged sparse; three routes of the public API lead there
            fr = [Fraction(p) for p in case['pmf']]
            live = [o for o, p in zip(outs, fr) if p > 0]
            alph = [sorted(set(o[i] for o in live)) for i in range(n)]
            missing = [list(o) for o in itertools.product(*alph) if list(o) not in live]
            k = len(missing) if rs.randint(2) else int(rs.randint(0, len(missing) + 1))
            extra = [missing[int(j)] for j in rs.permutation(len(missing))[:k]]
            if T == 'zeros-ctor':
                rows = [(o, p) for o, p in zip(outs, pmf)] + [(o, 0.0) for o in extra if o not in outs]
                order = [int(j) for j in rs.permutation(len(rows))]
                return mk([gen.to_py(rows[j][0], klass) for j in order], [rows[j][1] for j in order], trim=False), ident
            d2 = d.copy()
            if T == 'zeros-assigned':
                for o in extra:
                    d2[gen.to_py(o, klass)] = zero
            else:
                d2.make_dense()
                d2.make_sparse(trim=False)
            return d2, ident
        if T == 'chain':
            # representation changes composed on ONE object.  No step changes a joint probability or the sample space.
            order = [int(j) for j in rs.permutation(len(outs))]
            kw = dict(CHAIN_CTORS[int(rs.randint(len(CHAIN_CTORS)))])
            d2 = mk([gen.to_py(outs[j], klass) for j in order], [pmf[j] for j in order], **kw)
            log = ['Distribution(outcomes in input order %s%s)' % (order, ''.join(', %s=%s' % kv for kv in sorted(kw.items())))]
            for _ in range(int(rs.randint(1, 5))):
                step = CHAIN_STEPS[int(rs.randint(len(CHAIN_STEPS)))]
                u = float(rs.random_sample())
                if step == 'assign-zero':
                    stored = set(d2.outcomes)
                    cand = [o for o in d2.sample_space() if o not in stored]
                    if not cand:
                        continue
                    o = cand[int(u * len(cand))]
                    d2[o] = zero
                    log.append('d[%r] = %r' % (o, zero))
                elif step == 'reassign':
                    o = d2.outcomes[int(u * len(d2.outcomes))]
                    d2[o] = d2[o]
                    log.append('d[%r] = d[%r]' % (o, o))
                elif step == 'dense':
                    d2.make_dense()
                    log.append('make_dense()')
                elif step == 'sparse-untrimmed':
                    d2.make_sparse(trim=False)
                    log.append('make_sparse(trim=False)')
                elif step == 'sparse-trimmed':
                    d2.make_sparse()
                    log.append('make_sparse()')
                else:
                    d2 = d2.copy()
                    log.append('copy()')
            self.chain_log.append(log)
            return d2, ident
        if T == 'embed':
            # a longer joint distribution: original variable i sits at position pos[i] (any order); every other position
            # holds a constant, a copy of one of the variables, or (once) an independent biased coin.  The addressed
            # variables have the same joint probabilities as before.
            N = int(rs.randint(n + 1, EMBED_MAX_VARS + 1))
            pos = [int(x) for x in rs.permutation(N)[:n]]
            others = [j for j in range(N) if j not in pos]
            fill = {}
            noise = None
            for j in others:
                kind = int(rs.randint(4))
                if kind == 0 and noise is None and len(outs) <= 8 and case['family'] != 'divergence':
                    # (not for divergences of the WHOLE distributions: the cross entropy would gain the coin's entropy)
                    noise = j
                elif kind <= 1:
                    fill[j] = ('copy', int(rs.randint(n)))
                else:
                    fill[j] = ('const', int(rs.randint(6)))
            outs2, pmf2 = [], []
            for o, p in zip(outs, pmf):
                for sym, w in (((0, 0.25), (1, 0.75)) if noise is not None else ((None, 1.0),)):
                    row = [0] * N
                    for i in range(n):
                        row[pos[i]] = o[i]
                    for j, (kind, v) in fill.items():
                        row[j] = o[v] if kind == 'copy' else v
                    if noise is not None:
                        row[noise] = sym
                    outs2.append(row)
                    pmf2.append(p * w)
            return mk([gen.to_py(o, klass) for o in outs2], pmf2), (lambda i: pos[i])
        raise ValueError(T)

    @staticmethod
    def restrict(d, a, n):
        """The joint distribution of the n addressed variables (d itself unless they are embedded in a longer one)."""
        if d.outcome_length() == n:
            return d
        return d.marginal([a(i) for i in range(n)])

    # ------------------------------------------------------------------ measure families
    def measures(self, case, rs):
        dit = import_dit()
        import dit.multivariate as mv
        import dit.divergences as D
        from dit.shannon import entropy, conditional_entropy, mutual_information
        n = case['n']
        fam = case['family']
        vars_ = list(range(n))
        X = sorted(int(x) for x in rs.choice(n, size=rs.randint(1, n + 1), replace=False))
        Y = sorted(int(x) for x in rs.choice(n, size=rs.randint(1, n + 1), replace=False))
        A = lambda a, g: [a(i) for i in g]
        out = []
        if fam == 'shannon':
            out += [('entropy%s' % X, lambda d, a: entropy(d, A(a, X))),
                    ('cond_entropy%s|%s' % (X, Y), lambda d, a: conditional_entropy(d, A(a, X), A(a, Y))),
                    ('mutual_information%s:%s' % (X, Y), lambda d, a: mutual_information(d, A(a, X), A(a, Y)))]
        elif fam == 'multivariate':
            groups = [[i] for i in vars_]
            if n >= 3 and rs.randint(2):
                groups = [[0, 1]] + [[i] for i in range(2, n)]
            order = [int(x) for x in rs.permutation(len(groups))]
            for name in ('coinformation', 'total_correlation', 'dual_total_correlation', 'caekl_mutual_information',
                         'o_information', 'tse_complexity', 'interaction_information', 'residual_entropy'):
                f = getattr(mv, name)
                out.append((name, lambda d, a, f=f: f(d, [A(a, g) for g in groups])))
                out.append((name + '(groups reordered)', lambda d, a, f=f: f(d, [A(a, groups[j]) for j in order])))
            out.append(('cohesion', lambda d, a: mv.cohesion(d, 1 + len(groups) // 2, [A(a, g) for g in groups])))
            if len(groups) >= 3:
                # not symmetric in the variables: all groups but the last, conditioned on the last
                for name in ('coinformation', 'total_correlation', 'dual_total_correlation', 'caekl_mutual_information'):
                    f = getattr(mv, name)
                    out.append((name + '(.|last)', lambda d, a, f=f: f(d, [A(a, g) for g in groups[:-1]], A(a, groups[-1]))))
                    out.append((name + '(all but last)', lambda d, a, f=f: f(d, [A(a, g) for g in groups[:-1]])))
        elif fam == 'common':
            groups = [[i] for i in vars_]
            if n >= 3:
                out += [('gk_common_information(0,1)', lambda d, a: mv.gk_common_information(d, [A(a, [0]), A(a, [1])])),
                        ('gk_common_information(0,1|2)', lambda d, a: mv.gk_common_information(d, [A(a, [0]), A(a, [1])], A(a, [2]))),
                        ('mss_common_information(0,2)', lambda d, a: mv.mss_common_information(d, [A(a, [0]), A(a, [2])]))]
            out += [('gk_common_information', lambda d, a: mv.gk_common_information(d, [A(a, g) for g in groups])),
                    ('mss_common_information', lambda d, a: mv.mss_common_information(d, [A(a, g) for g in groups]))]
        elif fam == 'profile':
            from dit.profiles import ShannonPartition, ComplexityProfile
            R = lambda d, a: self.restrict(d, a, n)
            out += [('shannon_partition_atoms', lambda d, a: sorted(round(float(v), 9) for v in ShannonPartition(R(d, a)).atoms.values())),
                    ('complexity_profile', lambda d, a: [round(float(v), 9) for k, v in sorted(ComplexityProfile(R(d, a)).profile.items())])]
        elif fam == 'other':
            # closed-form functions of dit.other / dit.multivariate / dit.divergences that take rvs / crvs, addressed
            # through two groups and a conditioning group chosen in ANY order (not ascending, not covering everything)
            import dit.other as O
            vs = [int(x) for x in rs.permutation(n)]
            k = 1 if n == 2 else int(rs.randint(1, n - 1))
            G1, G2 = vs[:k], vs[k:k + max(1, (n - k) // 2 if n > 2 else 1)]
            Z = vs[k + len(G2):]
            two = lambda f: (lambda d, a: f(d, [A(a, G1), A(a, G2)]))
            twoc = lambda f: (lambda d, a: f(d, [A(a, G1), A(a, G2)], A(a, Z)))
            out += [('lautum_information%s%s' % (G1, G2), two(O.lautum_information)),
                    ('perplexity%s|%s' % (G1, Z), lambda d, a: O.perplexity(d, A(a, G1), A(a, Z))),
                    ('extropy%s' % G1, lambda d, a: O.extropy(d, A(a, G1 + G2))),
                    ('renyi_entropy(2)%s' % (G2 + G1), lambda d, a: O.renyi_entropy(d, 2, A(a, G2 + G1))),
                    ('tsallis_entropy(3)%s' % G2, lambda d, a: O.tsallis_entropy(d, 3, A(a, G2))),
                    ('maximum_correlation%s%s' % (G1, G2), two(D.maximum_correlation)),
                    ('variation_of_information%s%s' % (G1, G2), two(mv.variation_of_information)),
                    ('independent_information%s%s' % (G1, G2), two(mv.independent_information)),
                    ('binding_information%s%s|%s' % (G1, G2, Z), twoc(mv.binding_information)),
                    ('generalized_dual_total_correlation(1)', lambda d, a: mv.generalized_dual_total_correlation(d, 1, [A(a, G1), A(a, G2)], A(a, Z))),
                    ]
            one_point = all(len(set(o[i] for o in case['outs'])) == 1 for i in G1 + G2)
            if one_point and case['transform'] == 'embed':
                # disequilibrium divides by the largest value it can take on the sample space, which is 0 when the
                # addressed variables have a single joint value: 0/0, returned as nan or +-inf according to rounding (the
                # marginal of a longer distribution sums in another order); not judged
                pass
            elif case['transform'] != 'pad-space':
                # defined relative to the equiprobable distribution over the sample space: they depend on it by definition
                out += [('disequilibrium%s' % (G1 + G2), lambda d, a: O.disequilibrium(d, A(a, G1 + G2)))]
                # (LMPR_complexity(d, rvs) used to divide by log2 of the size of the WHOLE joint sample space, so that it
                # changed with the alphabets of variables that are not addressed: repaired, see KNOWN_FINDINGS.txt)
                out += [('LMPR_complexity%s' % (G2 + G1), lambda d, a: O.LMPR_complexity(d, A(a, G2 + G1)))]
            if Z:
                out += [('maximum_correlation%s%s|%s' % (G1, G2, Z), twoc(D.maximum_correlation)),
                        ('lower_intrinsic_mutual_information', twoc(mv.lower_intrinsic_mutual_information)),
                        ('upper_intrinsic_mutual_information', twoc(mv.upper_intrinsic_mutual_information)),
                        ('upper_intrinsic_total_correlation', twoc(mv.upper_intrinsic_total_correlation)),
                        ('upper_intrinsic_dual_total_correlation', twoc(mv.upper_intrinsic_dual_total_correlation)),
                        ('upper_intrinsic_caekl_mutual_information', twoc(mv.upper_intrinsic_caekl_mutual_information)),
                        ('necessary_conditional_entropy-like: entropy%s|%s' % (G1, Z), lambda d, a: mv.entropy(d, [A(a, G1)], A(a, Z)))]
        elif fam == 'pid':
            import dit.pid as pid
            srcs = [[i] for i in range(n - 1)] if n <= 3 else [[0], [1]]
            tgt = [n - 1]
            for cname in ('PID_WB', 'PID_MMI', 'PID_GK', 'PID_PM'):
                cls = getattr(pid, cname)
                out.append((cname, lambda d, a, cls=cls: sorted(round(float(v), 8) for v in
                                                               self.pid_vals(cls, d, [A(a, s) for s in srcs], A(a, tgt)))))
        return out

    @staticmethod
    def pid_vals(cls, d, srcs, tgt):
        p = cls(d, srcs, tgt)
        return [p.get_pi(nd) for nd in p._lattice]

    def run(self, case, drv):
        r = core.Result()
        r.site = 'C08.%s.%s' % (case['family'], case['transform'])
        r.features = ['family=%s' % case['family'], 'transform=%s' % case['transform'], 'n=%d' % case['n'],
                      'klass=%s' % case['klass'], 'support=%s' % case.get('support', 'uniform'),
                      'base=%s' % case.get('base', 'linear')]
        self.chain_log = []
        try:
            self.run_inner(case, drv, r)
        except core.DriverError:
            raise
        except Exception as e:  # noqa
            import traceback
            r.oracle_fail = '%s on %s raised %s: %s' % (case['family'], case['transform'], type(e).__name__, str(e)[:160])
            r.detail = {'traceback': traceback.format_exc()[-700:]}
        if self.chain_log:
            log = self.chain_log[0]
            r.features += ['chain-ctor=%s' % (log[0].split(']')[-1].strip(', )') or 'default')]
            r.features += sorted(set('chain-step=%s' % re_step(x) for x in log[1:]))
            if r.oracle_fail:
                r.oracle_fail += ' [chain: %s]' % ' | '.join(' ; '.join(l) for l in self.chain_log)
        return r

    def readback(self, case, d2, r, what='the distribution'):
        """The premise of the statement for the label-preserving composed changes: every joint probability, looked up by
        its outcome label in the final object, is the one the distribution was built with (0 for the other outcomes of the
        sample space)."""
        if r.oracle_fail:
            return
        base = case.get('base', 'linear')
        given = {}
        for o, p in zip(case['outs'], case['pmf']):
            given[gen.to_py(list(o), case['klass'])] = Fraction(p)
        for o in d2.sample_space():
            want = float(given.get(o, 0))
            got = float(gen.lin_of(d2[o], base))
            if abs(got - want) > 1e-9:
                r.oracle_fail = ('P(%r) = %r is read back from %s after the composed representation changes; it was built '
                                 'with P(%r) = %r' % (o, got, what, o, want))
                r.detail = {'outcome': repr(o), 'observed': got, 'expected': want}
                return

    def run_inner(self, case, drv, r):
        dit = import_dit()
        rs = np.random.RandomState(case['seed'])
        d = gen.build(case)
        r.nontrivial = len(case['outs']) >= 3
        if case['family'] == 'divergence':
            return self.run_divergence(case, d, rs, r)
        if case['family'] == 'scalar':
            return self.run_scalar(case, d, rs, r)
        base = case.get('base', 'linear')
        # a table kept in log base b yields base-b units (entropy's docstring): value * log2(b) is the amount in bits
        unit = 1.0 if base == 'linear' else math.log2(gen.base_num(base))
        d2, addr = self.transform(case, d, rs)
        ident = lambda i: i
        for name, f in self.measures(case, np.random.RandomState(case['seed'] + 1)):
            if name.startswith('generalized_dual_total_correlation') and d2.outcome_length() > 6:
                continue        # it builds the Shannon partition of ALL variables of the distribution: 2^N atoms
            a = f(d, ident)
            try:
                b = f(d2, addr)
            except Exception as e:  # noqa
                import traceback
                r.oracle_fail = ('%s = %s on the distribution but raises %s: %s after the transformation "%s"'
                                 % (name, a, type(e).__name__, str(e)[:120], case['transform']))
                r.detail = {'measure': name, 'before': str(a), 'traceback': traceback.format_exc()[-700:]}
                return
            tol = 1e-5 if 'CCS' in name else 1e-9
            if not self.same(a, b, tol):
                r.oracle_fail = '%s = %s on the distribution but %s after the transformation "%s"' % (name, a, b, case['transform'])
                r.detail = {'measure': name, 'before': str(a), 'after': str(b)}
                return
        if case['transform'] == 'chain':
            self.readback(case, d2, r)
            if r.oracle_fail:
                return
        n = case['n']
        if case['family'] == 'shannon':
            # the common value itself, from the definition H[S] = -sum p(s) log p(s) over the exact marginal of S (zero
            # probabilities contribute nothing), for every non-empty set S of variables, in the unit of the base
            from dit.shannon import entropy
            rows_def = [(list(o), Fraction(p)) for o, p in zip(case['outs'], case['pmf'])]
            subsets = [list(S) for k in range(1, n + 1) for S in itertools.combinations(range(n), k)]
            for S in subsets:
                want = entropy_from_definition(rows_def, S) / unit
                forms = [(d, ident, 'the distribution'), (d2, addr, 'its form after "%s"' % case['transform'])]
                for dd, aa, what in forms:
                    got = float(entropy(dd, [aa(i) for i in S]))
                    if not self.same(want, got, 1e-9):
                        r.oracle_fail = ('entropy%s = %r on %s (base %s); -sum p log p over the exact marginal is %r'
                                         % (S, got, what, base, want))
                        r.detail = {'measure': 'entropy', 'rvs': S, 'observed': got, 'expected': want, 'base': str(base)}
                        return
            # rvs left out: the entropy of all variables
            got, want = float(entropy(d)), entropy_from_definition(rows_def, list(range(n))) / unit
            if not self.same(want, got, 1e-9):
                r.oracle_fail = 'entropy(d) = %r (base %s); -sum p log p over the outcomes is %r' % (got, base, want)
                r.detail = {'measure': 'entropy', 'rvs': None, 'observed': got, 'expected': want, 'base': str(base)}
                return
        if case['family'] == 'common':
            # the common value itself, from the definition of K (components of the support), for the groups used above
            rows_def = [(list(o), Fraction(p)) for o, p in zip(case['outs'], case['pmf'])]
            import dit.multivariate as mv
            for groups in ([[i] for i in range(n)], [[0], [1]], [[0, 1], [n - 1]] if n >= 3 else [[1], [0]]):
                want = gk_from_definition(rows_def, groups)
                r.features.append('K>0' if want > 1e-12 else 'K=0')
                for dd, aa, what in ((d, ident, 'the distribution'), (d2, addr, 'its form after "%s"' % case['transform'])):
                    got = float(mv.gk_common_information(dd, [[aa(i) for i in g] for g in groups]))
                    if abs(got - want) > 1e-9:
                        r.oracle_fail = ('gk_common_information%s = %r on %s; the entropy of the connected components of the '
                                         'support is %r' % (groups, got, what, want))
                        r.detail = {'measure': 'gk_common_information', 'groups': groups, 'observed': got, 'expected': want}
                        return
        # correspondence: the model's value for a representative entropy-combination measure
        rows = [(gen.from_py(o, case['klass']), gen.lin_of(v, base)) for o, v in zip(d.outcomes, d.pmf)]
        ftab = [[o, f2bits(v)] for o, v in rows]
        import dit.multivariate as mv
        groups = [[i] for i in range(n)]
        for name in ('total_correlation', 'dual_total_correlation', 'coinformation'):
            mval = bits2f(drv.call('combf', [name, 0, groups, [], ftab]))
            for dd, aa in ((d, ident), (d2, addr)):
                v = float(getattr(mv, name)(dd, [[aa(i)] for i in range(n)])) * unit
                if abs(v - mval) > 1e-9:
                    r.mismatch = '%s: impl %r bits (after "%s", base %s) model %r' % (name, v, case['transform'], base, mval)
                    return

    # ------------------------------------------------------------------ scalar distributions, binary entropy
    def scalar_atoms(self, case, outs, kind):
        """The scalar outcomes standing for the joint outcomes `outs`: the outcome itself (a string or a tuple, taken as one
        atom) or an integer code (injective, increasing with the outcome)."""
        if kind == 'int':
            return [sum(x * 6 ** (len(o) - 1 - i) for i, x in enumerate(o)) for o in outs]
        return [gen.to_py(o, case['klass']) for o in outs]

    def run_scalar(self, case, d, rs, r):
        """entropy / perplexity / extropy (any base) and Renyi / Tsallis entropy (linear) of a ScalarDistribution whose atoms
        carry the probabilities of the case: unchanged by a bijective renaming of the atoms, the atom class, the input
        order, stored / assigned zeros, a larger sample space, the pmf-only form, and equal to the value on the joint
        distribution the atoms were taken from; entropy also against its definition.  Then the binary entropy of a
        float p: h(p) from the definition, = h(1 - p), = the entropy of a two-outcome distribution in any class."""
        dit = import_dit()
        import dit.multivariate as mv
        import dit.other as O
        from dit.shannon import entropy
        SD = dit.ScalarDistribution
        base = case.get('base', 'linear')
        unit = 1.0 if base == 'linear' else math.log2(gen.base_num(base))
        zero = gen.log_of(Fraction(0), base)
        T, kind, n = case['transform'], case.get('atoms', 'outcome'), case['n']
        outs = [list(o) for o in case['outs']]
        fr = [Fraction(p) for p in case['pmf']]
        lp = [gen.log_of(p, base) for p in fr]
        kwb = {} if base == 'linear' else {'base': base}
        atoms = self.scalar_atoms(case, outs, kind)
        r.features.append('atoms=%s' % kind)
        sd = SD(atoms, lp, **kwb)
        # outcomes of the Cartesian product of the alphabets (with one more symbol) that the case does not list
        alph = [sorted(set(o[i] for o in outs) | {5}) for i in range(n)]
        spare = [list(o) for o in itertools.product(*alph) if list(o) not in outs]
        spare = [spare[int(j)] for j in rs.permutation(len(spare))[:int(rs.randint(1, 5))]]
        extra = self.scalar_atoms(case, spare, kind)
        if T in ('relabel', 'relabel-reverse'):
            # a bijection of the atoms onto themselves (order-reversing, or any), for integers followed by a shift
            srt = sorted(atoms)
            tgt = list(reversed(srt)) if T == 'relabel-reverse' else [srt[int(j)] for j in rs.permutation(len(srt))]
            m = dict(zip(srt, tgt))
            shift = int(rs.randint(0, 50)) if kind == 'int' else None
            sd2 = SD([m[a] + shift if kind == 'int' else m[a] for a in atoms], lp, **kwb)
        elif T == 'class':
            if kind == 'int':
                sd2 = SD(self.scalar_atoms(case, outs, 'outcome'), lp, **kwb)
            else:
                other = 'tuple' if gen.is_str_class(case['klass']) else 'str'
                sd2 = SD([gen.to_py(o, other) for o in outs] if rs.randint(2) else self.scalar_atoms(case, outs, 'int'), lp, **kwb)
        elif T == 'row-order':
            order = [int(j) for j in rs.permutation(len(atoms))]
            kw = [{}, {'sort': False}, {'sort': False, 'sparse': False}, {'sparse': False}][int(rs.randint(4))]
            kw.update(kwb)
            sd2 = SD([atoms[j] for j in order], [lp[j] for j in order], **kw)
        elif T == 'dense':
            sd2 = SD(atoms, lp, sample_space=atoms + extra, **kwb)
            sd2.make_dense()
        elif T == 'pad-space':
            sd2 = SD(atoms, lp, sample_space=sorted(atoms + extra), sparse=bool(rs.randint(2)), trim=False, **kwb)
        elif T == 'zeros-ctor':
            rows = list(zip(atoms, lp)) + [(a, zero) for a in extra]
            order = [int(j) for j in rs.permutation(len(rows))]
            sd2 = SD([rows[j][0] for j in order], [rows[j][1] for j in order], trim=False, **kwb)
        elif T == 'zeros-assigned':
            sd2 = SD(atoms, lp, sample_space=atoms + extra, **kwb)
            for a in extra:
                sd2[a] = zero
        elif T == 'pmf-only':
            # outcomes left out: the integers 0 .. k-1 stand for them
            sd2 = SD(lp, **kwb)
        elif T == 'from-joint':
            sd2 = SD.from_distribution(d)
        else:
            raise ValueError(T)
        fns = [('entropy', lambda x: entropy(x)), ('multivariate.entropy', lambda x: mv.entropy(x)),
               ('perplexity', lambda x: O.perplexity(x)), ('extropy', lambda x: O.extropy(x))]
        if base == 'linear':
            fns += [('renyi_entropy(2)', lambda x: O.renyi_entropy(x, 2)), ('tsallis_entropy(3)', lambda x: O.tsallis_entropy(x, 3)),
                    ('renyi_entropy(0)', lambda x: O.renyi_entropy(x, 0))]
        for name, f in fns:
            a = float(f(sd))
            try:
                b, c = float(f(sd2)), float(f(d))
            except Exception as e:  # noqa
                import traceback
                r.oracle_fail = ('%s = %s on the scalar distribution but raises %s: %s after the transformation "%s" / on '
                                 'the joint distribution' % (name, a, type(e).__name__, str(e)[:120], T))
                r.detail = {'measure': name, 'before': str(a), 'traceback': traceback.format_exc()[-700:]}
                return
            if not self.same(a, b, 1e-9):
                r.oracle_fail = '%s = %r on the scalar distribution but %r after the transformation "%s"' % (name, a, b, T)
                r.detail = {'measure': name, 'before': str(a), 'after': str(b)}
                return
            if not self.same(a, c, 1e-9):
                r.oracle_fail = ('%s = %r on the scalar distribution but %r on the joint distribution with the same '
                                 'probabilities' % (name, a, c))
                r.detail = {'measure': name, 'scalar': str(a), 'joint': str(c)}
                return
        rows_def = [(o, p) for o, p in zip(outs, fr)]
        want = entropy_from_definition(rows_def, list(range(n))) / unit
        for x, what in ((sd, 'the scalar distribution'), (sd2, 'its form after "%s"' % T)):
            got = float(entropy(x))
            if not self.same(want, got, 1e-9):
                r.oracle_fail = 'entropy = %r on %s (base %s); -sum p log p over its outcomes is %r' % (got, what, base, want)
                r.detail = {'measure': 'entropy', 'observed': got, 'expected': want, 'base': str(base)}
                return
        # ---- binary entropy: a float p stands for the distribution (p, 1 - p)
        h = lambda q: -sum(float(t) * math.log2(float(t)) for t in (q, 1 - q) if t > 0)
        for q in sorted(set(fr)):
            p = float(q)
            want = h(q)
            klass = case['klass']
            two = [gen.to_py([0], klass), gen.to_py([1], klass)]
            forms = [('entropy(p)', lambda: entropy(p)), ('entropy(1 - p)', lambda: entropy(1 - p)),
                     ('entropy(numpy.float64(p))', lambda: entropy(np.float64(p))),
                     ('entropy(ScalarDistribution([p, 1 - p]))', lambda: entropy(SD([p, 1 - p]))),
                     ('entropy(ScalarDistribution([1 - p, p]))', lambda: entropy(SD([1 - p, p]))),
                     ('entropy(Distribution(%r, [p, 1 - p]))' % (two,), lambda: entropy(dit.Distribution(two, [p, 1 - p]))),
                     ('entropy(Distribution(%r, [1 - p, p]), [0])' % (two,), lambda: entropy(dit.Distribution(two, [1 - p, p]), [0])),
                     ('extropy(p)', lambda: O.extropy(p))]      # two outcomes: extropy = entropy
            for name, f in forms:
                got = float(f())
                if not self.same(want, got, 1e-9):
                    r.oracle_fail = '%s = %r for p = %r; -p log2 p - (1-p) log2 (1-p) = %r' % (name, got, p, want)
                    r.detail = {'measure': name, 'p': p, 'observed': got, 'expected': want}
                    return

    def run_divergence(self, case, d, rs, r):
        dit = import_dit()
        import dit.divergences as D
        # a second distribution on the same outcomes (different probabilities), both transformed alike
        other = dict(case)
        pm = case['pmf'][1:] + case['pmf'][:1]
        other['pmf'] = pm
        e = gen.build(other)
        seed = case['seed']
        d2, addr = self.transform(case, d, np.random.RandomState(seed))
        e2, _ = self.transform(other, e, np.random.RandomState(seed))
        n = case['n']
        fns = [('kullback_leibler_divergence', lambda a, b: D.kullback_leibler_divergence(a, b)),
               ('jensen_shannon_divergence', lambda a, b: D.jensen_shannon_divergence([a, b])),
               ('variational_distance', lambda a, b: D.variational_distance(a, b)),
               ('hellinger_distance', lambda a, b: D.hellinger_distance(a, b)),
               ('cross_entropy', lambda a, b: D.cross_entropy(a, b))]
        fns += [('renyi_divergence(2)', lambda a, b: D.renyi_divergence(a, b, alpha=2)),
                ('hellinger_divergence(0.5)', lambda a, b: D.hellinger_divergence(a, b, alpha=0.5)),
                ('tsallis_divergence(2)', lambda a, b: D.tsallis_divergence(a, b, alpha=2)),
                ('bhattacharyya_coefficient', lambda a, b: D.bhattacharyya_coefficient(a, b))]
        for name, f in fns:
            x, y = float(f(d, e)), float(f(d2, e2))
            if not self.same(x, y, 1e-9):
                r.oracle_fail = '%s = %r but %r after transforming both arguments by "%s"' % (name, x, y, case['transform'])
                return
        # transformations that keep the outcome labels may be applied to ONE argument only; the second distribution
        # then also lives on a different (smaller) support: outcomes are matched by label, never by position
        if case['transform'] in ('row-order', 'dense', 'pad-space', 'log-sparse', 'chain') + ZERO_ROUTES and len(case['outs']) >= 2:
            third = dict(case)
            fr = [Fraction(p) for p in case['pmf']]
            third['outs'] = case['outs'][1:]
            third['pmf'] = [str(fr[0] + fr[1])] + [str(p) for p in fr[2:]]
            third['alphabets'] = None
            g = gen.build(third)
            g2, _ = self.transform(third, g, np.random.RandomState(seed + 7))
            for name, f in fns:
                for (a1, b1), (a2, b2), what in (((d, e), (d2, e), 'first'), ((d, e), (d, e2), 'second'),
                                                  ((g, e), (g2, e), 'first (smaller support)'),
                                                  ((g, e), (g, e2), 'second (first has smaller support)'),
                                                  ((g, e), (g2, e2), 'both (first has smaller support)')):
                    if name == 'jensen_shannon_divergence' and case['transform'] == 'pad-space':
                        continue        # JSD requires equal sample spaces by contract
                    x, y = float(f(a1, b1)), float(f(a2, b2))
                    if not self.same(x, y, 1e-9):
                        r.oracle_fail = ('%s = %r but %r after transforming the %s argument by "%s"'
                                         % (name, x, y, what, case['transform']))
                        return
        if case['transform'] == 'chain':
            self.readback(case, d2, r, 'the first distribution')
            self.readback(other, e2, r, 'the second distribution')
            if r.oracle_fail:
                return
        if case['transform'] == 'embed':
            # divergences restricted to the addressed variables (rvs given by position in the longer distributions)
            P = sorted(addr(i) for i in range(n))
            sub = [i for i in range(n) if rs.randint(2)] or [0]
            for name, f in [('kullback_leibler_divergence', D.kullback_leibler_divergence), ('cross_entropy', D.cross_entropy),
                            ('renyi_divergence(2)', lambda a, b, rvs: D.renyi_divergence(a, b, alpha=2, rvs=rvs)),
                            ('hellinger_divergence(0.5)', lambda a, b, rvs: D.hellinger_divergence(a, b, alpha=0.5, rvs=rvs))]:
                for g0, g2 in ((list(range(n)), P), (sub, [addr(i) for i in sub])):
                    x, y = float(f(d, e, rvs=g0)), float(f(d2, e2, rvs=g2))
                    if not self.same(x, y, 1e-9):
                        r.oracle_fail = ('%s(rvs=%s) = %r but %r with the same variables at positions %s of a longer '
                                         'distribution' % (name, g0, x, y, g2))
                        return
        # a first argument whose (dense) sample space has the same SIZE as the second's but another alphabet: variable 0
        # never takes symbol s, and a fresh symbol with probability zero is in its alphabet instead
        klass = case['klass']
        outs = [list(o) for o in case['outs']]
        fr = [Fraction(p) for p in case['pmf']]
        E = [sorted(set(o[i] for o in outs)) for i in range(n)]
        if len(E[0]) >= 2:
            sdrop = E[0][int(rs.randint(len(E[0])))]
            keep = [(o, p) for o, p in zip(outs, fr) if o[0] != sdrop and p > 0]
            if keep:
                tot = sum(p for _, p in keep)
                ho, hp = [o for o, _ in keep], [float(p / tot) for _, p in keep]
                h_sparse = dit.Distribution([gen.to_py(o, klass) for o in ho], hp)
                space = [gen.to_py(list(o), klass) for o in itertools.product(sorted(set(E[0]) - {sdrop} | {5}), *E[1:])]
                h_dense = dit.Distribution([gen.to_py(o, klass) for o in ho], hp, sample_space=space, sparse=False)
                e_dense = e.copy()
                e_dense.make_dense()
                for name, f in fns:
                    if name == 'jensen_shannon_divergence':
                        continue
                    x, y = float(f(h_sparse, e)), float(f(h_dense, e_dense))
                    if not self.same(x, y, 1e-9):
                        r.oracle_fail = ('%s = %r for sparse arguments but %r when both are dense over sample spaces of equal '
                                         'size and different alphabets' % (name, x, y))
                        return
        x = float(D.maximum_correlation(d, [[0], [1]]))
        y = float(D.maximum_correlation(d2, [[addr(0)], [addr(1)]]))
        if not self.same(x, y, 1e-8):
            r.oracle_fail = 'maximum_correlation = %r but %r after "%s"' % (x, y, case['transform'])

    @staticmethod
    def same(a, b, tol):
        if isinstance(a, (list, tuple)):
            return len(a) == len(b) and all(C08.same(x, y, max(tol, 2e-8)) for x, y in zip(a, b))
        a, b = float(a), float(b)
        if math.isinf(a) or math.isinf(b):
            return a == b
        if math.isnan(a) or math.isnan(b):
            return math.isnan(a) and math.isnan(b)
        return abs(a - b) <= tol * max(1.0, abs(a))


PROP = C08()
