"""C10, memo cases: a history of `dit.math.ops.get_ops(base)` calls on the real module-level cache against the model
`memoRun` (Core/Memo.lean; Props/C10Memo): returned operations objects (identified by the base they report), hit or
miss of every call, and the keys of the cache in insertion order.  The real cache is restored afterwards."""
import math
from core import Result
from env import import_dit

BASES = [2, 'e', 'linear', 3, 10, 0.5, 2.0, 3.5, 7, 1.5, 10.0, math.e, 16, 0.25]


def canon(b):
    """Python dict keys compare 2 == 2.0: one canonical spelling per key."""
    if isinstance(b, str):
        return b
    return repr(float(b))


def gen_case(rng):
    n = rng.randrange(3, 12)
    pool = rng.sample(range(len(BASES)), rng.randrange(2, 6))
    calls = []
    for _ in range(n):
        if rng.random() < 0.3:
            # a distribution built directly in base b (its operations come from the memo: one memoised call), then
            # re-based in place to b2 (no memoised call: set_base builds its own operations object)
            calls.append(['d', rng.choice(pool), rng.choice(pool)])
        else:
            calls.append(rng.choice(pool))
    return {'kind': 'memo', 'calls': calls, 'warm': rng.random() < 0.5}


def shrink(case):
    calls = case['calls']
    for i in range(len(calls)):
        if len(calls) > 1:
            yield dict(case, calls=calls[:i] + calls[i + 1:])
    for i, c in enumerate(calls):
        if isinstance(c, list):
            yield dict(case, calls=calls[:i] + [c[1]] + calls[i + 1:])


def run(case, drv):
    import_dit()
    import dit.math.ops as ops
    r = Result()
    saved = dict(ops.cache)
    try:
        if not case.get('warm'):
            # dit's pristine memo: 'linear', 2, 'e' (anything an earlier case of this process memoised is put aside)
            for k in list(ops.cache):
                if k not in ('linear', 2, 'e'):
                    del ops.cache[k]
        init = [canon(k) for k in ops.cache]
        import dit
        import numpy as np
        steps = [(BASES[c[1]], BASES[c[2]]) if isinstance(c, list) else (BASES[c], None) for c in case['calls']]
        calls = [b for b, _ in steps]
        vals, hits, runs = [], [], []
        # The history is cut into RUNS of explicit get_ops calls: whatever a distribution does in between (it may or may not
        # ask the memo itself - that is an implementation choice, not part of the statement) only has to keep what is
        # memoised; each run of explicit calls is compared with memoRun started from the memo as it really is.
        run_init, run_calls, run_vals, run_hits = list(init), [], [], []

        def close_run():
            if run_calls:
                runs.append((list(run_init), list(run_calls), list(run_vals), list(run_hits), [canon(k) for k in ops.cache]))
        for b, b2 in steps:
            if b2 is not None:
                close_run()
                before = [(canon(k), id(o)) for k, o in ops.cache.items()]
                with np.errstate(all='ignore'):
                    pm = [0.5, 0.25, 0.25] if b == 'linear' else ops.get_ops(b).log(np.array([0.5, 0.25, 0.25]))
                    dd = dit.Distribution(['0', '1', '2'], pm, base=b)
                    keep = dd.copy()
                    dd.set_base(b2)
                    if canon(keep.get_base()) != canon(b):
                        r.oracle_fail = ('a distribution in base %r reports base %r after ANOTHER distribution in that base was '
                                         're-based to %r' % (b, keep.get_base(), b2))
                        break
                after = [(canon(k), id(o2)) for k, o2 in ops.cache.items()]
                if after[:len(before)] != before:
                    r.oracle_fail = ('building a distribution in base %r and re-basing it to %r replaced or removed memoised '
                                     'operations objects: %s -> %s' % (b, b2, [k for k, _ in before], [k for k, _ in after]))
                    break
                r.features.append('memo-dist-rebase')
                run_init, run_calls, run_vals, run_hits = [k for k, _ in after], [], [], []
            hit = b in ops.cache
            before = [(canon(k), id(o)) for k, o in ops.cache.items()]
            o = ops.get_ops(b)
            after = [(canon(k), id(o2)) for k, o2 in ops.cache.items()]
            if after[:len(before)] != before:
                r.oracle_fail = 'get_ops(%r) replaced or removed memoised operations objects: %s -> %s' % (
                    b, [k for k, _ in before], [k for k, _ in after])
                break
            if canon(o.get_base()) != canon(b):
                r.oracle_fail = 'get_ops(%r) returned operations in base %r (memo keys %s)' % (b, o.get_base(), [k for k, _ in before])
                break
            if ops.get_ops(b) is not o:
                r.oracle_fail = 'get_ops(%r) twice in a row returned two different objects' % (b,)
                break
            vals.append(canon(o.get_base()))
            hits.append(bool(hit))
            run_calls.append(canon(b)); run_vals.append(vals[-1]); run_hits.append(hits[-1])
        close_run()
        keys = [canon(k) for k in ops.cache]
        for k, o in ops.cache.items():
            if not r.oracle_fail and canon(o.get_base()) != canon(k):
                r.oracle_fail = 'after get_ops%s the memo maps %r to operations in base %r' % (tuple(calls), k, o.get_base())
        r.nontrivial = len(set(calls)) >= 2 and any(hits) and not all(hits)
        r.features += ['memo-calls=%d' % min(len(calls), 10), 'memo-new-keys=%d' % (len(keys) - len(init)),
                       'memo-warm=%s' % bool(case.get('warm')), 'memo-runs=%d' % len(runs)]
        if not r.oracle_fail:
            for r_init, r_calls, r_vals, r_hits, r_keys in runs:
                m_vals, m_keys, m_hits = drv.call('memo', [r_init, r_calls])
                if (r_vals, r_keys, r_hits) != (m_vals, m_keys, m_hits):
                    r.mismatch = ('get_ops history %s from memo %s: impl values %s keys %s hits %s; model memoRun values %s keys %s '
                                  'hits %s' % (r_calls, r_init, r_vals, r_keys, r_hits, m_vals, m_keys, m_hits))
                    break
        r.site = 'dit.math.ops.get_ops'
        r.detail = {'initial_keys': init, 'calls': [canon(b) for b in calls], 'values': vals, 'keys': keys, 'hits': hits}
    finally:
        ops.cache.clear()
        ops.cache.update(saved)
    return r
