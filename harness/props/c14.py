"""
C14 — Maximum-entropy distributions match their marginals and have maximal entropy.
"""
import itertools
import math
from fractions import Fraction

import numpy as np

import core
import gen
from canon import f2bits, bits2f
from env import import_dit


class C14(object):
    id = 'C14'
    rule = ("joint distributions of 2-4 variables (alphabets 2-3, structural zeros, heterogeneous alphabets, named "
            "variables, sparse or dense, bases linear/2) x families of marginal constraints (overlapping, nested, "
            "singleton, full, k-way, families leaving variables unconstrained: singletons on a proper subset in any "
            "order / with repeats, block, pairs, pair+singleton; sparse or dense result) by index or name; maxent_dist: "
            "marginal residual, agreement with the model's IPF fixed point (200 sweeps, Float), entropy >= H(d), >= the "
            "IPF entropy and >= the entropy of (own marginal on the constrained variables) x uniform on the "
            "unconstrained ones, closed form for singleton families (product of listed marginals x uniform on the "
            "rest); marginal_maxent_dists: chain length n+1, uniform first, d last, non-increasing entropies. "
            "Non-trivial = >= 3 variables or overlapping constraints")
    tolerances = {'marginal residual': '2e-4 (SLSQP ftol 1e-7; construct_dist clips entries below 1e-6)',
                  'agreement with IPF': '2e-3 per probability', 'entropy dominance': '1e-4'}
    exhaustive = {}
    modelled = "the SLSQP optimiser is not modelled: its output is certified against the marginals and the IPF fixed point"

    def gen(self, rng, tier):
        n_cases = 64 if tier == 'quick' else 900
        for _ in range(n_cases):
            n = rng.choice([1, 2, 3, 3, 4]) if tier == 'thorough' else rng.choice([1, 2, 3, 3, 3, 3, 4])
            c = gen.rand_dist_case(rng, nmin=n, nmax=n, amax=2 if n == 4 else 3, bases=['linear', 2], max_support=10,
                                   klasses=('str', 'tuple'), allow_space=False)
            if n == 3 and rng.random() < 0.12:
                # independent bits with a rare joint outcome (probability between 1e-6 and 1e-4): results are cut off
                # below 1e-6 by design, so an outcome this size has to survive
                qs = [Fraction(rng.choice([3, 4, 45]), 1000 if rng.random() < 0.5 else 100) for _ in range(3)]
                qs[0], qs[1] = Fraction(45, 1000), Fraction(45, 1000)
                outs3 = [list(o) for o in itertools.product([0, 1], repeat=3)]
                pm3 = []
                for o in outs3:
                    p_ = Fraction(1)
                    for b_, q_ in zip(o, qs):
                        p_ *= q_ if b_ else 1 - q_
                    pm3.append(p_)
                c.update({'outs': outs3, 'pmf': [str(p_) for p_ in pm3], 'alphabets': [[0, 1]] * 3, 'space': None,
                          'sparse': True, 'trim': True, 'style': 'rare-outcome', 'rare': True})
            if c['names']:
                c['names'] = list('XYZW')[:n]
            gen.avoid_subnull(c)
            # avoid probabilities near the optimiser's clipping threshold
            if not c.get('rare') and any(0 < Fraction(p) < Fraction(1, 1000) for p in c['pmf']):
                pv, _ = gen.rand_prob_vector(rng, len(c['outs']), 'small')
                c['pmf'] = [str(p) for p in pv]
            fam = rng.choice(['singletons', 'pairs', 'chain', 'full', 'random', 'nested'] + (['gapped', 'gapped'] if n == 4 else []))
            if n == 1:
                fam = 'singletons'
            if fam == 'singletons':
                groups = [[i] for i in range(n)]
            elif fam == 'pairs':
                groups = [list(s) for s in itertools.combinations(range(n), 2)]
            elif fam == 'chain':
                groups = [[i, i + 1] for i in range(n - 1)]
            elif fam == 'full':
                groups = [list(range(n))] + ([[0]] if rng.random() < 0.5 else [])
            elif fam == 'gapped':
                groups = rng.choice([[[0, 1, 3], [2]], [[0, 2, 3], [1]], [[0, 1, 3], [1, 2]], [[0, 2, 3], [0, 1]]])
            elif fam == 'nested':
                groups = [[0], [0, 1]] + ([[2]] if n > 2 else [])
            else:
                groups = [sorted(rng.sample(range(n), rng.randint(1, n - 1))) for _ in range(rng.randint(1, 3))]
            c.update({'kind': rng.choice(['maxent', 'maxent', 'maxent', 'chain']), 'groups': groups, 'fam': fam,
                      'byname': bool(c['names']) and rng.random() < 0.5, 'pre': rng.choice([None, 'zeros', 'zeros', 'full']),
                      'k_max': rng.choice([None, None] + list(range(0, n + 1)))})
            if n == 1:
                c['kind'], c['groups'], c['fam'] = 'chain', [[0]], 'singletons'
            yield c
        # families that leave at least one variable of d unconstrained (drawn after the stream above, which is unchanged)
        for _ in range(14 if tier == 'quick' else 200):
            c = self.gen_free(rng, tier)
            if c is not None:
                yield c

    @staticmethod
    def exact_marginal(case, i):
        m = {}
        for o, p in zip(case['outs'], case['pmf']):
            m[o[i]] = m.get(o[i], Fraction(0)) + Fraction(p)
        return m

    def gen_free(self, rng, tier):
        """A constraint family whose union misses at least one variable, on a source in which a missed variable is
        not uniform over its alphabet (so 'leave it uniform' and 'copy d's marginal' differ): singletons on a proper
        subset (any order, with repeats), one block, pairs/chain among the constrained variables, pair + singleton."""
        n = rng.choice([2, 3, 3, 3, 4])
        for _ in range(40):
            c = gen.rand_dist_case(rng, nmin=n, nmax=n, amax=2 if n == 4 else 3, bases=['linear', 2], max_support=10,
                                   klasses=('str', 'tuple'), allow_space=False)
            if c['names']:
                c['names'] = list('XYZW')[:n]
            gen.avoid_subnull(c)
            if any(0 < Fraction(p) < Fraction(1, 1000) for p in c['pmf']):
                pv, _ = gen.rand_prob_vector(rng, len(c['outs']), 'small')
                c['pmf'] = [str(p) for p in pv]
            nonuni = [i for i in range(n) if len(set(self.exact_marginal(c, i).values())) > 1]
            cells = 1
            for i in range(n):
                cells *= len(set(o[i] for o in c['outs']))
            if cells > 18 and (tier == 'quick' or rng.random() < 0.7):
                continue        # 27-cell tables with free variables take the optimiser tens of seconds each
            if nonuni:
                break
        else:
            return None
        free = set([rng.choice(nonuni)]) | set(i for i in range(n) if rng.random() < 0.3)
        if len(free) == n:
            free.discard(rng.choice([i for i in range(n) if i not in nonuni] or sorted(free)[:1]))
        if not any(i in free for i in nonuni):
            return None
        cov = [i for i in range(n) if i not in free]
        shape = rng.choice(['singletons', 'singletons', 'singletons', 'repeated', 'block', 'pairs', 'mixed'])
        if shape == 'block' and len(cov) >= 2:
            groups = [list(cov)]
        elif shape == 'pairs' and len(cov) >= 2:
            groups = [list(s) for s in itertools.combinations(cov, 2)]
            if len(groups) == 3 and rng.random() < 0.5:
                groups = groups[:1] + groups[2:]      # chain a-b, b-c
        elif shape == 'mixed' and len(cov) >= 3:
            groups = [cov[:2], cov[2:3]]
        elif shape == 'repeated':
            groups = [[i] for i in cov] + [[rng.choice(cov)]]
        else:
            shape = 'singletons'
            groups = [[i] for i in cov]
        rng.shuffle(groups)
        c.update({'kind': 'maxent', 'groups': groups, 'fam': 'free', 'shape': shape,
                  'byname': bool(c['names']) and rng.random() < 0.5, 'pre': rng.choice([None, None, 'zeros', 'full']),
                  'k_max': None, 'dense_out': rng.random() < 0.3})
        return c

    def shrink(self, case):
        return []

    def run(self, case, drv):
        r = core.Result()
        r.site = 'maxent_dist' if case['kind'] == 'maxent' else 'marginal_maxent_dists'
        r.features = ['kind=%s' % case['kind'], 'n=%d' % case['n'], 'fam=%s' % case['fam'], 'base=%s' % case['base'],
                      'byname=%s' % case['byname'], 'sparse=%s' % case['sparse']]
        try:
            (self.run_maxent if case['kind'] == 'maxent' else self.run_chain)(case, drv, r)
        except core.DriverError:
            raise
        except Exception as e:  # noqa
            import traceback
            r.oracle_fail = '%s raised %s: %s' % (case['kind'], type(e).__name__, str(e)[:160])
            r.detail = {'traceback': traceback.format_exc()[-700:]}
        return r

    @staticmethod
    def marg(tab, g):
        m = {}
        for o, p in tab.items():
            k = tuple(o[i] for i in g)
            m[k] = m.get(k, 0.0) + p
        return m

    @staticmethod
    def H(tab):
        return -sum(p * math.log2(p) for p in tab.values() if p > 0)

    def space_of(self, case):
        alph = [sorted(set(o[i] for o in case['outs'])) for i in range(case['n'])]
        union = sorted(set().union(*map(set, alph)))
        return [list(o) for o in itertools.product(*alph)], [list(o) for o in itertools.product(*([union] * case['n']))]

    def run_maxent(self, case, drv, r):
        dit = import_dit()
        from dit.algorithms import maxent_dist
        klass = case['klass']
        d = gen.build(case)
        before = gen.obs_py(d, klass)
        names = case.get('names')
        groups = case['groups']
        rvs = [[names[i] for i in g] for g in groups] if case['byname'] else groups
        if case.get('pre'):
            # history: the same call on a sibling over the same alphabets whose marginal on the first group has a
            # structural zero (or, for 'full', on the uniform sibling) must not influence the call being judged
            alph = [sorted(set(o[i] for o in case['outs'])) for i in range(case['n'])]
            cells = [list(o) for o in itertools.product(*alph)]
            g0 = groups[0]
            if case['pre'] == 'zeros':
                cells = [o for o in cells if not all(o[i] == alph[i][0] for i in g0)] or cells
            if all(sorted(set(o[i] for o in cells)) == alph[i] for i in range(case['n'])):
                sib = dit.Distribution([gen.to_py(o, klass) for o in cells], [1.0 / len(cells)] * len(cells))
                if names:
                    sib.set_rv_names(names)
                r.features.append('pre=%s' % case['pre'])
                maxent_dist(sib, rvs, rv_mode='names' if case['byname'] else 'indices')
        covered = sorted(set(i for g in groups for i in g))
        unc = [i for i in range(case['n']) if i not in covered]
        allsingle = all(len(g) == 1 for g in groups)
        r.features += ['unconstrained=%d' % len(unc), 'all-singletons=%s' % allsingle]
        if case.get('shape'):
            r.features.append('shape=%s' % case['shape'])
        kw = {}
        if case.get('dense_out'):
            kw['sparse'] = False
            r.features.append('dense_out')
        m = maxent_dist(d, rvs, rv_mode='names' if case['byname'] else 'indices', **kw)
        if gen.obs_py(d, klass) != before:
            r.oracle_fail = 'maxent_dist changed its argument'
            return
        src = {tuple(o): float(Fraction(p)) for o, p in zip(case['outs'], case['pmf'])}
        got = {tuple(gen.from_py(o, klass)): gen.lin_of(v, m.get_base()) for o, v in zip(m.outcomes, m.pmf)}
        r.nontrivial = case['n'] >= 3 or case['fam'] in ('pairs', 'chain', 'random')
        if abs(sum(got.values()) - 1) > 1e-9 or min(got.values()) < -1e-12:
            r.oracle_fail = 'maxent_dist returned a non-distribution'
            return
        worst = 0.0
        for g in groups:
            a, b = self.marg(src, g), self.marg(got, g)
            for k in set(a) | set(b):
                worst = max(worst, abs(a.get(k, 0.0) - b.get(k, 0.0)))
        hs, hm = self.H(src), self.H(got)
        r.detail = {'residual': worst, 'H_source': hs, 'H_maxent': hm}
        if worst > 2e-4:
            r.oracle_fail = 'a requested marginal of the result differs from the source\'s by %r' % worst
            return
        if hm < hs - 1e-4:
            r.oracle_fail = 'entropy of the result %r is below the entropy of the source %r' % (hm, hs)
            return
        alph = [sorted(set(o[i] for o in case['outs'])) for i in range(case['n'])]
        if unc:
            # a variable no constraint mentions: the result's own marginal on the constrained variables times the
            # uniform distribution on the alphabets of the others has the same requested marginals as the result
            # (every group lies inside `covered`), so by the statement it cannot have more entropy than the result
            mc = self.marg(got, covered)
            cells = list(itertools.product(*[alph[i] for i in unc]))
            wit = {}
            for k, v in mc.items():
                for cell in cells:
                    o = [None] * case['n']
                    for i, s_ in zip(covered, k):
                        o[i] = s_
                    for i, s_ in zip(unc, cell):
                        o[i] = s_
                    wit[tuple(o)] = v / len(cells)
            hw = self.H(wit)
            r.detail['H_free_witness'] = hw
            if any(tuple(o) not in wit for o in got):
                r.oracle_fail = 'the result has an outcome outside the sample space of the source'
                return
            if hm < hw - 1e-4:
                r.oracle_fail = ('entropy of the result %r is below %r, the entropy of another distribution with the same '
                                 'requested marginals (the result\'s marginal on the constrained variables %s times uniform '
                                 'on the unconstrained %s)' % (hm, hw, covered, unc))
                r.detail['witness'] = {str(k): v for k, v in wit.items()}
                return
        if allsingle and groups and case['fam'] != 'singletons':
            # singleton constraints on some of the variables: product of the listed marginals (exact) times uniform on
            # the alphabets of the variables not listed
            ems = [self.exact_marginal(case, i) if i in covered else {s_: Fraction(1, len(alph[i])) for s_ in alph[i]}
                   for i in range(case['n'])]
            prod = {}
            for combo in itertools.product(*[sorted(mm.items()) for mm in ems]):
                v = Fraction(1)
                for _, q_ in combo:
                    v *= q_
                prod[tuple(k for k, _ in combo)] = float(v)
            dev = max(abs(prod.get(k, 0.0) - got.get(k, 0.0)) for k in set(prod) | set(got))
            r.detail['max_dev_from_closed_form'] = dev
            if dev > 2e-3:
                r.oracle_fail = ('singleton constraints %s: the result is not the product of the listed marginals times '
                                 'uniform on the variables not listed (max deviation %r)' % (groups, dev))
                return
        if case['fam'] == 'singletons':
            prod = {}
            ms = [self.marg(src, [i]) for i in range(case['n'])]
            for combo in itertools.product(*[list(mm.items()) for mm in ms]):
                prod[tuple(k[0] for k, _ in combo)] = float(np.prod([v for _, v in combo]))
            if any(abs(prod.get(k, 0.0) - got.get(k, 0.0)) > 2e-3 for k in set(prod) | set(got)):
                r.oracle_fail = 'singleton constraints: the result is not the product of the marginals'
                return
        if any(len(g) == case['n'] for g in groups):
            if any(abs(src.get(k, 0.0) - got.get(k, 0.0)) > 2e-4 for k in set(src) | set(got)):
                r.oracle_fail = 'a constraint covers all variables but the result differs from the source'
                return
        # model: IPF from the uniform table on the product of the observed alphabets
        space, _ = self.space_of(case)
        ftab = [[list(o), f2bits(p)] for o, p in src.items()]
        q, resid, hq = drv.call('ipff', [ftab, space, groups, 200])
        ipf = {tuple(o): bits2f(v) for o, v in q}
        hq = bits2f(hq)
        r.detail.update({'H_ipf': hq, 'ipf_residual': bits2f(resid)})
        if bits2f(resid) <= 1e-6:
            dev = max(abs(ipf.get(k, 0.0) - got.get(k, 0.0)) for k in set(ipf) | set(got))
            r.detail['max_dev_from_ipf'] = dev
            if hm < hq - 1e-4:
                # the model's iterate is itself a witness: same marginals (residual <= 1e-6), strictly more entropy
                r.oracle_fail = ('entropy of the result %r is below %r, the entropy of another distribution with the same '
                                 'marginals (the IPF iterate, marginal residual %r)' % (hm, hq, bits2f(resid)))
                r.detail['witness'] = {str(k): v for k, v in ipf.items()}
            elif dev > 2e-3:
                r.mismatch = 'maxent_dist differs from the IPF fixed point by %r' % dev
        else:
            r.features.append('ipf-not-converged')

    def run_chain(self, case, drv, r):
        dit = import_dit()
        from dit.algorithms import marginal_maxent_dists
        klass = case['klass']
        d = gen.build(case)
        n = case['n']
        r.nontrivial = n >= 3
        before = gen.obs_py(d, klass)
        kmax = case.get('k_max')
        r.features.append('k_max=%s' % kmax)
        ds = marginal_maxent_dists(d) if kmax is None else marginal_maxent_dists(d, k_max=kmax)
        if gen.obs_py(d, klass) != before:
            r.oracle_fail = 'marginal_maxent_dists changed its argument'
            return
        top = n if kmax is None else kmax       # the chain stops at the k_max-way member
        if len(ds) != top + 1:
            r.oracle_fail = 'chain has %d members for %d variables (k_max=%s)' % (len(ds), n, kmax)
            return
        hs = []
        tabs = []
        for x in ds:
            t = {tuple(gen.from_py(o, klass)): gen.lin_of(v, x.get_base()) for o, v in zip(x.outcomes, x.pmf)}
            tabs.append(t)
            hs.append(self.H(t))
        r.detail = {'entropies': hs}
        src = {tuple(o): float(Fraction(p)) for o, p in zip(case['outs'], case['pmf'])}
        if any(a < b - 1e-4 for a, b in zip(hs, hs[1:])):
            r.oracle_fail = 'entropies along the chain are not non-increasing: %s' % hs
        elif len(set(round(v, 9) for v in tabs[0].values() if v > 0)) != 1:
            r.oracle_fail = 'the first member of the chain is not uniform'
        elif top == n and any(abs(tabs[-1].get(k, 0.0) - src.get(k, 0.0)) > 1e-9 for k in set(src) | set(tabs[-1])):
            r.oracle_fail = 'the last member of the chain is not the distribution itself'
        else:
            for k in range(1, min(n, top + 1)):
                for g in itertools.combinations(range(n), k):
                    a, b = self.marg(src, list(g)), self.marg(tabs[k], list(g))
                    if any(abs(a.get(x, 0.0) - b.get(x, 0.0)) > 2e-4 for x in set(a) | set(b)):
                        r.oracle_fail = 'the %d-way member does not match the %s marginal' % (k, list(g))
                        return


PROP = C14()
