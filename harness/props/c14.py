"""
C14 — Maximum-entropy distributions match their marginals and have maximal entropy.
"""
import itertools
import math
from fractions import Fraction

import numpy as np

import core
import gen
from canon import f2bits, bits2f
from env import import_dit


class C14(object):
    id = 'C14'
    rule = ("joint distributions of 2-4 variables (alphabets 2-3, structural zeros, heterogeneous alphabets, named "
            "variables, sparse or dense, bases linear/2) x families of marginal constraints (overlapping, nested, "
            "singleton, full, k-way, families leaving variables unconstrained: singletons on a proper subset in any "
            "order / with repeats, block, pairs, pair+singleton; sparse or dense result) by index or name; maxent_dist: "
            "marginal residual, agreement with the model's IPF fixed point (200 sweeps, Float), entropy >= H(d), >= the "
            "IPF entropy and >= the entropy of (own marginal on the constrained variables) x uniform on the "
            "unconstrained ones, closed form for singleton families (product of listed marginals x uniform on the "
            "rest); the same with an initial vector x0= (source / uniform / point mass / interior point; x0 unchanged "
            "afterwards), on sources over a declared sample space (list / SampleSpace of members beyond the support, which "
            "the optimiser expands to the union alphabet, or a wider Cartesian product; by index or by name; a named source "
            "gives a result with the same names), and with a variable group requested twice or "
            "after a larger group containing it; marginal_maxent_dists: chain length n+1, uniform first, d last, "
            "non-increasing entropies. "
            "Non-trivial = >= 3 variables or overlapping constraints")
    tolerances = {'marginal residual': '2e-4 (SLSQP ftol 1e-7; construct_dist clips entries below 1e-6)',
                  'agreement with IPF': '2e-3 per probability', 'entropy dominance': '1e-4'}
    exhaustive = {}
    modelled = "the SLSQP optimiser is not modelled: its output is certified against the marginals and the IPF fixed point"

    def gen(self, rng, tier):
        n_cases = 64 if tier == 'quick' else 900
        for _ in range(n_cases):
            n = rng.choice([1, 2, 3, 3, 4]) if tier == 'thorough' else rng.choice([1, 2, 3, 3, 3, 3, 4])
            c = gen.rand_dist_case(rng, nmin=n, nmax=n, amax=2 if n == 4 else 3, bases=['linear', 2], max_support=10,
                                   klasses=('str', 'tuple'), allow_space=False)
            if n == 3 and rng.random() < 0.12:
                # independent bits with a rare joint outcome (probability between 1e-6 and 1e-4): results are cut off
                # below 1e-6 by design, so an outcome this size has to survive
                qs = [Fraction(rng.choice([3, 4, 45]), 1000 if rng.random() < 0.5 else 100) for _ in range(3)]
                qs[0], qs[1] = Fraction(45, 1000), Fraction(45, 1000)
                outs3 = [list(o) for o in itertools.product([0, 1], repeat=3)]
                pm3 = []
                for o in outs3:
                    p_ = Fraction(1)
                    for b_, q_ in zip(o, qs):
                        p_ *= q_ if b_ else 1 - q_
                    pm3.append(p_)
                c.update({'outs': outs3, 'pmf': [str(p_) for p_ in pm3], 'alphabets': [[0, 1]] * 3, 'space': None,
                          'sparse': True, 'trim': True, 'style': 'rare-outcome', 'rare': True})
            if c['names']:
                c['names'] = list('XYZW')[:n]
            gen.avoid_subnull(c)
            # avoid probabilities near the optimiser's clipping threshold
            if not c.get('rare') and any(0 < Fraction(p) < Fraction(1, 1000) for p in c['pmf']):
                pv, _ = gen.rand_prob_vector(rng, len(c['outs']), 'small')
                c['pmf'] = [str(p) for p in pv]
            fam = rng.choice(['singletons', 'pairs', 'chain', 'full', 'random', 'nested'] + (['gapped', 'gapped'] if n == 4 else []))
            if n == 1:
                fam = 'singletons'
            if fam == 'singletons':
                groups = [[i] for i in range(n)]
            elif fam == 'pairs':
                groups = [list(s) for s in itertools.combinations(range(n), 2)]
            elif fam == 'chain':
                groups = [[i, i + 1] for i in range(n - 1)]
            elif fam == 'full':
                groups = [list(range(n))] + ([[0]] if rng.random() < 0.5 else [])
            elif fam == 'gapped':
                groups = rng.choice([[[0, 1, 3], [2]], [[0, 2, 3], [1]], [[0, 1, 3], [1, 2]], [[0, 2, 3], [0, 1]]])
            elif fam == 'nested':
                groups = [[0], [0, 1]] + ([[2]] if n > 2 else [])
            else:
                groups = [sorted(rng.sample(range(n), rng.randint(1, n - 1))) for _ in range(rng.randint(1, 3))]
            c.update({'kind': rng.choice(['maxent', 'maxent', 'maxent', 'chain']), 'groups': groups, 'fam': fam,
                      'byname': bool(c['names']) and rng.random() < 0.5, 'pre': rng.choice([None, 'zeros', 'zeros', 'full']),
                      'k_max': rng.choice([None, None] + list(range(0, n + 1)))})
            if n == 1:
                c['kind'], c['groups'], c['fam'] = 'chain', [[0]], 'singletons'
            yield c
        # families that leave at least one variable of d unconstrained (drawn after the stream above, which is unchanged)
        for _ in range(14 if tier == 'quick' else 200):
            c = self.gen_free(rng, tier)
            if c is not None:
                yield c
        # argument shapes and representations the streams above never produce (drawn after them, which are unchanged):
        # an initial condition x0=, sources over a declared sample space (a list / SampleSpace of members, or a
        # Cartesian product wider than the support), families that ask for the same variable group twice
        for c in self.gen_paths(rng, tier):
            yield c

    @staticmethod
    def exact_marginal(case, i):
        m = {}
        for o, p in zip(case['outs'], case['pmf']):
            m[o[i]] = m.get(o[i], Fraction(0)) + Fraction(p)
        return m

    def gen_free(self, rng, tier):
        """A constraint family whose union misses at least one variable, on a source in which a missed variable is
        not uniform over its alphabet (so 'leave it uniform' and 'copy d's marginal' differ): singletons on a proper
        subset (any order, with repeats), one block, pairs/chain among the constrained variables, pair + singleton."""
        n = rng.choice([2, 3, 3, 3, 4])
        for _ in range(40):
            c = gen.rand_dist_case(rng, nmin=n, nmax=n, amax=2 if n == 4 else 3, bases=['linear', 2], max_support=10,
                                   klasses=('str', 'tuple'), allow_space=False)
            if c['names']:
                c['names'] = list('XYZW')[:n]
            gen.avoid_subnull(c)
            if any(0 < Fraction(p) < Fraction(1, 1000) for p in c['pmf']):
                pv, _ = gen.rand_prob_vector(rng, len(c['outs']), 'small')
                c['pmf'] = [str(p) for p in pv]
            nonuni = [i for i in range(n) if len(set(self.exact_marginal(c, i).values())) > 1]
            cells = 1
            for i in range(n):
                cells *= len(set(o[i] for o in c['outs']))
            if cells > 18 and (tier == 'quick' or rng.random() < 0.7):
                continue        # 27-cell tables with free variables take the optimiser tens of seconds each
            if nonuni:
                break
        else:
            return None
        free = set([rng.choice(nonuni)]) | set(i for i in range(n) if rng.random() < 0.3)
        if len(free) == n:
            free.discard(rng.choice([i for i in range(n) if i not in nonuni] or sorted(free)[:1]))
        if not any(i in free for i in nonuni):
            return None
        cov = [i for i in range(n) if i not in free]
        shape = rng.choice(['singletons', 'singletons', 'singletons', 'repeated', 'block', 'pairs', 'mixed'])
        if shape == 'block' and len(cov) >= 2:
            groups = [list(cov)]
        elif shape == 'pairs' and len(cov) >= 2:
            groups = [list(s) for s in itertools.combinations(cov, 2)]
            if len(groups) == 3 and rng.random() < 0.5:
                groups = groups[:1] + groups[2:]      # chain a-b, b-c
        elif shape == 'mixed' and len(cov) >= 3:
            groups = [cov[:2], cov[2:3]]
        elif shape == 'repeated':
            groups = [[i] for i in cov] + [[rng.choice(cov)]]
        else:
            shape = 'singletons'
            groups = [[i] for i in cov]
        rng.shuffle(groups)
        c.update({'kind': 'maxent', 'groups': groups, 'fam': 'free', 'shape': shape,
                  'byname': bool(c['names']) and rng.random() < 0.5, 'pre': rng.choice([None, None, 'zeros', 'full']),
                  'k_max': None, 'dense_out': rng.random() < 0.3})
        return c

    @staticmethod
    def alph_of(case):
        """Per-variable alphabets (sorted ranks) of the source: those of its declared sample space when it has one
        (members or factors may carry symbols no specified outcome uses), else of the specified outcomes."""
        sp = case.get('space')
        if sp is None:
            return [sorted(set(o[i] for o in case['outs'])) for i in range(case['n'])]
        if sp[0] == 'cart':
            return [sorted(a) for a in sp[1]]
        return [sorted(set(o[i] for o in sp[1])) for i in range(case['n'])]

    def prepared_alph(self, case):
        """Alphabets of the table the optimiser works on: a source over a Cartesian product keeps its alphabets; any
        other sample space is expanded to the product of the union of the alphabets (prepare_dist)."""
        alph = self.alph_of(case)
        sp = case.get('space')
        if sp is not None and sp[0] != 'cart':
            union = sorted(set().union(*map(set, alph)))
            return [list(union) for _ in alph]
        return alph

    def free_cells(self, case, groups):
        """How many cells of the optimiser's table no zero of a requested marginal fixes (an upper bound on the
        dimension of the optimisation, which decides its cost)."""
        src = {}
        for o, p in zip(case['outs'], case['pmf']):
            if Fraction(p) > 0:
                src[tuple(o)] = Fraction(p)
        pos = [set(tuple(o[i] for i in g) for o in src) for g in groups]
        cnt = 0
        for cell in itertools.product(*self.prepared_alph(case)):
            if all(tuple(cell[i] for i in g) in ps for g, ps in zip(groups, pos)):
                cnt += 1
        return cnt

    def base_case(self, rng, n, amax, homog=None):
        for _ in range(60):
            c = gen.rand_dist_case(rng, nmin=n, nmax=n, amax=amax, bases=['linear', 2], max_support=10,
                                   klasses=('str', 'tuple'), allow_space=False)
            if homog is not None and (len(set(map(tuple, c['alphabets']))) == 1) != homog:
                continue
            break
        if c['names']:
            c['names'] = list('XYZW')[:n]
        gen.avoid_subnull(c)
        if any(0 < Fraction(p) < Fraction(1, 1000) for p in c['pmf']):
            pv, _ = gen.rand_prob_vector(rng, len(c['outs']), 'small')
            c['pmf'] = [str(p) for p in pv]
        return c

    @staticmethod
    def family(rng, n, fam):
        if fam == 'singletons':
            return [[i] for i in range(n)]
        if fam == 'pairs':
            return [list(s) for s in itertools.combinations(range(n), 2)]
        if fam == 'chain':
            return [[i, i + 1] for i in range(n - 1)]
        if fam == 'full':
            return [list(range(n))] + ([[0]] if rng.random() < 0.5 else [])
        if fam == 'nested':
            return [[0], [0, 1]] + ([[2]] if n > 2 else [])
        if fam == 'again':
            # the same group asked for twice, or a group asked for after a larger one that contains it and is not an
            # initial segment of the variables (the parameter arrays of its members are then already in the
            # optimiser's cache)
            big = rng.choice([list(p_) for p_ in itertools.combinations(range(n), 2) if p_ != (0, 1)]) if n > 2 else [0, 1]
            shape = rng.choice(['twice', 'sub-after', 'sub-after', 'both']) if n > 2 else 'twice'
            rest = [[i] for i in range(n) if i not in big]
            if shape == 'twice':
                g = rng.choice([[rng.randrange(n)], big])
                groups = [list(g)] + rest + [list(g)]
                groups += [[i] for i in big if len(g) == 1 and i not in g]
            elif shape == 'sub-after':
                groups = [list(big)] + rest + [[rng.choice(big)]]
            else:
                groups = [list(big), [big[1]]] + rest + [[big[0]], [big[1]], list(big)]
            return groups
        return [sorted(rng.sample(range(n), rng.randint(1, n - 1))) for _ in range(rng.randint(1, 3))] if n > 1 else [[0]]

    def gen_paths(self, rng, tier):
        quick = tier == 'quick'
        want = {'x0': 10 if quick else 120, 'space': 14 if quick else 160, 'again': 6 if quick else 60}
        for what in ('x0', 'space', 'again'):
            made = 0
            for _ in range(want[what] * 30):
                if made >= want[what]:
                    break
                n = rng.choice([2, 3, 3, 3, 4])
                c = self.base_case(rng, n, 2 if n == 4 else 3, homog=True if what == 'again' and rng.random() < 0.8 else None)
                kind = 'maxent'
                if what == 'space' or rng.random() < (0.5 if what == 'again' else 0.25):
                    # a declared sample space: members beyond the support (list / SampleSpace: not a Cartesian product,
                    # the optimiser expands it), or a Cartesian product with a symbol no outcome uses
                    sk = rng.choice(['list', 'ss', 'ss', 'cart'])
                    full = [list(o) for o in itertools.product(*c['alphabets'])]
                    if sk == 'cart':
                        c['space'] = ['cart', [sorted(set(a) | set(rng.sample(range(6), rng.randint(0, 1)))) for a in c['alphabets']]]
                    else:
                        extra = [o for o in full if o not in c['outs']]
                        rng.shuffle(extra)
                        members = c['outs'] + extra[:rng.randint(0, len(extra))]
                        rng.shuffle(members)
                        c['space'] = [sk, members]
                    c['spacekind'] = sk
                    if what == 'space' and rng.random() < 0.25:
                        kind = 'chain'
                fam = 'again' if what == 'again' else rng.choice(['singletons', 'pairs', 'chain', 'full', 'random', 'nested', 'again'])
                groups = self.family(rng, n, fam)
                alph, palph = self.alph_of(c), self.prepared_alph(c)
                if what == 'again' and len(set(map(tuple, palph))) > 1 and rng.random() < 0.85:
                    continue        # the cache of parameter arrays exists for tables with one alphabet for all variables
                covered = set(i for g in groups for i in g)
                if kind == 'maxent' and len(covered) < n and alph != palph:
                    # a variable without a constraint on a source that is expanded to the union alphabet: which
                    # alphabet "uniform" refers to is not fixed by the statement -> constrain the remaining variables too
                    groups = groups + [[i] for i in range(n) if i not in covered]
                    fam = fam + '+rest'
                cells = 1
                for a in palph:
                    cells *= len(a)
                if cells > 1300:
                    continue
                fc = self.free_cells(c, groups if kind == 'maxent' else [[i] for i in range(n)])
                if fc > 18 and (quick or fc > 27 or rng.random() < 0.8):
                    continue        # the optimiser's cost grows quickly with the number of free cells
                obs_cells = 1       # the table of the sibling a `pre` history optimises first (all of it is free)
                for i in range(n):
                    obs_cells *= len(set(o[i] for o in c['outs']))
                c.update({'kind': kind, 'groups': groups, 'fam': fam, 'path': what,
                          # constraints by name on a list / SampleSpace sample space used to raise (the expanded copy lost the
                          # variable names); repaired in dit, generated and judged like the rest
                          'byname': bool(c['names']) and rng.random() < 0.5,
                          'pre': rng.choice([None, None, 'zeros', 'full']) if c.get('space') is None and obs_cells <= 18 else None,
                          'k_max': rng.choice([None, None] + list(range(0, n + 1))),
                          'dense_out': rng.random() < 0.25})
                if what == 'x0' and kind == 'maxent':
                    c['x0'] = rng.choice(['source', 'source', 'uniform', 'vertex', 'mix', 'mix'])
                    c['x0_seed'] = rng.randrange(10 ** 6)
                    if fc == 0 or any(len(g) == n for g in groups):
                        continue        # nothing left to optimise: the initial condition is never looked at
                made += 1
                yield c

    def shrink(self, case):
        return []

    def run(self, case, drv):
        r = core.Result()
        r.site = 'maxent_dist' if case['kind'] == 'maxent' else 'marginal_maxent_dists'
        r.features = ['kind=%s' % case['kind'], 'n=%d' % case['n'], 'fam=%s' % case['fam'], 'base=%s' % case['base'],
                      'byname=%s' % case['byname'], 'sparse=%s' % case['sparse']]
        if case.get('space') is not None:
            r.features.append('space=%s' % case['space'][0])
        if case.get('path'):
            r.features.append('path=%s' % case['path'])
        try:
            (self.run_maxent if case['kind'] == 'maxent' else self.run_chain)(case, drv, r)
        except core.DriverError:
            raise
        except Exception as e:  # noqa
            import traceback
            r.oracle_fail = '%s raised %s: %s' % (case['kind'], type(e).__name__, str(e)[:160])
            r.detail = {'traceback': traceback.format_exc()[-700:]}
        return r

    @staticmethod
    def marg(tab, g):
        m = {}
        for o, p in tab.items():
            k = tuple(o[i] for i in g)
            m[k] = m.get(k, 0.0) + p
        return m

    @staticmethod
    def H(tab):
        return -sum(p * math.log2(p) for p in tab.values() if p > 0)

    def space_of(self, case):
        alph = self.alph_of(case)
        union = sorted(set().union(*map(set, alph)))
        return [list(o) for o in itertools.product(*alph)], [list(o) for o in itertools.product(*([union] * case['n']))]

    def initial_vector(self, case):
        import random
        cells = [tuple(o) for o in itertools.product(*self.prepared_alph(case))]
        src = {tuple(o): Fraction(p) for o, p in zip(case['outs'], case['pmf'])}
        kind = case['x0']
        if kind == 'source':
            v = [src.get(o, Fraction(0)) for o in cells]
        elif kind == 'uniform':
            v = [Fraction(1, len(cells))] * len(cells)
        elif kind == 'vertex':
            top = max(src, key=lambda o: (src[o], o))
            v = [Fraction(int(o == top)) for o in cells]
        else:
            rnd = random.Random(case.get('x0_seed', 0))
            w = [rnd.randint(1, 9) for _ in cells]
            v = [Fraction(x, sum(w)) for x in w]
        return np.array([float(x) for x in v])

    def run_maxent(self, case, drv, r):
        dit = import_dit()
        from dit.algorithms import maxent_dist
        klass = case['klass']
        d = gen.build(case)
        before = gen.obs_py(d, klass)
        names = case.get('names')
        groups = case['groups']
        rvs = [[names[i] for i in g] for g in groups] if case['byname'] else groups
        if case.get('pre'):
            # history: the same call on a sibling over the same alphabets whose marginal on the first group has a
            # structural zero (or, for 'full', on the uniform sibling) must not influence the call being judged
            alph = [sorted(set(o[i] for o in case['outs'])) for i in range(case['n'])]
            cells = [list(o) for o in itertools.product(*alph)]
            g0 = groups[0]
            if case['pre'] == 'zeros':
                cells = [o for o in cells if not all(o[i] == alph[i][0] for i in g0)] or cells
            if all(sorted(set(o[i] for o in cells)) == alph[i] for i in range(case['n'])):
                sib = dit.Distribution([gen.to_py(o, klass) for o in cells], [1.0 / len(cells)] * len(cells))
                if names:
                    sib.set_rv_names(names)
                r.features.append('pre=%s' % case['pre'])
                maxent_dist(sib, rvs, rv_mode='names' if case['byname'] else 'indices')
        covered = sorted(set(i for g in groups for i in g))
        unc = [i for i in range(case['n']) if i not in covered]
        allsingle = all(len(g) == 1 for g in groups)
        r.features += ['unconstrained=%d' % len(unc), 'all-singletons=%s' % allsingle]
        if case.get('shape'):
            r.features.append('shape=%s' % case['shape'])
        kw = {}
        if case.get('dense_out'):
            kw['sparse'] = False
            r.features.append('dense_out')
        x0 = x0_before = None
        if case.get('x0'):
            # an initial condition for the optimiser: a full probability vector over the cells of the table it works on
            # (the source itself, the uniform table, a point mass on a cell of the support, a random interior point).
            # The statement does not depend on it: the result is judged exactly as without it.
            x0 = self.initial_vector(case)
            x0_before = x0.copy()
            kw['x0'] = x0
            r.features.append('x0=%s' % case['x0'])
        m = maxent_dist(d, rvs, rv_mode='names' if case['byname'] else 'indices', **kw)
        if x0 is not None and not (x0.shape == x0_before.shape and (x0 == x0_before).all()):
            r.oracle_fail = 'maxent_dist changed the initial vector x0 it was given'
            return
        if gen.obs_py(d, klass) != before:
            r.oracle_fail = 'maxent_dist changed its argument'
            return
        if names and list(m.get_rv_names() or []) != list(names):
            # the result is a distribution of the source's variables: it is addressed by the same names, whatever the
            # sample space of the source (Cartesian or expanded from a list / SampleSpace of members)
            r.oracle_fail = ('the source has variable names %s, the result of maxent_dist has %s'
                             % (list(names), m.get_rv_names()))
            return
        src = {tuple(o): float(Fraction(p)) for o, p in zip(case['outs'], case['pmf'])}
        got = {tuple(gen.from_py(o, klass)): gen.lin_of(v, m.get_base()) for o, v in zip(m.outcomes, m.pmf)}
        r.nontrivial = case['n'] >= 3 or case['fam'] in ('pairs', 'chain', 'random')
        if abs(sum(got.values()) - 1) > 1e-9 or min(got.values()) < -1e-12:
            r.oracle_fail = 'maxent_dist returned a non-distribution'
            return
        worst = 0.0
        for g in groups:
            a, b = self.marg(src, g), self.marg(got, g)
            for k in set(a) | set(b):
                worst = max(worst, abs(a.get(k, 0.0) - b.get(k, 0.0)))
        hs, hm = self.H(src), self.H(got)
        r.detail = {'residual': worst, 'H_source': hs, 'H_maxent': hm}
        if worst > 2e-4:
            r.oracle_fail = 'a requested marginal of the result differs from the source\'s by %r' % worst
            return
        if hm < hs - 1e-4:
            r.oracle_fail = 'entropy of the result %r is below the entropy of the source %r' % (hm, hs)
            return
        alph = self.alph_of(case)
        if unc and alph != self.prepared_alph(case):
            # never generated: without a constraint on a variable, an explicit (non-Cartesian) sample space is expanded
            # to the union alphabet and the statement does not say over which alphabet the variable is left uniform
            r.features.append('unjudged: free variable on an expanded sample space')
            r.nontrivial = False
            return
        if unc:
            # a variable no constraint mentions: the result's own marginal on the constrained variables times the
            # uniform distribution on the alphabets of the others has the same requested marginals as the result
            # (every group lies inside `covered`), so by the statement it cannot have more entropy than the result
            mc = self.marg(got, covered)
            cells = list(itertools.product(*[alph[i] for i in unc]))
            wit = {}
            for k, v in mc.items():
                for cell in cells:
                    o = [None] * case['n']
                    for i, s_ in zip(covered, k):
                        o[i] = s_
                    for i, s_ in zip(unc, cell):
                        o[i] = s_
                    wit[tuple(o)] = v / len(cells)
            hw = self.H(wit)
            r.detail['H_free_witness'] = hw
            if any(tuple(o) not in wit for o in got):
                r.oracle_fail = 'the result has an outcome outside the sample space of the source'
                return
            if hm < hw - 1e-4:
                r.oracle_fail = ('entropy of the result %r is below %r, the entropy of another distribution with the same '
                                 'requested marginals (the result\'s marginal on the constrained variables %s times uniform '
                                 'on the unconstrained %s)' % (hm, hw, covered, unc))
                r.detail['witness'] = {str(k): v for k, v in wit.items()}
                return
        if allsingle and groups and case['fam'] != 'singletons':
            # singleton constraints on some of the variables: product of the listed marginals (exact) times uniform on
            # the alphabets of the variables not listed
            ems = [self.exact_marginal(case, i) if i in covered else {s_: Fraction(1, len(alph[i])) for s_ in alph[i]}
                   for i in range(case['n'])]
            prod = {}
            for combo in itertools.product(*[sorted(mm.items()) for mm in ems]):
                v = Fraction(1)
                for _, q_ in combo:
                    v *= q_
                prod[tuple(k for k, _ in combo)] = float(v)
            dev = max(abs(prod.get(k, 0.0) - got.get(k, 0.0)) for k in set(prod) | set(got))
            r.detail['max_dev_from_closed_form'] = dev
            if dev > 2e-3:
                r.oracle_fail = ('singleton constraints %s: the result is not the product of the listed marginals times '
                                 'uniform on the variables not listed (max deviation %r)' % (groups, dev))
                return
        if case['fam'] == 'singletons':
            prod = {}
            ms = [self.marg(src, [i]) for i in range(case['n'])]
            for combo in itertools.product(*[list(mm.items()) for mm in ms]):
                prod[tuple(k[0] for k, _ in combo)] = float(np.prod([v for _, v in combo]))
            if any(abs(prod.get(k, 0.0) - got.get(k, 0.0)) > 2e-3 for k in set(prod) | set(got)):
                r.oracle_fail = 'singleton constraints: the result is not the product of the marginals'
                return
        if any(len(g) == case['n'] for g in groups):
            if any(abs(src.get(k, 0.0) - got.get(k, 0.0)) > 2e-4 for k in set(src) | set(got)):
                r.oracle_fail = 'a constraint covers all variables but the result differs from the source'
                return
        # model: IPF from the uniform table on the product of the observed alphabets
        space, _ = self.space_of(case)
        ftab = [[list(o), f2bits(p)] for o, p in src.items()]
        q, resid, hq = drv.call('ipff', [ftab, space, groups, 200])
        ipf = {tuple(o): bits2f(v) for o, v in q}
        hq = bits2f(hq)
        r.detail.update({'H_ipf': hq, 'ipf_residual': bits2f(resid)})
        if bits2f(resid) <= 1e-6:
            dev = max(abs(ipf.get(k, 0.0) - got.get(k, 0.0)) for k in set(ipf) | set(got))
            r.detail['max_dev_from_ipf'] = dev
            if hm < hq - 1e-4:
                # the model's iterate is itself a witness: same marginals (residual <= 1e-6), strictly more entropy
                r.oracle_fail = ('entropy of the result %r is below %r, the entropy of another distribution with the same '
                                 'marginals (the IPF iterate, marginal residual %r)' % (hm, hq, bits2f(resid)))
                r.detail['witness'] = {str(k): v for k, v in ipf.items()}
            elif dev > 2e-3:
                r.mismatch = 'maxent_dist differs from the IPF fixed point by %r' % dev
        else:
            r.features.append('ipf-not-converged')

    def run_chain(self, case, drv, r):
        dit = import_dit()
        from dit.algorithms import marginal_maxent_dists
        klass = case['klass']
        d = gen.build(case)
        n = case['n']
        r.nontrivial = n >= 3
        before = gen.obs_py(d, klass)
        kmax = case.get('k_max')
        r.features.append('k_max=%s' % kmax)
        ds = marginal_maxent_dists(d) if kmax is None else marginal_maxent_dists(d, k_max=kmax)
        if gen.obs_py(d, klass) != before:
            r.oracle_fail = 'marginal_maxent_dists changed its argument'
            return
        top = n if kmax is None else kmax       # the chain stops at the k_max-way member
        if len(ds) != top + 1:
            r.oracle_fail = 'chain has %d members for %d variables (k_max=%s)' % (len(ds), n, kmax)
            return
        hs = []
        tabs = []
        for x in ds:
            t = {tuple(gen.from_py(o, klass)): gen.lin_of(v, x.get_base()) for o, v in zip(x.outcomes, x.pmf)}
            tabs.append(t)
            hs.append(self.H(t))
        r.detail = {'entropies': hs}
        src = {tuple(o): float(Fraction(p)) for o, p in zip(case['outs'], case['pmf'])}
        if any(a < b - 1e-4 for a, b in zip(hs, hs[1:])):
            r.oracle_fail = 'entropies along the chain are not non-increasing: %s' % hs
        elif len(set(round(v, 9) for v in tabs[0].values() if v > 0)) != 1:
            r.oracle_fail = 'the first member of the chain is not uniform'
        elif top == n and any(abs(tabs[-1].get(k, 0.0) - src.get(k, 0.0)) > 1e-9 for k in set(src) | set(tabs[-1])):
            r.oracle_fail = 'the last member of the chain is not the distribution itself'
        else:
            for k in range(1, min(n, top + 1)):
                for g in itertools.combinations(range(n), k):
                    a, b = self.marg(src, list(g)), self.marg(tabs[k], list(g))
                    if any(abs(a.get(x, 0.0) - b.get(x, 0.0)) > 2e-4 for x in set(a) | set(b)):
                        r.oracle_fail = 'the %d-way member does not match the %s marginal' % (k, list(g))
                        return


PROP = C14()
