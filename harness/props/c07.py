"""
C07 — Log and linear representations describe the same probability measure.
"""
import math
from fractions import Fraction

import numpy as np

import core
import gen
from canon import f2bits, bits2f
from env import import_dit

LOGBASES = [2, 'e', 10, 3.5, 0.5]


class C07(object):
    id = 'C07'
    rule = ("kinds: OPS - the real Operations objects of 5 log bases (2, e, 10, 3.5, 0.5) on arrays of probabilities with "
            "zeros, singletons and empty arrays: add, mult, invert, normalize, add_reduce, mult_reduce exponentiate to "
            "the linear arithmetic and agree with the model's formulas in Float, likewise the in-place forms add_inplace / "
            "mult_inplace (first argument receives the result, second untouched), and the 'linear' operations object itself "
            "against exact rational arithmetic; OPS2D - normalize / add_reduce of 1..3 x 1..3 arrays with axis None / -1 / 0 / 1 in "
            "all 6 bases against exact whole / row / column normalisation and the model's formulas per line; CHAIN - chains of 1..6 base conversions "
            "through set_base / copy(base=) round-trip; STRUCT - lookup, event_probability, validate, normalize, "
            "marginal, coalesce, condition_on, product, mixture (merge=True / merge=False / mixture_distribution2, the latter two "
            "also against 1/4 p + 3/4 q in exact rationals), sampling (random numbers given, or drawn from a recording generator "
            "passed as prng= or installed as the object's own) of a log distribution exponentiate to the "
            "results on its linear copy; MEASURE - Shannon-type measures of a log distribution times log2(base) equal "
            "the linear values (perplexity base-free), and entropy(p) of a number equals the binary entropy and the entropy of "
            "(p, 1-p) held in the log base; HISTORY - a log distribution (Distribution or ScalarDistribution) and "
            "its linear twin go through the same history of 2..8 steps (d[o] = v on stored / new outcomes, del d[o], "
            "normalize, make_dense, make_sparse, set_base, and the non-mutating copy / from_distribution / copypmf / "
            "marginal / condition_on / is_approx_equal, whose results are checked and then disturbed in place); before "
            "the first and after every step BOTH objects are observed completely (lookup, stored pmf, event "
            "probability, validate, sampling with fixed random numbers, entropy) against the measure the history "
            "defines, tracked in exact rationals. CHAIN and STRUCT also re-observe the source after the operations. "
            "Non-trivial = a distribution with >= 2 positive outcomes and a zero, or an array of >= 3 entries")
    tolerances = {'exponentiated values': 'rtol 1e-9 / atol 1e-12', 'measures': 'atol 1e-9'}
    exhaustive = {}

    def gen(self, rng, tier):
        n_cases = 400 if tier == 'quick' else 24000
        for _ in range(n_cases):
            kind = rng.choice(['ops', 'ops', 'chain', 'struct', 'struct', 'measure', 'history', 'history'])
            if kind == 'ops':
                k = rng.choice([0, 1, 2, 3, 5])
                style = rng.choice(['pmf', 'any'])
                xs = [rng.choice([0.0, 0.5, 0.25, 1.0, 1e-9, 0.3, 0.125, 2.0 if style == 'any' else 0.75]) for _ in range(k)]
                ys = [rng.choice([0.0, 0.5, 0.25, 1.0, 0.1]) for _ in range(k)]
                yield {'kind': 'ops', 'base': rng.choice(LOGBASES), 'xs': xs, 'ys': ys}
            else:
                c = gen.rand_dist_case(rng, nmin=1 if kind in ('chain', 'history') else 2, nmax=3, bases=LOGBASES, allow_names=False)
                if c.get('style') == 'near-degenerate':
                    # the null tolerance is representation dependent by design (|p| <= 1e-8 in linear, exact in
                    # log): keep probabilities away from it so that trimming agrees in both representations
                    k = len(c['pmf'])
                    eps = Fraction(1, 2 ** 20)
                    big = max(range(k), key=lambda i: Fraction(c['pmf'][i]))
                    c['pmf'] = [str(1 - (k - 1) * eps) if i == big else str(eps) for i in range(k)]
                c['kind'] = kind
                c['chain'] = [rng.choice(gen.BASES) for _ in range(rng.randint(1, 6))]
                c['seed'] = rng.randrange(2 ** 31)
                if kind == 'history':
                    c['scalar'] = c['n'] == 1 and rng.random() < 0.5
                    if c['scalar']:
                        c['space'], c['spacekind'] = None, 'alphabet'
                    c['steps'] = hist_steps(rng, c)
                yield c
        # the operations object of EVERY base of the quantifier, 'linear' included (the reference arithmetic itself:
        # LinearOperations.add / add_inplace / normalize are reached by nothing else). Drawn after the stream above
        # so that the cases above are the same as before this block existed.
        for _ in range(48 if tier == 'quick' else 2400):
            k = rng.choice([0, 1, 2, 3, 5])
            style = rng.choice(['pmf', 'any'])
            xs = [rng.choice([0.0, 0.5, 0.25, 1.0, 1e-9, 0.3, 0.125, 2.0 if style == 'any' else 0.75]) for _ in range(k)]
            ys = [rng.choice([0.0, 0.5, 0.25, 1.0, 0.1]) for _ in range(k)]
            yield {'kind': 'ops', 'base': rng.choice(['linear', 'linear', 'linear'] + LOGBASES), 'xs': xs, 'ys': ys}
        # 2-D arrays of probabilities with axis None / -1 / 0 / 1 for normalize and add_reduce, in every base
        for _ in range(40 if tier == 'quick' else 2000):
            nr, nc = rng.randint(1, 3), rng.randint(1, 3)
            m = [[rng.choice([0.0, 0.5, 0.25, 1.0, 1e-9, 0.3, 0.125, 0.75]) for _ in range(nc)] for _ in range(nr)]
            yield {'kind': 'ops2d', 'base': rng.choice(gen.BASES), 'm': m, 'axis': rng.choice([None, -1, 0, 1])}

    def shrink(self, case):
        if case['kind'] == 'history' and len(case.get('steps', [])) > 1:
            for i in range(len(case['steps'])):
                c = dict(case)
                c['steps'] = case['steps'][:i] + case['steps'][i + 1:]
                yield c
        if case['kind'] == 'chain' and len(case['chain']) > 1:
            for i in range(len(case['chain'])):
                c = dict(case)
                c['chain'] = case['chain'][:i] + case['chain'][i + 1:]
                yield c

    # ------------------------------------------------------------------
    def run(self, case, drv):
        r = core.Result()
        kind = case['kind']
        r.site = 'C07.' + kind
        r.features = ['kind=%s' % kind, 'base=%s' % case['base']]
        try:
            getattr(self, 'run_' + kind)(case, drv, r)
        except core.DriverError:
            raise
        except Exception as e:  # noqa
            import traceback
            r.oracle_fail = '%s raised %s: %s' % (kind, type(e).__name__, str(e)[:160])
            r.detail = {'traceback': traceback.format_exc()[-700:]}
        return r

    def run_ops(self, case, drv, r):
        dit = import_dit()
        from dit.math import get_ops, LogOperations, LinearOperations
        base = case['base']
        linear = base == 'linear'
        if linear:
            ops = LinearOperations() if rngless(case) else get_ops(base)
        else:
            ops = LogOperations(base) if rngless(case) else get_ops(base)
        if ops.get_base() != base:
            r.oracle_fail = 'the operations object obtained for base %r reports the base %r' % (base, ops.get_base())
            return
        b = None if linear else gen.base_num(base)
        xs, ys = case['xs'], case['ys']
        r.nontrivial = len(xs) >= 3
        with np.errstate(all='ignore'):
            lx = np.array([gen.log_of(Fraction(x), base) for x in xs], dtype=float)
            ly = np.array([gen.log_of(Fraction(y), base) for y in ys], dtype=float)
            ex = lambda v: np.array([gen.lin_of(t, base) for t in np.atleast_1d(v)])
            res = {}
            if len(xs):
                res['add'] = (ex(ops.add(lx, ly)), np.array(xs) + np.array(ys), ops.add(lx, ly))
                res['mult'] = (ex(ops.mult(lx, ly)), np.array(xs) * np.array(ys), ops.mult(lx, ly))
                pos = np.array([x for x in xs if x > 0])
                lpos = np.array([gen.log_of(Fraction(x), base) for x in pos])
                if len(pos):
                    res['invert'] = (ex(ops.invert(lpos)), 1 / pos, ops.invert(lpos))
                if sum(xs) > 0:
                    res['normalize'] = (ex(ops.normalize(lx.copy())), np.array(xs) / sum(xs), ops.normalize(lx.copy()))
                res['mult_reduce'] = (ex(ops.mult_reduce(lx)), np.array([np.prod(xs)]), ops.mult_reduce(lx))
            red = ops.add_reduce(lx)
            res['add_reduce'] = (ex(red), np.array([sum(xs)]), red)
            # (normalize / add_reduce of 2-D arrays along an axis: kind 'ops2d' below; normalize used to fail there, repaired)
            # the in-place forms: x receives the result, y is left alone. Expected values from exact rationals.
            fxs, fys = [Fraction(x) for x in xs], [Fraction(y) for y in ys]
            inplace_err = None
            if len(xs):
                for name, wantq in (('add_inplace', [x + y for x, y in zip(fxs, fys)]),
                                    ('mult_inplace', [x * y for x, y in zip(fxs, fys)])):
                    xa, ya = lx.copy(), ly.copy()
                    out = getattr(ops, name)(xa, ya)
                    res[name] = (ex(out), np.array([float(q) for q in wantq]), out)
                    res[name + ' (its first argument afterwards)'] = (ex(xa), np.array([float(q) for q in wantq]), xa)
                    if len(np.atleast_1d(out)) != len(xs) or len(xa) != len(xs):
                        inplace_err = 'ops(%s).%s on %s, %s returned %d values' % (base, name, xs, ys, len(np.atleast_1d(out)))
                    if f2bits_list(ya) != f2bits_list(ly):
                        inplace_err = 'ops(%s).%s on %s, %s changed its SECOND argument from %r to %r' % (base, name, xs, ys, list(ly), list(ya))
            if linear and len(xs):
                # the linear object is the reference arithmetic of the statement: judged against exact rationals
                res['add'] = (ex(ops.add(lx, ly)), np.array([float(x + y) for x, y in zip(fxs, fys)]), None)
                res['mult'] = (ex(ops.mult(lx, ly)), np.array([float(x * y) for x, y in zip(fxs, fys)]), None)
                if any(x > 0 for x in fxs):
                    res['invert'] = (ex(ops.invert(lpos)), np.array([float(1 / x) for x in fxs if x > 0]), None)
                if sum(fxs) > 0:
                    res['normalize'] = (ex(ops.normalize(lx.copy())), np.array([float(x / sum(fxs)) for x in fxs]), None)
                res['mult_reduce'] = (ex(ops.mult_reduce(lx)), np.array([float(frac_prod(fxs))]), None)
            if linear:
                res['add_reduce'] = (ex(red), np.array([float(sum(fxs))]), None)
            if f2bits_list(lx) != [f2bits(gen.log_of(Fraction(x), base)) for x in xs]:
                inplace_err = 'an operation of ops(%s) that is not in-place changed its argument %s' % (base, xs)
        for name, (got, want, raw) in res.items():
            if len(got) != len(want):
                r.oracle_fail = 'ops(%s).%s on %s, %s gives %d values, linear arithmetic gives %d' % (base, name, xs, ys, len(got), len(want))
                break
        if inplace_err and not r.oracle_fail:
            r.oracle_fail = inplace_err
        if r.oracle_fail:
            r.detail = {'xs': xs, 'ys': ys}
            return
        for name, (got, want, raw) in res.items():
            for g, w in zip(got, want):
                if not (abs(g - w) <= 1e-12 + 1e-9 * abs(w)):
                    r.oracle_fail = 'ops(%s).%s on %s, %s exponentiates to %r, linear arithmetic gives %r' % (base, name, xs, ys, list(got), list(want))
                    break
            if r.oracle_fail:
                break
        # correspondence with the model's formulas (finite entries only)
        if not r.oracle_fail and len(xs) and not linear:
            finite = [i for i in range(len(xs)) if xs[i] > 0 and ys[i] > 0]
            fx = [f2bits(lx[i]) for i in finite]
            fy = [f2bits(ly[i]) for i in finite]
            if finite:
                for name in ('add', 'add_generic', 'mult'):
                    mo = [bits2f(v) for v in drv.call('opsf', [name, f2bits(b), fx, fy])]
                    raw = res['add' if name.startswith('add') else 'mult'][2]
                    for i, m in zip(finite, mo):
                        if not (abs(float(np.atleast_1d(raw)[i]) - m) <= 1e-9 * max(1.0, abs(m))):
                            r.mismatch = 'ops(%s).%s: impl %r model %r' % (base, name, float(np.atleast_1d(raw)[i]), m)
                # the in-place forms compute the same formulas
                for name, mname in (('add_inplace', 'add'), ('mult_inplace', 'mult')):
                    mo = [bits2f(v) for v in drv.call('opsf', [mname, f2bits(b), fx, fy])]
                    raw = res[name][2]
                    for i, m in zip(finite, mo):
                        if not (abs(float(np.atleast_1d(raw)[i]) - m) <= 1e-9 * max(1.0, abs(m))):
                            r.mismatch = 'ops(%s).%s: impl %r model %r' % (base, name, float(np.atleast_1d(raw)[i]), m)
                if all(x > 0 for x in xs):
                    for name in ('add_reduce', 'normalize', 'mult_reduce'):
                        mo = [bits2f(v) for v in drv.call('opsf', [name, f2bits(b), [f2bits(v) for v in lx], []])]
                        raw = np.atleast_1d(res[name][2])
                        for g, m in zip(raw, mo):
                            if not (abs(float(g) - m) <= 1e-9 * max(1.0, abs(m))):
                                r.mismatch = 'ops(%s).%s: impl %r model %r' % (base, name, list(raw), mo)
        r.detail = {'xs': xs, 'ys': ys}

    def run_ops2d(self, case, drv, r):
        """normalize / add_reduce of a 2-D array along an axis: whole (None), each row (-1, 1), each column (0), against
        exact rationals; log objects exponentiate to the linear result. (normalize ignored the axis in the linear object
        and misplaced it in the log objects until the repair e05dd1b.)"""
        import_dit()
        from dit.math import get_ops, LogOperations, LinearOperations
        base, m, axis = case['base'], case['m'], case['axis']
        linear = base == 'linear'
        nr, nc = len(m), len(m[0])
        fresh = (nr + nc) % 2 == 0
        ops = (LinearOperations() if linear else LogOperations(base)) if fresh else get_ops(base)
        q = [[Fraction(v) for v in row] for row in m]
        r.nontrivial = nr * nc >= 3 and axis is not None
        r.features += ['ops2d.axis=%s' % axis, 'ops2d.shape=%dx%d' % (nr, nc)]
        r.detail = {'m': m, 'axis': axis}
        # the lines (lists of cells) that are normalised together
        if axis is None:
            lines = [[(i, j) for i in range(nr) for j in range(nc)]]
        elif axis == 0:
            lines = [[(i, j) for i in range(nr)] for j in range(nc)]
        else:
            lines = [[(i, j) for j in range(nc)] for i in range(nr)]
        with np.errstate(all='ignore'):
            lx = np.array([[gen.log_of(v, base) for v in row] for row in q], dtype=float)
            before = [f2bits_list(row) for row in lx]
            z = np.asarray(ops.normalize(lx, axis=axis), dtype=float)
            red = np.asarray(ops.add_reduce(lx, axis=axis), dtype=float)
        if [f2bits_list(row) for row in lx] != before:
            r.oracle_fail = 'ops(%s).normalize / add_reduce(axis=%s) changed its argument %s' % (base, axis, m)
            return
        if z.shape != (nr, nc):
            r.oracle_fail = 'ops(%s).normalize(%s, axis=%s) has shape %s' % (base, m, axis, z.shape)
            return
        if red.size != len(lines):
            r.oracle_fail = 'ops(%s).add_reduce(%s, axis=%s) has %d values for %d lines' % (base, m, axis, red.size, len(lines))
            return
        red = red.ravel()
        close = lambda g, w: abs(g - w) <= 1e-12 + 1e-9 * abs(w)
        for li, cells in enumerate(lines):
            tot = sum(q[i][j] for i, j in cells)
            g = gen.lin_of(red[li], base)
            if not close(g, float(tot)):
                r.oracle_fail = 'ops(%s).add_reduce(%s, axis=%s): line %d exponentiates to %r, its sum is %s = %r' % (base, m, axis, li, g, tot, float(tot))
                return
            if tot == 0:
                continue            # 0/0: no normalisation is defined
            for i, j in cells:
                g, w = gen.lin_of(z[i, j], base), float(q[i][j] / tot)
                if not close(g, w):
                    r.oracle_fail = ('ops(%s).normalize(%s, axis=%s): entry [%d][%d] exponentiates to %r, %s / %s = %r (whole result exponentiated: %s)'
                                     % (base, m, axis, i, j, g, q[i][j], tot, w, [[gen.lin_of(t, base) for t in row] for row in z]))
                    return
        # correspondence with the model's 1-D formulas, line by line (finite entries only)
        if not linear:
            b = gen.base_num(base)
            for li, cells in enumerate(lines):
                if not all(q[i][j] > 0 for i, j in cells):
                    continue
                arg = [f2bits(lx[i, j]) for i, j in cells]
                mo = [bits2f(v) for v in drv.call('opsf', ['normalize', f2bits(b), arg, []])]
                for (i, j), mv_ in zip(cells, mo):
                    if not (abs(float(z[i, j]) - mv_) <= 1e-9 * max(1.0, abs(mv_))):
                        r.mismatch = 'ops(%s).normalize(axis=%s) entry [%d][%d]: impl %r model %r' % (base, axis, i, j, float(z[i, j]), mv_)
                mo = [bits2f(v) for v in drv.call('opsf', ['add_reduce', f2bits(b), arg, []])]
                if not (abs(float(red[li]) - mo[0]) <= 1e-9 * max(1.0, abs(mo[0]))):
                    r.mismatch = 'ops(%s).add_reduce(axis=%s) line %d: impl %r model %r' % (base, axis, li, float(red[li]), mo[0])

    def lin_table(self, d, klass, nested=False):
        base = d.get_base()
        conv = (lambda o: tuple(map(tuple, gen.from_py_nested(o, klass)))) if nested else (lambda o: tuple(gen.from_py(o, klass)))
        return {conv(o): gen.lin_of(d[o], base) for o in d.sample_space()}

    def run_chain(self, case, drv, r):
        klass = case['klass']
        d = gen.build(case)
        want = {tuple(o): float(Fraction(p)) for o, p in zip(case['outs'], case['pmf'])}
        r.nontrivial = len([p for p in want.values() if p > 0]) >= 2
        cur = d
        for i, b in enumerate(case['chain']):
            if i % 2 == 0:
                src, src_base = cur, cur.get_base()
                cur = src.copy(base=b)
                # the source of the copy is still the same measure, in its own base
                if src.get_base() != src_base:
                    r.oracle_fail = 'copy(base=%r) changed the base of its source from %r to %r' % (b, src_base, src.get_base())
                    return
                for o, p in self.lin_table(src, klass).items():
                    w = want.get(o, 0.0)
                    if not (abs(p - w) <= 1e-12 + 1e-9 * w):
                        r.oracle_fail = ('after copy(base=%r) of a base-%r distribution (chain %s) the SOURCE has P(%s) = %r, originally %r'
                                         % (b, src_base, case['chain'][:i + 1], list(o), p, w))
                        return
            else:
                cur.set_base(b)
            if cur.get_base() != b:
                r.oracle_fail = 'after converting to %r, get_base() is %r' % (b, cur.get_base())
                return
            tab = self.lin_table(cur, klass)
            for o, p in tab.items():
                w = want.get(o, 0.0)
                if not (abs(p - w) <= 1e-12 + 1e-9 * w):
                    r.oracle_fail = 'after the chain %s, P(%s) = %r, originally %r' % (case['chain'][:i + 1], list(o), p, w)
                    return
            try:
                cur.validate()
            except Exception as e:  # noqa
                r.oracle_fail = 'after the chain %s validate() raised %s' % (case['chain'][:i + 1], type(e).__name__)
                return
            # dit.copypmf: the pmf alone, re-expressed in any base, in the three storage modes
            dit = import_dit()
            b2 = gen.BASES[(case['seed'] + i) % len(gen.BASES)]
            for mode in ('asis', 'dense', 'sparse'):
                arr = dit.copypmf(cur, base=b2, mode=mode)
                if mode == 'asis':
                    outs_m = list(cur.outcomes)
                elif mode == 'dense':
                    outs_m = list(cur.sample_space())
                else:
                    outs_m = [o for o, p in zip(cur.outcomes, cur.pmf) if not cur.ops.is_null(p)]
                if len(arr) != len(outs_m):
                    r.oracle_fail = 'copypmf(mode=%s) has %d entries for %d outcomes' % (mode, len(arr), len(outs_m))
                    return
                for o, v in zip(outs_m, arr):
                    w = want.get(tuple(gen.from_py(o, klass)), 0.0)
                    pl = gen.lin_of(float(v), b2)
                    if not (abs(pl - w) <= 1e-12 + 1e-9 * w):
                        r.oracle_fail = ('copypmf(base=%r, mode=%s) of a base-%r distribution: P(%s) = %r, originally %r'
                                         % (b2, mode, cur.get_base(), list(gen.from_py(o, klass)), pl, w))
                        return
        # the source is untouched by copy(base=)
        if gen.obs_py(d, klass)['base'] != case['base']:
            r.oracle_fail = 'copy(base=) changed the source'
            return
        for o, p in self.lin_table(d, klass).items():
            w = want.get(o, 0.0)
            if not (abs(p - w) <= 1e-12 + 1e-9 * w):
                r.oracle_fail = 'after the chain %s the original distribution has P(%s) = %r, originally %r' % (case['chain'], list(o), p, w)
                return

    def run_struct(self, case, drv, r):
        dit = import_dit()
        klass = case['klass']
        dl = gen.build(case)              # log distribution
        lin = dict(case)
        lin['base'] = 'linear'
        d0 = gen.build(lin)               # its linear twin
        base = case['base']
        n = case['n']
        rs = np.random.RandomState(case['seed'])
        r.nontrivial = len(dl.outcomes) >= 2
        pairs = []
        idx = sorted(rs.choice(n, size=rs.randint(1, n + 1), replace=False).tolist())
        pairs.append(('marginal%s' % idx, self.lin_table(dl.marginal(idx), klass), self.lin_table(d0.marginal(idx), klass)))
        g = [[int(rs.randint(n))], [int(rs.randint(n)), int(rs.randint(n))]]
        pairs.append(('coalesce%s' % g, self.lin_table(dl.coalesce(g), klass, True), self.lin_table(d0.coalesce(g), klass, True)))
        if n >= 2:
            c = [int(rs.randint(n))]
            m1, c1 = dl.condition_on(c)
            m2, c2 = d0.condition_on(c)
            pairs.append(('condition_on%s marginal' % c, self.lin_table(m1, klass), self.lin_table(m2, klass)))
            if len(c1) != len(c2):
                r.oracle_fail = 'condition_on: %d conditionals in base %s, %d in linear' % (len(c1), base, len(c2))
                return
            for i, (a, b) in enumerate(zip(c1, c2)):
                pairs.append(('condition_on%s conditional #%d' % (c, i), self.lin_table(a, klass), self.lin_table(b, klass)))
            pairs.append(('product_distribution', self.lin_table(dit.product_distribution(dl), klass),
                          self.lin_table(dit.product_distribution(d0), klass)))
        # a single variable as a ScalarDistribution (both extraction modes) keeps base and probabilities
        from dit.convert import DtoSD
        i0 = int(rs.randint(n))
        for extract in (True, False):
            sl, s0 = DtoSD(dl.marginal([i0]), extract), DtoSD(d0.marginal([i0]), extract)
            if sl.get_base() != base:
                r.oracle_fail = 'DtoSD(extract=%s) of a base-%s distribution has base %r' % (extract, base, sl.get_base())
                return
            ta = {repr(o): gen.lin_of(v, sl.get_base()) for o, v in zip(sl.outcomes, sl.pmf)}
            tb = {repr(o): float(v) for o, v in zip(s0.outcomes, s0.pmf)}
            for o in set(ta) | set(tb):
                if not (abs(ta.get(o, 0.0) - tb.get(o, 0.0)) <= 1e-12 + 1e-9 * tb.get(o, 0.0) or abs(tb.get(o, 0.0)) <= 1e-8):
                    r.oracle_fail = 'DtoSD(extract=%s): P(%s) = %r from the base-%s distribution, %r from its linear copy' % (
                        extract, o, ta.get(o, 0.0), base, tb.get(o, 0.0))
                    return
        # mixture with a second distribution on the same outcomes
        w = [0.25, 0.75]
        other = dict(case)
        other['pmf'] = case['pmf'][1:] + case['pmf'][:1]
        ol, o0 = gen.build(other), gen.build(dict(other, base='linear'))
        wl = [gen.log_of(Fraction(x), base) for x in w]
        pairs.append(('mixture_distribution', self.lin_table(dit.mixture_distribution([dl, ol], wl, merge=True), klass),
                      self.lin_table(dit.mixture_distribution([d0, o0], w, merge=True), klass)))
        # the mixtures that assume identically stored components (mixture_distribution2: ops.mult_inplace / ops.add_inplace
        # on the stored arrays) and a common sample space (merge=False), on dense copies of the same four distributions
        dense = []
        for t in (dl, ol, d0, o0):
            t = t.copy()
            t.make_dense()
            dense.append(t)
        al, bl, a0, b0 = dense
        mixq = {}
        for cs, wq in ((case, Fraction(1, 4)), (other, Fraction(3, 4))):
            for o, p in zip(cs['outs'], cs['pmf']):
                mixq[tuple(o)] = mixq.get(tuple(o), 0) + wq * Fraction(p)
        for name, fn in (('mixture_distribution2', lambda ds, ws: dit.mixture_distribution2(ds, ws)),
                         ('mixture_distribution(merge=False)', lambda ds, ws: dit.mixture_distribution(ds, ws, merge=False))):
            ml, m0 = fn([al, bl], wl), fn([a0, b0], w)
            if ml.get_base() != base or m0.get_base() != 'linear':
                r.oracle_fail = '%s of base-%s distributions has base %r (of linear ones: %r)' % (name, base, ml.get_base(), m0.get_base())
                return
            tl, t0 = self.lin_table(ml, klass), self.lin_table(m0, klass)
            pairs.append((name, tl, t0))
            for who, t in (('base-%s' % base, tl), ('linear', t0)):
                for o, p in t.items():
                    wq = float(mixq.get(o, 0))
                    if not (abs(p - wq) <= 1e-12 + 1e-9 * wq):
                        r.oracle_fail = '%s of the %s distributions: P(%s) = %r, 1/4 p + 3/4 q = %r' % (name, who, list(o), p, wq)
                        return
            # the components are not consumed by the construction
            for who, t, cs in (('first', al, case), ('second', bl, other), ('first linear', a0, case), ('second linear', b0, other)):
                wt = {tuple(o): float(Fraction(p)) for o, p in zip(cs['outs'], cs['pmf'])}
                for o, p in self.lin_table(t, klass).items():
                    if not (abs(p - wt.get(o, 0.0)) <= 1e-12 + 1e-9 * wt.get(o, 0.0)):
                        r.oracle_fail = 'after %s its %s component has P(%s) = %r, built with %r' % (name, who, list(o), p, wt.get(o, 0.0))
                        return
        for name, a, b in pairs:
            if set(a) != set(b):
                r.oracle_fail = '%s: sample spaces differ between base %s and linear' % (name, base)
                return
            for o in a:
                if not (abs(a[o] - b[o]) <= 1e-12 + 1e-9 * abs(b[o])):
                    if b[o] == 0.0 and abs(a[o]) <= 1e-8:
                        continue    # within the linear null tolerance: stored as absent by the linear copy
                    r.oracle_fail = '%s: P(%s) = %r from the base-%s distribution, %r from its linear copy' % (name, list(o), a[o], base, b[o])
                    return
        # event probability, normalisation, sampling
        ev = [o for i, o in enumerate(dl.sample_space()) if i % 2 == 0]
        e1 = gen.lin_of(dl.event_probability(ev), base)
        e2 = float(d0.event_probability(ev))
        if not (abs(e1 - e2) <= 1e-12 + 1e-9 * e2):
            r.oracle_fail = 'event_probability: %r (base %s) vs %r (linear)' % (e1, base, e2)
            return
        us = rs.rand(8)
        if [repr(x) for x in dl.rand(size=8, rand=us)] != [repr(x) for x in d0.rand(size=8, rand=us)] and not self.near_boundary(d0, us):
            r.oracle_fail = 'sampling with the same random numbers differs between base %s and linear' % base
            return
        cl, c0 = dl.copy(), d0.copy()
        o = dl.outcomes[0]
        cl[o] = gen.log_of(Fraction(3, 4), base)
        c0[o] = 0.75
        zl, z0 = gen.lin_of(cl.normalize(), base), float(c0.normalize())
        if not (abs(zl - z0) <= 1e-9 * z0):
            r.oracle_fail = 'normalize returned %r (base %s) vs %r (linear)' % (zl, base, z0)
            return
        a, b = self.lin_table(cl, klass), self.lin_table(c0, klass)
        for k in a:
            if not (abs(a[k] - b[k]) <= 1e-12 + 1e-9 * abs(b[k])):
                r.oracle_fail = 'after normalize: P(%s) = %r (base %s) vs %r (linear)' % (list(k), a[k], base, b[k])
                return
        # none of the operations above changes its operand: both are still the measure they were built from
        want = {tuple(o): float(Fraction(p)) for o, p in zip(case['outs'], case['pmf'])}
        for who, d in (('base-%s distribution' % base, dl), ('linear twin', d0)):
            for k, p in self.lin_table(d, klass).items():
                w = want.get(k, 0.0)
                if not (abs(p - w) <= 1e-12 + 1e-9 * w or (d is d0 and p == 0.0 and w <= 1e-8)):
                    r.oracle_fail = 'after the structural operations the %s has P(%s) = %r, built with %r' % (who, list(k), p, w)
                    return
        if [repr(x) for x in dl.rand(size=8, rand=us)] != [repr(x) for x in d0.rand(size=8, rand=us)] and not self.near_boundary(d0, us):
            r.oracle_fail = 'sampling (second time) with the same random numbers differs between base %s and linear' % base
            return
        # sampling without explicit random numbers: they come from the generator given, or from the object's own. The
        # generator records what it hands out, so the samples are judged against the numbers actually drawn.
        sd = case['seed'] % (2 ** 31)
        for who, d in (('base-%s distribution' % base, dl), ('linear twin', d0)):
            keep = d.prng
            try:
                draws = []
                g = RecordingPrng(sd)
                draws.append(('rand(size=8, prng=<generator>)', g, [repr(x) for x in d.rand(size=8, prng=g)]))
                g = RecordingPrng(sd + 1)
                draws.append(('rand(prng=<generator>)', g, [repr(d.rand(prng=g))]))
                g = d.prng = RecordingPrng(sd + 2)
                draws.append(('rand(size=8) with the generator as its own', g, [repr(x) for x in d.rand(size=8)]))
                g = d.prng = RecordingPrng(sd + 3)
                draws.append(('rand() with the generator as its own', g, [repr(d.rand())]))
            finally:
                d.prng = keep
            for how, g, got in draws:
                nums = np.array(g.drawn)
                if len(nums) != len(got) or self.near_boundary(d0, nums):
                    continue
                ref = [repr(x) for x in d0.rand(size=len(nums), rand=nums)]
                if got != ref:
                    r.oracle_fail = ('%s of the %s drew the numbers %s and returned %s; the linear twin with the same numbers passed as rand= gives %s'
                                     % (how, who, [float(u) for u in nums], got, ref))
                    return

    # ------------------------------------------------------------------ histories
    # A log distribution and its linear twin are taken through the same sequence of steps. The measure the
    # history defines is tracked here in exact rationals from the meaning of each step (assignment sets a weight,
    # deletion removes it, normalize divides by the total, everything else leaves the measure alone); after every
    # step both objects are observed completely and compared with it.

    def hist_build(self, case, base):
        dit = import_dit()
        if not case.get('scalar'):
            return gen.build(dict(case, base=base))
        u = gen.UNIVERSE[case['klass']]
        outs = [u[o[0]] for o in case['outs']]
        pmf = [gen.log_of(Fraction(p), base) for p in case['pmf']]
        return dit.ScalarDistribution(outs, pmf, sample_space=[u[a] for a in case['alphabets'][0]], base=base,
                                      sparse=case['sparse'], trim=case['trim'])

    @staticmethod
    def hist_key(case):
        klass = case['klass']
        if case.get('scalar'):
            inv = {sym: i for i, sym in enumerate(gen.UNIVERSE[klass])}

            def key(o):
                try:
                    return (inv[o],)
                except (KeyError, TypeError):
                    raise gen.UnreadableOutcome('%r is not one of the symbols %s' % (o, gen.UNIVERSE[klass]))
            return key
        return lambda o: tuple(gen.from_py(o, klass))

    @staticmethod
    def hist_close(p, w, lin):
        """Observed linear value p against the exact value w (the linear representation may read a weight within
        its null tolerance 1e-8 as absent; a log representation has no such tolerance)."""
        wf = float(w)
        return abs(p - wf) <= 1e-12 + 1e-9 * abs(wf) or (lin and p == 0.0 and 0 <= wf <= 1e-8)

    def hist_table(self, d, want, key, what):
        """Lookups over the whole sample space and the stored pmf of `d` against the exact table `want`."""
        base = d.get_base()
        lin = base == 'linear'
        seen = set()
        for o in d.sample_space():
            k = key(o)
            seen.add(k)
            p = gen.lin_of(d[o], base)
            if not self.hist_close(p, want.get(k, 0), lin):
                return '%s: lookup gives P(%s) = %r, the definition gives %s = %r' % (what, list(k), p, want.get(k, 0), float(want.get(k, 0)))
            # membership with and without null outcomes: a member of the sample space "has" positive probability exactly
            # when its weight is positive (weights within the linear null tolerance may have been trimmed: not judged)
            w_ = want.get(k, 0)
            if not bool(d.has_outcome(o, null=True)):
                return '%s: has_outcome(%s) is False for a member of the sample space' % (what, list(k))
            if w_ == 0 or w_ > Fraction(1, 10 ** 7):
                if bool(d.has_outcome(o, null=False)) != (w_ > 0):
                    return '%s: has_outcome(%s, null=False) is %s, its probability is %s' % (
                        what, list(k), bool(d.has_outcome(o, null=False)), w_)
        for k, w in want.items():
            if w > Fraction(1, 10 ** 8) and k not in seen:
                return '%s: the outcome %s of weight %s is not in its sample space' % (what, list(k), w)
        if len(d.outcomes) != len(d.pmf):
            return '%s: %d stored outcomes but %d pmf entries' % (what, len(d.outcomes), len(d.pmf))
        for o, v in zip(d.outcomes, d.pmf):
            k = key(o)
            p = gen.lin_of(float(v), base)
            if not self.hist_close(p, want.get(k, 0), lin):
                return '%s: the stored pmf entry of %s is %r = probability %r, the definition gives %s = %r' % (
                    what, list(k), float(v), p, want.get(k, 0), float(want.get(k, 0)))
        return None

    def hist_observe(self, d, want, key, us, mask, what):
        """Every observer the statement names, on one object, against the exact measure `want`."""
        from dit.shannon import entropy
        err = self.hist_table(d, want, key, what)
        if err:
            return err
        base = d.get_base()
        lin = base == 'linear'
        space = list(d.sample_space())
        ev = [o for j, o in enumerate(space) if (mask >> (j % 31)) & 1]
        if ev:
            e = gen.lin_of(d.event_probability(ev), base)
            w = sum(want.get(key(o), 0) for o in ev)
            if not self.hist_close(e, w, lin):
                return '%s: event_probability(%s) = %r, the definition gives %s = %r' % (what, [list(key(o)) for o in ev], e, w, float(w))
        total = sum(want.values())
        if total == 1:
            try:
                d.validate()
            except Exception as e:  # noqa
                return '%s: validate() raised %s: %s although the weights are probabilities summing to 1' % (what, type(e).__name__, str(e)[:80])
        elif abs(total - 1) >= Fraction(1, 1000):
            try:
                d.validate()
                return '%s: validate() accepts a table of total mass %s' % (what, total)
            except Exception as e:  # noqa
                if type(e).__name__ not in ('InvalidNormalization', 'InvalidProbability'):
                    return '%s: validate() raised %s: %s' % (what, type(e).__name__, str(e)[:80])
        if total != 1:
            return None
        # sampling: with the random number u the sample is the stored outcome whose cumulative interval contains u
        stored = [key(o) for o in d.outcomes]
        cum, acc = [], Fraction(0)
        for k in stored:
            acc += want.get(k, 0)
            cum.append(acc)
        got = [key(x) for x in d.rand(size=len(us), rand=np.array(us))]
        one = key(d.rand(rand=float(us[0])))
        for i, u in enumerate(us):
            fu = Fraction(float(u))
            if any(abs(fu - c) < Fraction(1, 10 ** 9) for c in cum) or fu >= cum[-1]:
                continue
            exp = stored[min(j for j, c in enumerate(cum) if fu < c)]
            if got[i] != exp:
                return '%s: rand(size=%d, rand=...) maps the random number %r to %s, its probabilities %s over the stored outcomes map it to %s' % (
                    what, len(us), float(u), list(got[i]), [str(want.get(k, 0)) for k in stored], list(exp))
            if i == 0 and one != exp:
                return '%s: rand(rand=%r) gives %s, its probabilities %s over the stored outcomes give %s' % (
                    what, float(u), list(one), [str(want.get(k, 0)) for k in stored], list(exp))
        # the same with the random numbers drawn by a generator (the one passed, or the object's own) that records what
        # it hands out: every sample is the outcome that the number drawn for it selects
        sd = int(mask) % (2 ** 31)

        def expected(u):
            fu = Fraction(float(u))
            if any(abs(fu - c) < Fraction(1, 10 ** 9) for c in cum) or fu >= cum[-1]:
                return None
            return stored[min(j for j, c in enumerate(cum) if fu < c)]
        keep = d.prng
        try:
            draws = []
            g = RecordingPrng(sd)
            draws.append(('rand(size=6, prng=<generator>)', g, [key(x) for x in d.rand(size=6, prng=g)]))
            g = RecordingPrng(sd + 1)
            draws.append(('rand(prng=<generator>)', g, [key(d.rand(prng=g))]))
            g = d.prng = RecordingPrng(sd + 2)
            draws.append(('rand(size=6) with the generator as its own', g, [key(x) for x in d.rand(size=6)]))
            g = d.prng = RecordingPrng(sd + 3)
            draws.append(('rand() with the generator as its own', g, [key(d.rand())]))
        finally:
            d.prng = keep
        for how, g, got2 in draws:
            if len(g.drawn) != len(got2):
                continue            # how many numbers a draw consumes is not part of the statement
            for u, x in zip(g.drawn, got2):
                exp = expected(u)
                if exp is not None and x != exp:
                    return '%s: %s drew the number %r and returned %s, its probabilities %s over the stored outcomes map that number to %s' % (
                        what, how, float(u), list(x), [str(want.get(k, 0)) for k in stored], list(exp))
        # entropy in the object's own unit
        H = -sum(float(w) * math.log2(float(w)) for w in want.values() if w > 0)
        a = float(entropy(d))
        kk = 1.0 if lin else math.log2(gen.base_num(base))
        if not (abs(a * kk - H) <= 1e-9):
            return '%s: entropy = %r (x log2(base) = %r), the definition gives %r bits' % (what, a, a * kk, H)
        return None

    @staticmethod
    def hist_disturb(c):
        """Change a derived object in place: were it sharing storage with its source, the next observation of the
        source would show it."""
        if len(c.outcomes):
            c[c.outcomes[0]] = gen.log_of(Fraction(3, 4), c.get_base())
            c.normalize()

    def run_history(self, case, drv, r):
        dit = import_dit()
        scalar = bool(case.get('scalar'))
        n = case['n']
        key = self.hist_key(case)
        dl, d0 = self.hist_build(case, case['base']), self.hist_build(case, 'linear')
        twins = lambda: (('base-%s %s' % (dl.get_base(), 'ScalarDistribution' if scalar else 'Distribution'), dl), ('linear twin', d0))
        want = {key(o): Fraction(0) for o in dl.sample_space()}
        for o, p in zip(case['outs'], case['pmf']):
            want[tuple(o)] = want.get(tuple(o), 0) + Fraction(p)
        rs = np.random.RandomState(case['seed'])
        us = np.concatenate([rs.rand(10), (np.arange(8) + 0.5) / 8])
        r.features += ['hist.scalar=%s' % scalar, 'hist.steps=%d' % len(case['steps'])]
        done = []
        mutated = False

        def observe_all(when):
            for who, d in twins():
                err = self.hist_observe(d, want, key, us, case['seed'] + 7 * len(done), 'the %s %s' % (who, when))
                if err:
                    return err
            return None

        err = observe_all('as built')
        if err:
            r.oracle_fail = err
            return
        for step in case['steps']:
            name = step[0]
            total = sum(want.values())
            when = 'after the history %s' % (done + [step])
            skip = False
            if name in ('setitem', 'delitem'):
                pool = list(dl.sample_space())
                if step[1] == 'stored' and len(dl.outcomes):
                    pool = list(dl.outcomes)
                elif step[1] == 'new':
                    pool = [x for x in pool if x not in dl.outcomes] or pool
                o = pool[step[2] % len(pool)]
                k = key(o)
                if name == 'setitem':
                    v = step[3]
                    if v == 'fill':
                        v = want[k] + 1 - total
                        if v < 0:
                            v = Fraction(1, 2)
                    v = Fraction(v)
                else:
                    v = Fraction(0)
                if total - want[k] + v == 0:
                    skip = True          # an all-zero table is not a measure any observer is defined on
                else:
                    r.features.append('hist.%s:%s' % (name, 'stored' if o in dl.outcomes else 'new'))
                    if name == 'setitem':
                        dl[o] = gen.log_of(v, dl.get_base())
                        d0[o] = float(v)
                    else:
                        del dl[o]
                        del d0[o]
                    mutated = mutated or v != want[k]
                    want[k] = v
            elif name == 'normalize':
                zl, z0 = gen.lin_of(dl.normalize(), dl.get_base()), float(d0.normalize())
                for who, z in (('base-%s' % dl.get_base(), zl), ('linear', z0)):
                    if not (abs(z - float(total)) <= 1e-9 * float(total)):
                        r.oracle_fail = '%s: normalize() of the %s object returned the constant %r, the total mass was %s = %r' % (when, who, z, total, float(total))
                        return
                want = {k: w / total for k, w in want.items()}
                mutated = mutated or total != 1
            elif name == 'make_dense':
                dl.make_dense()
                d0.make_dense()
            elif name == 'make_sparse':
                dl.make_sparse()
                d0.make_sparse()
            elif name == 'set_base':
                dl.set_base(step[1])
                if dl.get_base() != step[1]:
                    r.oracle_fail = '%s: get_base() is %r' % (when, dl.get_base())
                    return
            elif name in ('copy', 'from_distribution'):
                b = step[1]
                for who, d in twins():
                    src_base = d.get_base()
                    if name == 'copy':
                        c = d.copy() if b is None else d.copy(base=b)
                    else:
                        c = (dit.ScalarDistribution if scalar else dit.Distribution).from_distribution(d, base=b)
                    if c.get_base() != (src_base if b is None else b):
                        r.oracle_fail = '%s: %s(base=%r) of the %s has base %r' % (when, name, b, who, c.get_base())
                        return
                    err = self.hist_table(c, want, key, '%s: the result of %s(base=%r) on the %s' % (when, name, b, who))
                    if err:
                        r.oracle_fail = err
                        return
                    self.hist_disturb(c)
            elif name == 'copypmf':
                b, mode = step[1], step[2]
                for who, d in twins():
                    lin = d.get_base() == 'linear'
                    if lin and any(0 < w <= Fraction(1, 10 ** 8) for w in want.values()):
                        continue      # which entries are "null" is representation dependent below 1e-8
                    arr = dit.copypmf(d, base=b, mode=mode)
                    outs_m = {'asis': list(d.outcomes), 'dense': list(d.sample_space()),
                              'sparse': [o for o in d.outcomes if want.get(key(o), 0) > 0]}[mode]
                    if len(arr) != len(outs_m):
                        r.oracle_fail = '%s: copypmf(base=%r, mode=%s) of the %s has %d entries for %d outcomes' % (when, b, mode, who, len(arr), len(outs_m))
                        return
                    tb = d.get_base() if b is None else b
                    for o, v in zip(outs_m, arr):
                        if not self.hist_close(gen.lin_of(float(v), tb), want.get(key(o), 0), False):
                            r.oracle_fail = '%s: copypmf(base=%r, mode=%s) of the %s: P(%s) = %r, the definition gives %s' % (
                                when, b, mode, who, list(key(o)), gen.lin_of(float(v), tb), want.get(key(o), 0))
                            return
                    arr.fill(0.125)
            elif name == 'marginal' and not scalar:
                idx = sorted(set(i % n for i in step[1]))
                mw = {}
                for k, w in want.items():
                    kk = tuple(k[i] for i in idx)
                    mw[kk] = mw.get(kk, 0) + w
                for who, d in twins():
                    m = d.marginal(idx)
                    if m.get_base() != d.get_base():
                        r.oracle_fail = '%s: marginal(%s) of the %s has base %r' % (when, idx, who, m.get_base())
                        return
                    err = self.hist_table(m, mw, key, '%s: marginal(%s) of the %s' % (when, idx, who))
                    if err:
                        r.oracle_fail = err
                        return
                    self.hist_disturb(m)
            elif name == 'condition_on' and not scalar and n >= 2 and total == 1:
                j = step[1] % n
                rest = [i for i in range(n) if i != j]
                mw = {}
                for k, w in want.items():
                    mw[(k[j],)] = mw.get((k[j],), 0) + w
                for who, d in twins():
                    m, conds = d.condition_on([j])
                    err = self.hist_table(m, mw, key, '%s: the marginal returned by condition_on([%d]) of the %s' % (when, j, who))
                    if err:
                        r.oracle_fail = err
                        return
                    if len(conds) != len(m.outcomes):
                        r.oracle_fail = '%s: condition_on([%d]) of the %s returned %d conditionals for %d conditioning outcomes' % (when, j, who, len(conds), len(m.outcomes))
                        return
                    for mo, cd in zip(m.outcomes, conds):
                        km = key(mo)
                        if mw.get(km, 0) <= Fraction(1, 10 ** 8):
                            continue
                        cw = {}
                        for k, w in want.items():
                            if k[j] == km[0]:
                                kk = tuple(k[i] for i in rest)
                                cw[kk] = cw.get(kk, 0) + w / mw[km]
                        err = self.hist_table(cd, cw, key, '%s: the conditional given X%d=%s from condition_on of the %s' % (when, j, list(km), who))
                        if err:
                            r.oracle_fail = err
                            return
                        self.hist_disturb(cd)
                    self.hist_disturb(m)
            elif name == 'approx_equal' and not any(0 < w <= Fraction(1, 10 ** 6) for w in want.values()):
                other = d0.copy(base=dl.get_base())
                if not dl.is_approx_equal(other) or not other.is_approx_equal(dl):
                    r.oracle_fail = '%s: the base-%s object is not is_approx_equal to the copy of its linear twin in the same base' % (when, dl.get_base())
                    return
                self.hist_disturb(other)
            else:
                skip = True
            if skip:
                r.features.append('hist.skipped=%s' % name)
                continue
            done.append(step)
            r.features.append('hist.step=%s' % name)
            err = observe_all(when)
            if err:
                r.oracle_fail = err
                r.detail = {'steps_done': done, 'measure': {str(list(k)): str(w) for k, w in want.items()}}
                return
        r.nontrivial = mutated and len([w for w in want.values() if w > 0]) >= 2
        r.detail = {'steps_done': done}

    @staticmethod
    def near_boundary(d0, us):
        cum = np.cumsum(d0.pmf)
        return any(np.min(np.abs(cum - u)) < 1e-9 for u in us)

    def run_measure(self, case, drv, r):
        dit = import_dit()
        import dit.multivariate as mv
        from dit.shannon import entropy, conditional_entropy, mutual_information
        from dit.other import extropy, perplexity
        dl = gen.build(case)
        d0 = gen.build(dict(case, base='linear'))
        base = case['base']
        n = case['n']
        k = math.log2(gen.base_num(base))
        r.nontrivial = len(dl.outcomes) >= 2
        groups = [[i] for i in range(n)]
        X, Y = [0], [n - 1]
        fns = [('entropy', lambda d: entropy(d)), ('entropy[0]', lambda d: entropy(d, [0])),
               ('conditional_entropy', lambda d: conditional_entropy(d, X, Y)),
               ('mutual_information', lambda d: mutual_information(d, X, Y)),
               ('coinformation', lambda d: mv.coinformation(d, groups)),
               ('total_correlation', lambda d: mv.total_correlation(d, groups)),
               ('dual_total_correlation', lambda d: mv.dual_total_correlation(d, groups)),
               ('caekl_mutual_information', lambda d: mv.caekl_mutual_information(d, groups)),
               ('o_information', lambda d: mv.o_information(d, groups)),
               ('tse_complexity', lambda d: mv.tse_complexity(d, groups)),
               ('interaction_information', lambda d: mv.interaction_information(d, groups)),
               ('multivariate.entropy', lambda d: mv.entropy(d, [[0]], [n - 1])),
               ('extropy', lambda d: extropy(d))]
        for name, f in fns:
            try:
                a, b = float(f(dl)), float(f(d0))
            except Exception as e:  # noqa
                r.oracle_fail = '%s raised %s: %s on a base-%s distribution' % (name, type(e).__name__, str(e)[:100], base)
                return
            if not (abs(a * k - b) <= 1e-9):
                r.oracle_fail = '%s: %r in base %s (x log2(base) = %r) but %r bits on the linear copy' % (name, a, base, a * k, b)
                return
        pa, pb = float(perplexity(dl)), float(perplexity(d0))
        if not (abs(pa - pb) <= 1e-9 * pb):
            r.oracle_fail = 'perplexity: %r (base %s) vs %r (linear)' % (pa, base, pb)
            return
        # the same measures on scalar distributions
        s0 = dit.ScalarDistribution(list(range(len(d0.pmf))), [float(v) for v in d0.pmf], trim=False)
        sl = s0.copy(base=base)
        for name, f in (('entropy(scalar)', entropy), ('extropy(scalar)', extropy)):
            a, b = float(f(sl)), float(f(s0))
            if not (abs(a * k - b) <= 1e-9):
                r.oracle_fail = '%s: %r in base %s (x log2(base) = %r) but %r bits on the linear copy' % (name, a, base, a * k, b)
                return
        pa, pb = float(perplexity(sl)), float(perplexity(s0))
        if not (abs(pa - pb) <= 1e-9 * pb):
            r.oracle_fail = 'perplexity(scalar): %r (base %s) vs %r (linear)' % (pa, base, pb)
            return
        # entropy of a number p (the binary entropy, in bits): the linear value of the two-outcome distribution (p, 1 - p),
        # which its copy in the log base must reproduce in its own unit
        for q in sorted(set([Fraction(case['pmf'][0]), Fraction(case['pmf'][-1]), Fraction(1, 2)])):
            hb = float(entropy(float(q)))
            H = -sum(float(t) * math.log2(float(t)) for t in (q, 1 - q) if t > 0)
            if not (abs(hb - H) <= 1e-9):
                r.oracle_fail = 'entropy(%r) = %r, the binary entropy of %s is %r bits' % (float(q), hb, q, H)
                return
            s2 = dit.ScalarDistribution([0, 1], [float(q), float(1 - q)], trim=False).copy(base=base)
            a = float(entropy(s2))
            if not (abs(a * k - hb) <= 1e-9):
                r.oracle_fail = 'entropy of (%s, %s) held in base %s is %r (x log2(base) = %r) but entropy(%r) = %r bits' % (
                    q, 1 - q, base, a, a * k, float(q), hb)
                return


HIST_VALUES = ['0', '1/8', '1/4', '1/2', '3/4', '1', '3/2', 'fill', 'fill']


def hist_steps(rng, case):
    """A history: in-place changes (weighted towards stored outcomes, so that the same array is modified),
    representation changes, and non-mutating operations whose source is observed again afterwards."""
    n = case['n']
    pool = ['setitem'] * 4 + ['normalize'] * 3 + ['copy'] * 3 + ['set_base'] * 2 + ['from_distribution', 'copypmf', 'make_dense',
                                                                                 'make_sparse', 'delitem', 'approx_equal']
    if not case.get('scalar'):
        pool += ['marginal'] + (['condition_on'] if n >= 2 else [])
    steps = []
    for _ in range(rng.randint(2, 8)):
        name = rng.choice(pool)
        if name == 'setitem':
            steps.append([name, rng.choice(['stored', 'stored', 'any', 'new']), rng.randrange(64), rng.choice(HIST_VALUES)])
        elif name == 'delitem':
            steps.append([name, rng.choice(['stored', 'any', 'new']), rng.randrange(64)])
        elif name == 'set_base':
            steps.append([name, rng.choice(gen.BASES)])
        elif name in ('copy', 'from_distribution'):
            steps.append([name, rng.choice(gen.BASES + [None])])
        elif name == 'copypmf':
            steps.append([name, rng.choice(gen.BASES + [None]), rng.choice(['asis', 'dense', 'sparse'])])
        elif name == 'marginal':
            steps.append([name, [rng.randrange(n) for _ in range(rng.randint(1, n))]])
        elif name == 'condition_on':
            steps.append([name, rng.randrange(n)])
        else:
            steps.append([name])
    return steps


class RecordingPrng(object):
    """A random number generator in the sense of dit's `prng` arguments (an object with a `rand` method), which
    records the numbers it hands out."""

    def __init__(self, seed):
        self.rs = np.random.RandomState(seed)
        self.drawn = []

    def rand(self, *shape):
        v = self.rs.rand(*shape)
        self.drawn.extend(float(t) for t in np.atleast_1d(v).ravel())
        return v


def rngless(case):
    return len(case['xs']) % 2 == 0


def frac_prod(qs):
    out = Fraction(1)
    for q in qs:
        out *= q
    return out


def f2bits_list(a):
    return [f2bits(float(v)) for v in np.atleast_1d(a)]


PROP = C07()
