"""
C07 — Log and linear representations describe the same probability measure.
"""
import math
from fractions import Fraction

import numpy as np

import core
import gen
from canon import f2bits, bits2f
from env import import_dit

LOGBASES = [2, 'e', 10, 3.5, 0.5]


class C07(object):
    id = 'C07'
    rule = ("kinds: OPS - the real Operations objects of 5 log bases (2, e, 10, 3.5, 0.5) on arrays of probabilities with "
            "zeros, singletons and empty arrays: add, mult, invert, normalize, add_reduce, mult_reduce exponentiate to "
            "the linear arithmetic and agree with the model's formulas in Float; CHAIN - chains of 1..6 base conversions "
            "through set_base / copy(base=) round-trip; STRUCT - lookup, event_probability, validate, normalize, "
            "marginal, coalesce, condition_on, product, mixture, sampling of a log distribution exponentiate to the "
            "results on its linear copy; MEASURE - Shannon-type measures of a log distribution times log2(base) equal "
            "the linear values (perplexity base-free). Non-trivial = a distribution with >= 2 positive outcomes and a zero, "
            "or an array of >= 3 entries")
    tolerances = {'exponentiated values': 'rtol 1e-9 / atol 1e-12', 'measures': 'atol 1e-9'}
    exhaustive = {}

    def gen(self, rng, tier):
        n_cases = 300 if tier == 'quick' else 18000
        for _ in range(n_cases):
            kind = rng.choice(['ops', 'ops', 'chain', 'struct', 'struct', 'measure'])
            if kind == 'ops':
                k = rng.choice([0, 1, 2, 3, 5])
                style = rng.choice(['pmf', 'any'])
                xs = [rng.choice([0.0, 0.5, 0.25, 1.0, 1e-9, 0.3, 0.125, 2.0 if style == 'any' else 0.75]) for _ in range(k)]
                ys = [rng.choice([0.0, 0.5, 0.25, 1.0, 0.1]) for _ in range(k)]
                yield {'kind': 'ops', 'base': rng.choice(LOGBASES), 'xs': xs, 'ys': ys}
            else:
                c = gen.rand_dist_case(rng, nmin=1 if kind == 'chain' else 2, nmax=3, bases=LOGBASES, allow_names=False)
                if c.get('style') == 'near-degenerate':
                    # the null tolerance is representation dependent by design (|p| <= 1e-8 in linear, exact in
                    # log): keep probabilities away from it so that trimming agrees in both representations
                    k = len(c['pmf'])
                    eps = Fraction(1, 2 ** 20)
                    big = max(range(k), key=lambda i: Fraction(c['pmf'][i]))
                    c['pmf'] = [str(1 - (k - 1) * eps) if i == big else str(eps) for i in range(k)]
                c['kind'] = kind
                c['chain'] = [rng.choice(gen.BASES) for _ in range(rng.randint(1, 6))]
                c['seed'] = rng.randrange(2 ** 31)
                yield c

    def shrink(self, case):
        if case['kind'] == 'chain' and len(case['chain']) > 1:
            for i in range(len(case['chain'])):
                c = dict(case)
                c['chain'] = case['chain'][:i] + case['chain'][i + 1:]
                yield c

    # ------------------------------------------------------------------
    def run(self, case, drv):
        r = core.Result()
        kind = case['kind']
        r.site = 'C07.' + kind
        r.features = ['kind=%s' % kind, 'base=%s' % case['base']]
        try:
            getattr(self, 'run_' + kind)(case, drv, r)
        except core.DriverError:
            raise
        except Exception as e:  # noqa
            import traceback
            r.oracle_fail = '%s raised %s: %s' % (kind, type(e).__name__, str(e)[:160])
            r.detail = {'traceback': traceback.format_exc()[-700:]}
        return r

    def run_ops(self, case, drv, r):
        dit = import_dit()
        from dit.math import get_ops, LogOperations
        base = case['base']
        ops = LogOperations(base) if rngless(case) else get_ops(base)
        b = gen.base_num(base)
        xs, ys = case['xs'], case['ys']
        r.nontrivial = len(xs) >= 3
        with np.errstate(all='ignore'):
            lx = np.array([gen.log_of(Fraction(x), base) for x in xs], dtype=float)
            ly = np.array([gen.log_of(Fraction(y), base) for y in ys], dtype=float)
            ex = lambda v: np.array([gen.lin_of(t, base) for t in np.atleast_1d(v)])
            res = {}
            if len(xs):
                res['add'] = (ex(ops.add(lx, ly)), np.array(xs) + np.array(ys), ops.add(lx, ly))
                res['mult'] = (ex(ops.mult(lx, ly)), np.array(xs) * np.array(ys), ops.mult(lx, ly))
                pos = np.array([x for x in xs if x > 0])
                lpos = np.array([gen.log_of(Fraction(x), base) for x in pos])
                if len(pos):
                    res['invert'] = (ex(ops.invert(lpos)), 1 / pos, ops.invert(lpos))
                if sum(xs) > 0:
                    res['normalize'] = (ex(ops.normalize(lx.copy())), np.array(xs) / sum(xs), ops.normalize(lx.copy()))
                res['mult_reduce'] = (ex(ops.mult_reduce(lx)), np.array([np.prod(xs)]), ops.mult_reduce(lx))
            red = ops.add_reduce(lx)
            res['add_reduce'] = (ex(red), np.array([sum(xs)]), red)
        for name, (got, want, raw) in res.items():
            for g, w in zip(got, want):
                if not (abs(g - w) <= 1e-12 + 1e-9 * abs(w)):
                    r.oracle_fail = 'ops(%s).%s on %s, %s exponentiates to %r, linear arithmetic gives %r' % (base, name, xs, ys, list(got), list(want))
                    break
            if r.oracle_fail:
                break
        # correspondence with the model's formulas (finite entries only)
        if not r.oracle_fail and len(xs):
            finite = [i for i in range(len(xs)) if xs[i] > 0 and ys[i] > 0]
            fx = [f2bits(lx[i]) for i in finite]
            fy = [f2bits(ly[i]) for i in finite]
            if finite:
                for name in ('add', 'add_generic', 'mult'):
                    mo = [bits2f(v) for v in drv.call('opsf', [name, f2bits(b), fx, fy])]
                    raw = res['add' if name.startswith('add') else 'mult'][2]
                    for i, m in zip(finite, mo):
                        if not (abs(float(np.atleast_1d(raw)[i]) - m) <= 1e-9 * max(1.0, abs(m))):
                            r.mismatch = 'ops(%s).%s: impl %r model %r' % (base, name, float(np.atleast_1d(raw)[i]), m)
                if all(x > 0 for x in xs):
                    for name in ('add_reduce', 'normalize', 'mult_reduce'):
                        mo = [bits2f(v) for v in drv.call('opsf', [name, f2bits(b), [f2bits(v) for v in lx], []])]
                        raw = np.atleast_1d(res[name][2])
                        for g, m in zip(raw, mo):
                            if not (abs(float(g) - m) <= 1e-9 * max(1.0, abs(m))):
                                r.mismatch = 'ops(%s).%s: impl %r model %r' % (base, name, list(raw), mo)
        r.detail = {'xs': xs, 'ys': ys}

    def lin_table(self, d, klass, nested=False):
        base = d.get_base()
        conv = (lambda o: tuple(map(tuple, gen.from_py_nested(o, klass)))) if nested else (lambda o: tuple(gen.from_py(o, klass)))
        return {conv(o): gen.lin_of(d[o], base) for o in d.sample_space()}

    def run_chain(self, case, drv, r):
        klass = case['klass']
        d = gen.build(case)
        want = {tuple(o): float(Fraction(p)) for o, p in zip(case['outs'], case['pmf'])}
        r.nontrivial = len([p for p in want.values() if p > 0]) >= 2
        cur = d
        for i, b in enumerate(case['chain']):
            if i % 2 == 0:
                cur = cur.copy(base=b)
            else:
                cur.set_base(b)
            if cur.get_base() != b:
                r.oracle_fail = 'after converting to %r, get_base() is %r' % (b, cur.get_base())
                return
            tab = self.lin_table(cur, klass)
            for o, p in tab.items():
                w = want.get(o, 0.0)
                if not (abs(p - w) <= 1e-12 + 1e-9 * w):
                    r.oracle_fail = 'after the chain %s, P(%s) = %r, originally %r' % (case['chain'][:i + 1], list(o), p, w)
                    return
            try:
                cur.validate()
            except Exception as e:  # noqa
                r.oracle_fail = 'after the chain %s validate() raised %s' % (case['chain'][:i + 1], type(e).__name__)
                return
            # dit.copypmf: the pmf alone, re-expressed in any base, in the three storage modes
            dit = import_dit()
            b2 = gen.BASES[(case['seed'] + i) % len(gen.BASES)]
            for mode in ('asis', 'dense', 'sparse'):
                arr = dit.copypmf(cur, base=b2, mode=mode)
                if mode == 'asis':
                    outs_m = list(cur.outcomes)
                elif mode == 'dense':
                    outs_m = list(cur.sample_space())
                else:
                    outs_m = [o for o, p in zip(cur.outcomes, cur.pmf) if not cur.ops.is_null(p)]
                if len(arr) != len(outs_m):
                    r.oracle_fail = 'copypmf(mode=%s) has %d entries for %d outcomes' % (mode, len(arr), len(outs_m))
                    return
                for o, v in zip(outs_m, arr):
                    w = want.get(tuple(gen.from_py(o, klass)), 0.0)
                    pl = gen.lin_of(float(v), b2)
                    if not (abs(pl - w) <= 1e-12 + 1e-9 * w):
                        r.oracle_fail = ('copypmf(base=%r, mode=%s) of a base-%r distribution: P(%s) = %r, originally %r'
                                         % (b2, mode, cur.get_base(), list(gen.from_py(o, klass)), pl, w))
                        return
        # the source is untouched by copy(base=)
        if gen.obs_py(d, klass)['base'] != case['base']:
            r.oracle_fail = 'copy(base=) changed the source'

    def run_struct(self, case, drv, r):
        dit = import_dit()
        klass = case['klass']
        dl = gen.build(case)              # log distribution
        lin = dict(case)
        lin['base'] = 'linear'
        d0 = gen.build(lin)               # its linear twin
        base = case['base']
        n = case['n']
        rs = np.random.RandomState(case['seed'])
        r.nontrivial = len(dl.outcomes) >= 2
        pairs = []
        idx = sorted(rs.choice(n, size=rs.randint(1, n + 1), replace=False).tolist())
        pairs.append(('marginal%s' % idx, self.lin_table(dl.marginal(idx), klass), self.lin_table(d0.marginal(idx), klass)))
        g = [[int(rs.randint(n))], [int(rs.randint(n)), int(rs.randint(n))]]
        pairs.append(('coalesce%s' % g, self.lin_table(dl.coalesce(g), klass, True), self.lin_table(d0.coalesce(g), klass, True)))
        if n >= 2:
            c = [int(rs.randint(n))]
            m1, c1 = dl.condition_on(c)
            m2, c2 = d0.condition_on(c)
            pairs.append(('condition_on%s marginal' % c, self.lin_table(m1, klass), self.lin_table(m2, klass)))
            if len(c1) != len(c2):
                r.oracle_fail = 'condition_on: %d conditionals in base %s, %d in linear' % (len(c1), base, len(c2))
                return
            for i, (a, b) in enumerate(zip(c1, c2)):
                pairs.append(('condition_on%s conditional #%d' % (c, i), self.lin_table(a, klass), self.lin_table(b, klass)))
            pairs.append(('product_distribution', self.lin_table(dit.product_distribution(dl), klass),
                          self.lin_table(dit.product_distribution(d0), klass)))
        # a single variable as a ScalarDistribution (both extraction modes) keeps base and probabilities
        from dit.convert import DtoSD
        i0 = int(rs.randint(n))
        for extract in (True, False):
            sl, s0 = DtoSD(dl.marginal([i0]), extract), DtoSD(d0.marginal([i0]), extract)
            if sl.get_base() != base:
                r.oracle_fail = 'DtoSD(extract=%s) of a base-%s distribution has base %r' % (extract, base, sl.get_base())
                return
            ta = {repr(o): gen.lin_of(v, sl.get_base()) for o, v in zip(sl.outcomes, sl.pmf)}
            tb = {repr(o): float(v) for o, v in zip(s0.outcomes, s0.pmf)}
            for o in set(ta) | set(tb):
                if not (abs(ta.get(o, 0.0) - tb.get(o, 0.0)) <= 1e-12 + 1e-9 * tb.get(o, 0.0) or abs(tb.get(o, 0.0)) <= 1e-8):
                    r.oracle_fail = 'DtoSD(extract=%s): P(%s) = %r from the base-%s distribution, %r from its linear copy' % (
                        extract, o, ta.get(o, 0.0), base, tb.get(o, 0.0))
                    return
        # mixture with a second distribution on the same outcomes
        w = [0.25, 0.75]
        other = dict(case)
        other['pmf'] = case['pmf'][1:] + case['pmf'][:1]
        ol, o0 = gen.build(other), gen.build(dict(other, base='linear'))
        wl = [gen.log_of(Fraction(x), base) for x in w]
        pairs.append(('mixture_distribution', self.lin_table(dit.mixture_distribution([dl, ol], wl, merge=True), klass),
                      self.lin_table(dit.mixture_distribution([d0, o0], w, merge=True), klass)))
        for name, a, b in pairs:
            if set(a) != set(b):
                r.oracle_fail = '%s: sample spaces differ between base %s and linear' % (name, base)
                return
            for o in a:
                if not (abs(a[o] - b[o]) <= 1e-12 + 1e-9 * abs(b[o])):
                    if b[o] == 0.0 and abs(a[o]) <= 1e-8:
                        continue    # within the linear null tolerance: stored as absent by the linear copy
                    r.oracle_fail = '%s: P(%s) = %r from the base-%s distribution, %r from its linear copy' % (name, list(o), a[o], base, b[o])
                    return
        # event probability, normalisation, sampling
        ev = [o for i, o in enumerate(dl.sample_space()) if i % 2 == 0]
        e1 = gen.lin_of(dl.event_probability(ev), base)
        e2 = float(d0.event_probability(ev))
        if not (abs(e1 - e2) <= 1e-12 + 1e-9 * e2):
            r.oracle_fail = 'event_probability: %r (base %s) vs %r (linear)' % (e1, base, e2)
            return
        us = rs.rand(8)
        if [repr(x) for x in dl.rand(size=8, rand=us)] != [repr(x) for x in d0.rand(size=8, rand=us)] and not self.near_boundary(d0, us):
            r.oracle_fail = 'sampling with the same random numbers differs between base %s and linear' % base
            return
        cl, c0 = dl.copy(), d0.copy()
        o = dl.outcomes[0]
        cl[o] = gen.log_of(Fraction(3, 4), base)
        c0[o] = 0.75
        zl, z0 = gen.lin_of(cl.normalize(), base), float(c0.normalize())
        if not (abs(zl - z0) <= 1e-9 * z0):
            r.oracle_fail = 'normalize returned %r (base %s) vs %r (linear)' % (zl, base, z0)
            return
        a, b = self.lin_table(cl, klass), self.lin_table(c0, klass)
        for k in a:
            if not (abs(a[k] - b[k]) <= 1e-12 + 1e-9 * abs(b[k])):
                r.oracle_fail = 'after normalize: P(%s) = %r (base %s) vs %r (linear)' % (list(k), a[k], base, b[k])
                return

    @staticmethod
    def near_boundary(d0, us):
        cum = np.cumsum(d0.pmf)
        return any(np.min(np.abs(cum - u)) < 1e-9 for u in us)

    def run_measure(self, case, drv, r):
        dit = import_dit()
        import dit.multivariate as mv
        from dit.shannon import entropy, conditional_entropy, mutual_information
        from dit.other import extropy, perplexity
        dl = gen.build(case)
        d0 = gen.build(dict(case, base='linear'))
        base = case['base']
        n = case['n']
        k = math.log2(gen.base_num(base))
        r.nontrivial = len(dl.outcomes) >= 2
        groups = [[i] for i in range(n)]
        X, Y = [0], [n - 1]
        fns = [('entropy', lambda d: entropy(d)), ('entropy[0]', lambda d: entropy(d, [0])),
               ('conditional_entropy', lambda d: conditional_entropy(d, X, Y)),
               ('mutual_information', lambda d: mutual_information(d, X, Y)),
               ('coinformation', lambda d: mv.coinformation(d, groups)),
               ('total_correlation', lambda d: mv.total_correlation(d, groups)),
               ('dual_total_correlation', lambda d: mv.dual_total_correlation(d, groups)),
               ('caekl_mutual_information', lambda d: mv.caekl_mutual_information(d, groups)),
               ('o_information', lambda d: mv.o_information(d, groups)),
               ('tse_complexity', lambda d: mv.tse_complexity(d, groups)),
               ('interaction_information', lambda d: mv.interaction_information(d, groups)),
               ('multivariate.entropy', lambda d: mv.entropy(d, [[0]], [n - 1])),
               ('extropy', lambda d: extropy(d))]
        for name, f in fns:
            try:
                a, b = float(f(dl)), float(f(d0))
            except Exception as e:  # noqa
                r.oracle_fail = '%s raised %s: %s on a base-%s distribution' % (name, type(e).__name__, str(e)[:100], base)
                return
            if not (abs(a * k - b) <= 1e-9):
                r.oracle_fail = '%s: %r in base %s (x log2(base) = %r) but %r bits on the linear copy' % (name, a, base, a * k, b)
                return
        pa, pb = float(perplexity(dl)), float(perplexity(d0))
        if not (abs(pa - pb) <= 1e-9 * pb):
            r.oracle_fail = 'perplexity: %r (base %s) vs %r (linear)' % (pa, base, pb)
            return
        # the same measures on scalar distributions
        s0 = dit.ScalarDistribution(list(range(len(d0.pmf))), [float(v) for v in d0.pmf], trim=False)
        sl = s0.copy(base=base)
        for name, f in (('entropy(scalar)', entropy), ('extropy(scalar)', extropy)):
            a, b = float(f(sl)), float(f(s0))
            if not (abs(a * k - b) <= 1e-9):
                r.oracle_fail = '%s: %r in base %s (x log2(base) = %r) but %r bits on the linear copy' % (name, a, base, a * k, b)
                return
        pa, pb = float(perplexity(sl)), float(perplexity(s0))
        if not (abs(pa - pb) <= 1e-9 * pb):
            r.oracle_fail = 'perplexity(scalar): %r (base %s) vs %r (linear)' % (pa, base, pb)


def rngless(case):
    return len(case['xs']) % 2 == 0


PROP = C07()
