"""
C01 — Construction yields exactly the specified probability table, or is rejected.
"""
import math
from fractions import Fraction

import numpy as np

import core
import gen
from canon import exc_enum
from driver import q
from env import import_dit

MALFORMED = ['unnormalised', 'out-of-range', 'length-mismatch', 'ragged', 'outsider', 'invalid-base',
             'empty-no-space', 'dict-and-pmf', 'all-null-trimmed']


class C01(object):
    id = 'C01'
    rule = ("valid specifications: outcome classes str/tuple(+strings), 1-4 variables, homogeneous or heterogeneous "
            "alphabets, any support with explicit zeros / near-null 5e-9 values / near-degenerate 1-2^-40, forms "
            "sequence / dict / ndarray / ScalarDistribution (sequence, dict, pmf-only), sample space none / list in "
            "arbitrary order / SampleSpace / CartesianProduct, 6 bases, sparse x trim; plus a malformed stream with one "
            "fault each (%s). Non-trivial = at least two stored outcomes and (an explicit zero or a custom space or a "
            "log base or a rejection)") % ', '.join(MALFORMED)
    tolerances = {'read-back of specified values': 'bit-exact (the float handed to the constructor)',
                  'model values': 'exact for linear bases; log bases compared through b**v with rtol 1e-9'}
    exhaustive = {}

    # ------------------------------------------------------------------ generation
    def gen(self, rng, tier):
        n_valid, n_bad = (260, 70) if tier == 'quick' else (72000, 15000)
        if tier == 'thorough':
            for c in self.exhaustive_small():
                yield c
        for _ in range(n_valid):
            c = gen.rand_dist_case(rng, nmin=1, nmax=4)
            self.decorate(c, rng)
            yield c
        for _ in range(n_bad):
            c = gen.rand_dist_case(rng, nmin=1, nmax=3)
            self.decorate(c, rng)
            self.break_it(c, rng)
            yield c

    def decorate(self, c, rng):
        # near-null values and explicit zeros
        pmf = [Fraction(p) for p in c['pmf']]
        if len(pmf) >= 2 and rng.random() < 0.3:
            eps = rng.choice([Fraction(5, 10 ** 9), Fraction(2, 10 ** 8), Fraction(0)])
            i, j = rng.sample(range(len(pmf)), 2)
            if pmf[j] > eps:
                pmf[j] = pmf[j] + pmf[i] - eps
                pmf[i] = eps
                c['pmf'] = [str(p) for p in pmf]
                c['style'] = 'near-null' if eps else 'explicit-zero'
        forms = ['seq', 'seq', 'dict']
        if c['n'] == 1 and c['space'] is None or (c['n'] == 1 and c['space'] and c['space'][0] in ('list',)):
            forms += ['scalar-seq', 'scalar-dict', 'scalar-pmf']
        if c['space'] is None and c['klass'] == 'tuple':
            forms.append('ndarray')
        c['form'] = rng.choice(forms)
        if c['form'] == 'ndarray':
            # the table is the whole array: outcomes are the index tuples
            shape = [rng.randint(1, 3) for _ in range(c['n'])]
            if all(s == 1 for s in shape):
                shape[0] = 2
            outs = [[]]
            for s in shape:
                outs = [o + [i] for o in outs for i in range(s)]
            pv, _ = gen.rand_prob_vector(rng, len(outs))
            c.update({'outs': outs, 'pmf': [str(p) for p in pv], 'alphabets': [list(range(s)) for s in shape],
                      'sparse': True, 'trim': True, 'names': None})
        if c['form'] == 'scalar-pmf':
            k = len(c['outs'])
            c.update({'klass': 'tuple', 'outs': [[i] for i in range(k)], 'space': None, 'alphabets': [list(range(k))]})
        if c['form'].startswith('scalar'):
            c['names'] = None
        c['bad'] = None

    def break_it(self, c, rng):
        kind = rng.choice(MALFORMED)
        pmf = [Fraction(p) for p in c['pmf']]
        if kind == 'unnormalised':
            delta = rng.choice([Fraction(1, 1000), Fraction(1, 10), Fraction(-1, 10)])
            i = max(range(len(pmf)), key=lambda j: pmf[j])
            pmf[i] += delta
            if c['base'] != 'linear' and pmf[i] <= 0:
                pmf[i] += Fraction(1, 5)
        elif kind == 'out-of-range':
            if c['base'] != 'linear' or len(pmf) < 2:
                kind = 'unnormalised'
                pmf[0] += Fraction(1, 10)
            else:
                pmf[0] += Fraction(3, 2)
                pmf[1] -= Fraction(3, 2)
        elif kind == 'length-mismatch':
            pass
        elif kind == 'ragged':
            if c['n'] < 2 or len(c['outs']) < 2 or c['form'] not in ('seq', 'dict') or c['space'] is not None:
                kind = 'length-mismatch'
        elif kind == 'outsider':
            if c['space'] is None or c['form'] not in ('seq', 'dict'):
                kind = 'length-mismatch'
            else:
                sp = c['space']
                if sp[0] == 'cart':
                    c['space'] = ['cart', [a for a in sp[1]]]
                    # an outcome using a symbol outside the first alphabet
                    missing = [s for s in range(8) if s not in sp[1][0]]
                    bad = [missing[0]] + c['outs'][0][1:]
                else:
                    members = [o for o in sp[1] if o != c['outs'][0]]
                    if not members:
                        members = [[(s + 1) % 8 for s in c['outs'][0]]]
                    c['space'] = [sp[0], members]
                    bad = c['outs'][0]
                c['outs'] = [bad] + c['outs'][1:]
        elif kind == 'invalid-base':
            c['badbase'] = rng.choice([1, 0, -2, 'foo'])
        elif kind == 'empty-no-space':
            c['outs'], pmf, c['space'] = [], [], None
            c['form'] = 'seq' if not c['form'].startswith('scalar') else 'scalar-seq'
        elif kind == 'dict-and-pmf':
            c['form'] = 'dict' if not c['form'].startswith('scalar') else 'scalar-dict'
        elif kind == 'all-null-trimmed':
            c['base'] = 'linear'
            pmf = [Fraction(5, 10 ** 9)] + [Fraction(0)] * (len(pmf) - 1)
            c['sparse'], c['trim'] = True, True
        if kind == 'length-mismatch':
            c['form'] = 'scalar-seq' if c['form'].startswith('scalar') else 'seq'
        if c['form'] in ('ndarray', 'scalar-pmf') and kind not in ('unnormalised', 'out-of-range', 'invalid-base'):
            c['form'] = 'seq' if c['form'] == 'ndarray' else 'scalar-seq'
        c['pmf'] = [str(p) for p in pmf]
        c['bad'] = kind

    def exhaustive_small(self):
        """All supports, zero patterns, flags and two classes for <= 2 binary variables."""
        import itertools
        for klass in ('str', 'tuple'):
            for n in (1, 2):
                full = [list(o) for o in itertools.product([0, 1], repeat=n)]
                for r in range(1, len(full) + 1):
                    for support in itertools.combinations(full, r):
                        for zmask in itertools.product([0, 1], repeat=r):
                            if all(zmask):
                                continue
                            k = r - sum(zmask)
                            pmf = [Fraction(0) if z else Fraction(1, k) for z in zmask]
                            for sparse in (True, False):
                                for trim in (True, False):
                                    yield {'klass': klass, 'n': n, 'alphabets': [[0, 1]] * n,
                                           'outs': [list(o) for o in support], 'pmf': [str(p) for p in pmf],
                                           'space': None, 'base': 'linear', 'sparse': sparse, 'trim': trim,
                                           'names': None, 'style': 'exhaustive', 'spacekind': 'none',
                                           'form': 'seq', 'bad': None}

    def shrink(self, case):
        outs, pmf = case['outs'], [Fraction(p) for p in case['pmf']]
        if len(outs) > 1 and not case.get('bad') and case['form'] not in ('ndarray', 'scalar-pmf'):   # those forms list every cell
            for i in range(len(outs)):
                rest = [p for j, p in enumerate(pmf) if j != i]
                tot = sum(rest)
                if tot <= 0:
                    continue
                c = dict(case)
                c['outs'] = [o for j, o in enumerate(outs) if j != i]
                c['pmf'] = [str(p / tot) for p in rest]
                yield c
        for key, val in (('base', 'linear'), ('space', None), ('sparse', True), ('trim', True), ('form', 'seq')):
            if case.get(key) != val and not (key == 'form' and case['form'] in ('ndarray', 'scalar-pmf')):
                c = dict(case)
                c[key] = val
                yield c

    # ------------------------------------------------------------------ execution
    def construct_py(self, case):
        dit = import_dit()
        klass = case['klass']
        form = case['form']
        base = case.get('badbase', case['base'])
        fbase = case['base']
        outs = [gen.to_py(o, klass) for o in case['outs']]
        vals = [gen.log_of(Fraction(p), fbase) for p in case['pmf']]
        if case.get('bad') == 'length-mismatch':
            vals = vals + [vals[-1]] if vals else [0.5]
        if case.get('bad') == 'ragged':
            outs = [outs[0][:-1]] + outs[1:]
        kw = dict(base=base, sparse=case['sparse'], trim=case['trim'])
        scalar = form.startswith('scalar')
        if scalar:
            souts = [o[0] for o in outs]
            sp = case.get('space')
            if sp is not None:
                kw['sample_space'] = [gen.to_py(o, klass)[0] for o in sp[1]]
            if form == 'scalar-pmf':
                d = dit.ScalarDistribution(vals, **kw)
            elif form == 'scalar-dict':
                if case.get('bad') == 'dict-and-pmf':
                    d = dit.ScalarDistribution(dict(zip(souts, vals)), vals, **kw)
                else:
                    d = dit.ScalarDistribution(dict(zip(souts, vals)), **kw)
            else:
                d = dit.ScalarDistribution(souts, vals, **kw)
            return d, vals
        kw['sample_space'] = gen.space_arg(case)
        if form == 'ndarray':
            shape = [len(a) for a in case['alphabets']]
            arr = np.array(vals, dtype=float).reshape(shape)
            d = dit.Distribution.from_ndarray(arr, base=base)
        elif form == 'dict':
            if case.get('bad') == 'dict-and-pmf':
                d = dit.Distribution(dict(zip(outs, vals)), vals, **kw)
            else:
                d = dit.Distribution(dict(zip(outs, vals)), **kw)
        else:
            d = dit.Distribution(outs, vals, **kw)
        return d, vals

    def obs_scalar(self, d, klass):
        u = gen.UNIVERSE[klass]
        inv = {s: i for i, s in enumerate(u)}
        conv = lambda s: [inv[s]]
        space = [conv(o) for o in d.sample_space()]
        return {'space': space, 'alphabets': [sorted(inv[s] for s in d.alphabet)],
                'tab': [[conv(o), float(v)] for o, v in zip(d.outcomes, d.pmf)], 'sparse': bool(d.is_sparse()),
                'base': d.get_base(), 'lookups': [float(d[o]) for o in d.sample_space()], 'len': len(d),
                'outcome_length': 1}

    def run(self, case, drv):
        dit = import_dit()
        r = core.Result()
        r.site = 'Distribution.__init__' if not case['form'].startswith('scalar') else 'ScalarDistribution.__init__'
        klass = case['klass']
        bad = case.get('bad')
        r.features = gen.case_features(case) + ['form=%s' % case['form'], 'bad=%s' % bad]
        scalar = case['form'].startswith('scalar')
        base = case['base']

        # ---------------- implementation
        d, err, vals = None, None, None
        try:
            d, vals = self.construct_py(case)
        except Exception as e:  # noqa
            err = e
        r.nontrivial = len(case['outs']) >= 2 and (bad is not None or base != 'linear' or case['space'] is not None
                                                    or any(Fraction(p) == 0 for p in case['pmf']))

        # ---------------- model
        if bad in ('invalid-base', 'dict-and-pmf'):
            mo = None     # not part of the model: decided by the oracle alone
        else:
            args = gen.model_construct_args(case)
            if case['form'] in ('scalar-seq', 'scalar-dict'):
                # scalar sample spaces are sorted lists of the outcomes / of the given space
                sp = case.get('space')
                args[2] = ['ss', sp[1] if sp else case['outs']]
                if bad == 'empty-no-space':
                    args[2] = None
            elif case['form'] == 'scalar-pmf':
                args[2] = ['list', case['outs']]
            if bad == 'length-mismatch':
                args[1] = args[1] + [args[1][-1]] if args[1] else [q(Fraction(1, 2))]
            if bad == 'ragged':
                args[0] = [args[0][0][:-1]] + args[0][1:]
            mo = drv.call('construct', args)

        # ---------------- rejection path
        if err is not None:
            en = exc_enum(err)
            try:
                msg = str(err)
                rep = repr(err)
                printable = isinstance(msg, str) and isinstance(rep, str)
            except Exception as e2:  # noqa
                printable = False
                msg = 'str() raised %s' % type(e2).__name__
            r.detail = {'impl': 'raised ' + en, 'message': msg[:200], 'model': mo if mo is None else mo[:2]}
            if bad is None:
                r.oracle_fail = 'a valid specification was rejected with %s: %s' % (en, msg[:160])
            elif not isinstance(err, dit.exceptions.ditException):
                r.oracle_fail = 'malformed specification (%s) raised %s, not a dit exception' % (bad, type(err).__name__)
            elif not printable:
                r.oracle_fail = 'the message of %s cannot be printed (%s)' % (en, msg)
            else:
                want = {'unnormalised': 'InvalidNormalization', 'out-of-range': 'InvalidProbability',
                        'length-mismatch': 'InvalidDistribution', 'outsider': 'InvalidOutcome',
                        'invalid-base': 'InvalidBase', 'empty-no-space': 'InvalidDistribution',
                        'all-null-trimmed': 'InvalidNormalization'}.get(bad)
                if want and en != want:
                    r.oracle_fail = 'malformed specification (%s) raised %s; documented: %s' % (bad, en, want)
            if mo is not None and not r.oracle_fail:
                if mo[0] != 'err':
                    r.mismatch = 'implementation rejects (%s) but the model accepts' % en
                elif mo[1] != en:
                    r.mismatch = 'exception kind: impl %s model %s' % (en, mo[1])
            return r

        # ---------------- accepted
        if bad is not None:
            r.oracle_fail = 'a malformed specification (%s) was accepted' % bad
            r.detail = {'impl': 'accepted'}
            return r
        py = self.obs_scalar(d, klass) if scalar else gen.obs_py(d, klass)
        exact = base == 'linear'
        if mo[0] != 'ok':
            r.mismatch = 'model rejects (%s) but the implementation accepts' % mo[1]
        else:
            diff = gen.compare_obs(py, gen.obs_model(mo[1]), exact=exact)
            if diff:
                r.mismatch = diff
        r.detail = {'impl': py, 'model': mo[1] if mo[0] == 'ok' else mo}

        # ---------------- oracle: the statement on the real object
        fails = None
        spec = {}
        for o, v, p in zip(case['outs'], vals, case['pmf']):
            spec[tuple(o)] = (v, Fraction(p))
        space = [tuple(o) for o in py['space']]
        look = dict(zip(space, py['lookups']))
        zero = d.ops.zero
        for o, (v, p) in spec.items():
            got = look.get(o)
            if got is None:
                fails = 'specified outcome %s is not in the sample space' % (list(o),)
                break
            same = (got == v) or (math.isnan(got) and math.isnan(v))
            if not same:
                nullish = (base == 'linear' and abs(v) <= 1e-8) or (base != 'linear' and v == zero)
                if not (case['trim'] and case['sparse'] and nullish and got == zero):
                    fails = 'lookup of specified outcome %s returns %r, specified %r' % (list(o), got, v)
                    break
        if not fails:
            for o in space:
                if o not in spec and look[o] != zero:
                    fails = 'unspecified member %s of the sample space reads %r, not the null probability' % (list(o), look[o])
                    break
        if not fails:
            # outsiders
            u = gen.UNIVERSE[klass]
            outsiders = []
            n = case['n']
            outsiders.append(tuple([9] * n))
            outsiders.append(tuple([9] * (n + 1)))
            if space and not scalar:
                # wrong length, every symbol a valid one: a prefix of a member, a member extended by its last symbol
                m0 = tuple(space[0])
                outsiders += [m0[:-1], m0 + m0[-1:], m0 + m0]
            for cand in outsiders:
                if cand in set(space):
                    continue
                po = gen.to_py(list(cand), klass)
                if scalar:
                    if len(cand) != 1:
                        continue
                    po = po[0]
                try:
                    d[po]
                    fails = 'lookup of outsider %r did not raise' % (po,)
                except dit.exceptions.InvalidOutcome:
                    pass
                except Exception as e:  # noqa
                    fails = 'lookup of outsider %r raised %s instead of InvalidOutcome' % (po, type(e).__name__)
                if fails:
                    break
            if not fails and not scalar:
                try:
                    d[99]
                    fails = 'lookup of outsider 99 did not raise'
                except dit.exceptions.InvalidOutcome:
                    pass
                except Exception as e:  # noqa
                    fails = 'lookup of outsider 99 raised %s instead of InvalidOutcome' % type(e).__name__
        if not fails:
            keys = [tuple(o) for o, _ in py['tab']]
            order = {o: i for i, o in enumerate(space)}
            ranks = [order.get(k, -1) for k in keys]
            if -1 in ranks or ranks != sorted(ranks) or len(set(ranks)) != len(ranks):
                fails = 'stored outcomes are not duplicate-free and ordered like the sample space'
            elif len(d.outcomes) != len(d.pmf) or len(d) != len(d.outcomes):
                fails = 'outcomes and pmf are not aligned'
            elif not case['sparse'] and keys != space:
                fails = 'dense distribution does not hold every member of the sample space'
            elif case['sparse'] and case['trim'] and any(np.isclose(v, zero) for _, v in py['tab']):
                fails = 'sparse trimmed distribution stores a null outcome'
            elif bool(d.is_sparse()) != case['sparse']:
                fails = 'is_sparse() is %s' % d.is_sparse()
            elif d.get_base() != base:
                fails = 'get_base() is %r, specified %r' % (d.get_base(), base)
            elif any((tuple(o) in d) != (tuple(o) in set(keys)) for o in space) and False:
                fails = 'membership disagrees with stored outcomes'
        if not fails:
            n = case['n']
            symbols = [sorted(set(o[i] for o in space)) for i in range(n)] if space else []
            if [sorted(a) for a in py['alphabets']] != symbols:
                if not (py['space'] and isinstance(d._sample_space, dit.samplespace.CartesianProduct)
                        and [sorted(a) for a in py['alphabets']] == symbols):
                    fails = 'alphabets %s are not the symbols of the sample space %s' % (py['alphabets'], symbols)
            elif py['outcome_length'] != (1 if scalar else n):
                fails = 'outcome_length() = %s' % py['outcome_length']
        r.oracle_fail = fails
        return r


PROP = C01()
