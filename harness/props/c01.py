"""
C01 — Construction yields exactly the specified probability table, or is rejected.
"""
import math
import os
import pickle
import traceback
import warnings
from fractions import Fraction

import numpy as np

import core
import covtrace
import gen
from canon import exc_enum
from driver import q, DriverError
from env import import_dit

MALFORMED = ['unnormalised', 'out-of-range', 'length-mismatch', 'ragged', 'outsider', 'invalid-base',
             'empty-no-space', 'dict-and-pmf', 'all-null-trimmed']


class C01(object):
    id = 'C01'
    rule = ("valid specifications: outcome classes str/tuple(+strings), 1-4 variables, homogeneous or heterogeneous "
            "alphabets, any support with explicit zeros / near-null 5e-9 values / near-degenerate 1-2^-40, forms "
            "sequence / dict / ndarray / ScalarDistribution (sequence, dict, pmf-only), sample space none / list in "
            "arbitrary order / SampleSpace / CartesianProduct, 6 bases, sparse x trim; plus a malformed stream with one "
            "fault each (%s). Non-trivial = at least two stored outcomes and (an explicit zero or a custom space or a "
            "log base or a rejection). Sample-space objects (SampleSpace / CartesianProduct, also "
            "CartesianProduct.from_outcomes) come with members / alphabets in arbitrary order and with a history of "
            "public use before the constructor receives them (index, membership, iteration, len, sort, an earlier "
            "construction with or without sorting); a case may be followed by a second construction on the very same "
            "sample-space argument with the specification reversed; a case may carry a process history: public calls "
            "on unrelated distributions (base conversions in place / by copy / from_distribution, make_dense, "
            "make_sparse, item assignment, validate, printing) executed before the construction or between the "
            "construction and its observation (such cases run in a forked child so that the history is exactly what "
            "the case says); a further stream feeds the remaining legal argument shapes: the base left out (absent or "
            "None: linear when the values are a linear pmf, else ditParams['base']) for valid tables and for "
            "unnormalised / out-of-range ones, ScalarDistribution with a ScalarSampleSpace object in arbitrary order "
            "(also constructed twice on the same object), the pmf-only form with a supplied sample space (list or "
            "object, a superset of 0..k-1 in arbitrary order), and specifications with up to three "
            "outcomes (two or more whenever the table has them) outside the supplied space (joint list / SampleSpace / "
            "CartesianProduct, scalar list / object, pmf-only). On every accepted object has_outcome(o), has_outcome(o, null=False) and `o in d` are read for "
            "every member of the sample space and for outsiders") % ', '.join(MALFORMED)
    tolerances = {'read-back of specified values': 'bit-exact (the float handed to the constructor)',
                  'model values': 'exact for linear bases; log bases compared through b**v with rtol 1e-9',
                  'base left out, malformed linear table': 'read as log values in ditParams[base]: a fault of that reading '
                                                           '(total off 1, value above 1) is certain beyond 1e-3, allowed '
                                                           'beyond 1e-9; the rejection must name an allowed kind',
                  'has_outcome(o, null=False)': 'equals "lookup is not exactly the null probability"; not judged for '
                                                'linear values in (0, 1e-8]'}
    exhaustive = {}

    # ------------------------------------------------------------------ generation
    def gen(self, rng, tier):
        n_valid, n_bad, n_obj = (260, 70, 300) if tier == 'quick' else (72000, 15000, 24000)
        n_gap = 260 if tier == 'quick' else 16000
        if tier == 'thorough':
            for c in self.exhaustive_small():
                yield c
        for _ in range(n_valid):
            c = gen.rand_dist_case(rng, nmin=1, nmax=4)
            self.decorate(c, rng)
            self.add_history(c, rng)
            yield c
        for _ in range(n_bad):
            c = gen.rand_dist_case(rng, nmin=1, nmax=3)
            self.decorate(c, rng)
            self.break_it(c, rng)
            self.add_history(c, rng)
            yield c
        # a stream in which the sample space is always an *object* (they are what the constructor mutates: it sorts
        # them in place), in arbitrary order and with a history of use
        for _ in range(n_obj):
            c = gen.rand_dist_case(rng, nmin=1, nmax=4)
            self.object_space(c, rng)
            self.decorate(c, rng)
            self.add_history(c, rng, p_hist=0.8)
            yield c
        # legal argument shapes the streams above never produce (kept last: the streams above draw exactly the cases
        # they drew before this one existed)
        for _ in range(n_gap):
            yield self.gap_case(rng)

    # ---- argument shapes of the last stream
    GAP_KINDS = ['omit-base', 'omit-base', 'omit-base-bad', 'scalar-object', 'scalar-object', 'scalar-pmf-space',
                 'scalar-pmf-space', 'outsiders', 'outsiders', 'outsiders-scalar', 'outsiders-pmf']

    def scalar_case(self, rng, min_support=1):
        """A valid ScalarDistribution specification (sequence or dict form) with a supplied sample space: the outcomes and
        possibly further members, in arbitrary order, handed over as a list or as a ScalarSampleSpace object."""
        while True:
            c = gen.rand_dist_case(rng, nmin=1, nmax=1, allow_space=False, allow_names=False)
            if len(c['outs']) >= min_support:
                break
        self.decorate(c, rng)
        if c['form'] == 'ndarray':          # decorate rewrote the table as the cells of an array: still a valid table
            c['sparse'], c['trim'] = rng.random() < 0.6, rng.random() < 0.6
        c['form'] = rng.choice(['scalar-seq', 'scalar-dict'])
        c['names'] = None
        extra = [[s] for s in range(8) if [s] not in c['outs']]
        rng.shuffle(extra)
        members = c['outs'] + extra[:rng.randint(0, 3)]
        rng.shuffle(members)
        c['space'], c['spacekind'] = ['list', members], 'list'
        c['scalar_space'] = rng.choice(['object', 'object', 'list'])
        return c

    def pmf_space_case(self, rng):
        """The pmf-only form of ScalarDistribution (outcomes 0..k-1) with a supplied sample space: a superset of 0..k-1
        in arbitrary order.  (Spaces listing 0..k-1 out of increasing order used to fail - ScalarDistribution([.25, .75],
        sample_space=[1, 0]) stored (0, 1) against the space (1, 0) - and were excluded until the repair 4245868.)"""
        k = rng.randint(1, 5)
        pv, style = gen.rand_prob_vector(rng, k)
        members = [[i] for i in range(k)] + [[s] for s in rng.sample(range(k, 10), rng.randint(0, 3))]
        rng.shuffle(members)
        return {'klass': 'tuple', 'n': 1, 'alphabets': [list(range(k))], 'outs': [[i] for i in range(k)],
                'pmf': [str(p) for p in pv], 'space': ['list', members], 'base': rng.choice(gen.BASES),
                'sparse': rng.random() < 0.6, 'trim': rng.random() < 0.6, 'names': None, 'style': style,
                'spacekind': 'list', 'form': 'scalar-pmf', 'bad': None,
                'scalar_space': rng.choice(['object', 'list'])}

    def break_outsiders(self, c, rng):
        """Put as many specified outcomes as possible (up to three, at least one) outside the supplied sample space."""
        sp, outs = c['space'], c['outs']
        m = min(len(outs), rng.choice([2, 2, 3]))
        if sp[0] == 'cart':
            missing = [s for s in range(8) if s not in sp[1][0]]
            c['outs'] = [[missing[j % len(missing)]] + outs[j][1:] for j in range(m)] + outs[m:]
        else:
            gone = outs[:m]
            members = [o for o in sp[1] if o not in gone]
            if not members:
                members = [[(s + 1) % 8 for s in outs[0]]]
            c['space'] = [sp[0], members]
        c['bad'] = 'outsider'
        return m

    def gap_case(self, rng):
        kind = rng.choice(self.GAP_KINDS)
        if kind in ('omit-base', 'omit-base-bad'):
            # `base` left out: "linear" when the values are a linear pmf, else ditParams['base'] (2 unless reconfigured)
            c = gen.rand_dist_case(rng, nmin=1, nmax=3, bases=['linear', 2])
            self.decorate(c, rng)
            if kind == 'omit-base-bad':
                if c['form'] == 'ndarray':
                    # from_ndarray documents "None: assumed linear", the constructor it calls "None: ditParams['base']
                    # unless a linear pmf": for a malformed array the two texts name different exceptions; not judged
                    c['form'] = 'seq'
                self.break_it(c, rng, kind=rng.choice(['unnormalised', 'out-of-range', 'out-of-range']))
            elif c['form'] == 'ndarray':
                c['base'] = 'linear'
            c['omit_base'] = rng.choice(['absent', 'none'])
        elif kind == 'scalar-object':
            c = self.scalar_case(rng)
            c['scalar_space'] = 'object'
        elif kind == 'scalar-pmf-space':
            c = self.pmf_space_case(rng)
        elif kind == 'outsiders':
            for _ in range(200):
                c = gen.rand_dist_case(rng, nmin=1, nmax=3)
                self.decorate(c, rng)
                if c['space'] is not None and len(c['outs']) >= 2 and c['form'] in ('seq', 'dict'):
                    break
            else:
                c['form'], c['space'], c['spacekind'] = 'seq', ['list', [list(o) for o in c['outs']]], 'list'
            self.break_outsiders(c, rng)
        elif kind == 'outsiders-scalar':
            c = self.scalar_case(rng, min_support=2)
            self.break_outsiders(c, rng)
        else:
            # pmf-only form, any flags, outsiders of any probability.  (Used to fail and was excluded until the repair
            # 4245868: dense -> InvalidNormalization or acceptance, sparse + trim -> a null outsider was accepted.)
            c = self.pmf_space_case(rng)
            self.break_outsiders(c, rng)
        self.add_history(c, rng, p_hist=0.3, p_prelude=0.08)
        if kind == 'scalar-object' and rng.random() < 0.5:
            c['rebuild'] = True
        c['gap'] = kind
        return c

    # ---- sample-space objects in arbitrary order
    @staticmethod
    def first_appearance(outs):
        """Per-position symbols of `outs` in order of first appearance (what CartesianProduct.from_outcomes is given)."""
        n = len(outs[0])
        alph = [[] for _ in range(n)]
        for o in outs:
            for i, s in enumerate(o):
                if s not in alph[i]:
                    alph[i].append(s)
        return alph

    def object_space(self, c, rng):
        """Force the sample space of a freshly generated valid case to be an object: a CartesianProduct whose alphabets
        are in arbitrary order (built directly or by from_outcomes), or a SampleSpace with shuffled members."""
        kind = rng.choice(['cart', 'cart', 'cart-fo', 'ss'])
        c['spacevia'] = None
        if kind == 'cart':
            big = [sorted(set(a) | set(rng.sample(range(6), rng.randint(0, 1)))) for a in c['alphabets']]
            if rng.random() < 0.8:
                for a in big:
                    rng.shuffle(a)
            c['space'] = ['cart', big]
            c['spacekind'] = 'cart'
        elif kind == 'cart-fo':
            c['space'] = ['cart', self.first_appearance(c['outs'])]
            c['spacekind'] = 'cart'
            c['spacevia'] = 'from_outcomes'
        else:
            full = [[]]
            for a in c['alphabets']:
                full = [o + [s] for o in full for s in a]
            extra = [o for o in full if o not in c['outs']]
            rng.shuffle(extra)
            members = c['outs'] + extra[:rng.randint(0, len(extra))]
            rng.shuffle(members)
            c['space'] = ['ss', members]
            c['spacekind'] = 'ss'

    HIST_OPS = ['index', 'index', 'contains', 'iter', 'len', 'sort', 'build', 'build-nosort']
    CONV_OPS = ['set_base', 'copy', 'from_distribution']
    PLAIN_OPS = ['make_dense', 'make_sparse', 'setitem', 'validate', 'str']

    def add_history(self, c, rng, p_hist=0.5, p_prelude=0.3):
        """History of the sample-space object, a second construction on the same argument, and a process history."""
        c.setdefault('spacevia', None)
        c['history'], c['rebuild'], c['prelude'], c['prelude_when'] = [], False, [], 'before'
        joint = not c['form'].startswith('scalar')
        sp = c.get('space')
        if joint and sp is not None and sp[0] == 'cart' and c['form'] in ('seq', 'dict') and rng.random() < 0.3 \
                and c.get('bad') != 'outsider':
            # the generic stream lists Cartesian alphabets in increasing order: any order is a valid argument
            sp = ['cart', [list(a) for a in sp[1]]]
            for a in sp[1]:
                rng.shuffle(a)
            c['space'] = sp
        if joint and sp is not None and sp[0] in ('ss', 'cart') and c['form'] in ('seq', 'dict') and rng.random() < p_hist:
            for _ in range(rng.randint(1, 3)):
                op = rng.choice(self.HIST_OPS)
                if op in ('index', 'contains'):
                    c['history'].append([op, rng.randrange(64)])
                elif op in ('build', 'build-nosort'):
                    c['history'].append([op, rng.random() < 0.6])
                else:
                    c['history'].append([op])
        if joint and c['form'] in ('seq', 'dict') and not c.get('bad') and rng.random() < 0.3:
            c['rebuild'] = True
        if rng.random() < p_prelude:
            for _ in range(rng.randint(1, 3)):
                frm = c['base'] if rng.random() < 0.5 else rng.choice(gen.BASES)
                step = {'cls': rng.choice(['joint', 'scalar']), 'base': frm, 'table': rng.randrange(3),
                        'op': rng.choice(self.CONV_OPS) if rng.random() < 0.6 else rng.choice(self.PLAIN_OPS)}
                if step['op'] in self.CONV_OPS:
                    step['to'] = rng.choice(gen.BASES)
                c['prelude'].append(step)
            c['prelude_when'] = rng.choice(['before', 'before', 'between'])

    def decorate(self, c, rng):
        # near-null values and explicit zeros
        pmf = [Fraction(p) for p in c['pmf']]
        if len(pmf) >= 2 and rng.random() < 0.3:
            eps = rng.choice([Fraction(5, 10 ** 9), Fraction(2, 10 ** 8), Fraction(0)])
            i, j = rng.sample(range(len(pmf)), 2)
            if pmf[j] > eps:
                pmf[j] = pmf[j] + pmf[i] - eps
                pmf[i] = eps
                c['pmf'] = [str(p) for p in pmf]
                c['style'] = 'near-null' if eps else 'explicit-zero'
        forms = ['seq', 'seq', 'dict']
        if c['n'] == 1 and c['space'] is None or (c['n'] == 1 and c['space'] and c['space'][0] in ('list',)):
            forms += ['scalar-seq', 'scalar-dict', 'scalar-pmf']
        if c['space'] is None and c['klass'] == 'tuple':
            forms.append('ndarray')
        c['form'] = rng.choice(forms)
        if c['form'] == 'ndarray':
            # the table is the whole array: outcomes are the index tuples
            shape = [rng.randint(1, 3) for _ in range(c['n'])]
            if all(s == 1 for s in shape):
                shape[0] = 2
            outs = [[]]
            for s in shape:
                outs = [o + [i] for o in outs for i in range(s)]
            pv, _ = gen.rand_prob_vector(rng, len(outs))
            c.update({'outs': outs, 'pmf': [str(p) for p in pv], 'alphabets': [list(range(s)) for s in shape],
                      'sparse': True, 'trim': True, 'names': None})
        if c['form'] == 'scalar-pmf':
            k = len(c['outs'])
            c.update({'klass': 'tuple', 'outs': [[i] for i in range(k)], 'space': None, 'alphabets': [list(range(k))]})
        if c['form'].startswith('scalar'):
            c['names'] = None
        c['bad'] = None

    def break_it(self, c, rng, kind=None):
        kind = kind or rng.choice(MALFORMED)
        pmf = [Fraction(p) for p in c['pmf']]
        if kind == 'unnormalised':
            delta = rng.choice([Fraction(1, 1000), Fraction(1, 10), Fraction(-1, 10)])
            i = max(range(len(pmf)), key=lambda j: pmf[j])
            pmf[i] += delta
            if c['base'] != 'linear' and pmf[i] <= 0:
                pmf[i] += Fraction(1, 5)
        elif kind == 'out-of-range':
            if c['base'] != 'linear' or len(pmf) < 2:
                kind = 'unnormalised'
                pmf[0] += Fraction(1, 10)
            else:
                pmf[0] += Fraction(3, 2)
                pmf[1] -= Fraction(3, 2)
        elif kind == 'length-mismatch':
            pass
        elif kind == 'ragged':
            if c['n'] < 2 or len(c['outs']) < 2 or c['form'] not in ('seq', 'dict') or c['space'] is not None:
                kind = 'length-mismatch'
        elif kind == 'outsider':
            if c['space'] is None or c['form'] not in ('seq', 'dict'):
                kind = 'length-mismatch'
            else:
                sp = c['space']
                if sp[0] == 'cart':
                    c['space'] = ['cart', [a for a in sp[1]]]
                    # an outcome using a symbol outside the first alphabet
                    missing = [s for s in range(8) if s not in sp[1][0]]
                    bad = [missing[0]] + c['outs'][0][1:]
                else:
                    members = [o for o in sp[1] if o != c['outs'][0]]
                    if not members:
                        members = [[(s + 1) % 8 for s in c['outs'][0]]]
                    c['space'] = [sp[0], members]
                    bad = c['outs'][0]
                c['outs'] = [bad] + c['outs'][1:]
        elif kind == 'invalid-base':
            c['badbase'] = rng.choice([1, 0, -2, 'foo'])
        elif kind == 'empty-no-space':
            c['outs'], pmf, c['space'] = [], [], None
            c['form'] = 'seq' if not c['form'].startswith('scalar') else 'scalar-seq'
        elif kind == 'dict-and-pmf':
            c['form'] = 'dict' if not c['form'].startswith('scalar') else 'scalar-dict'
        elif kind == 'all-null-trimmed':
            c['base'] = 'linear'
            pmf = [Fraction(5, 10 ** 9)] + [Fraction(0)] * (len(pmf) - 1)
            c['sparse'], c['trim'] = True, True
        if kind == 'length-mismatch':
            c['form'] = 'scalar-seq' if c['form'].startswith('scalar') else 'seq'
        if c['form'] in ('ndarray', 'scalar-pmf') and kind not in ('unnormalised', 'out-of-range', 'invalid-base'):
            c['form'] = 'seq' if c['form'] == 'ndarray' else 'scalar-seq'
        c['pmf'] = [str(p) for p in pmf]
        c['bad'] = kind

    def exhaustive_small(self):
        """All supports, zero patterns, flags and two classes for <= 2 binary variables."""
        import itertools
        for klass in ('str', 'tuple'):
            for n in (1, 2):
                full = [list(o) for o in itertools.product([0, 1], repeat=n)]
                for r in range(1, len(full) + 1):
                    for support in itertools.combinations(full, r):
                        for zmask in itertools.product([0, 1], repeat=r):
                            if all(zmask):
                                continue
                            k = r - sum(zmask)
                            pmf = [Fraction(0) if z else Fraction(1, k) for z in zmask]
                            for sparse in (True, False):
                                for trim in (True, False):
                                    yield {'klass': klass, 'n': n, 'alphabets': [[0, 1]] * n,
                                           'outs': [list(o) for o in support], 'pmf': [str(p) for p in pmf],
                                           'space': None, 'base': 'linear', 'sparse': sparse, 'trim': trim,
                                           'names': None, 'style': 'exhaustive', 'spacekind': 'none',
                                           'form': 'seq', 'bad': None}

    def shrink(self, case):
        for c in self.shrink0(case):
            sp = c.get('space')
            if c.get('spacevia') == 'from_outcomes' and sp is not None and sp[0] == 'cart' and c['outs']:
                c['space'] = ['cart', self.first_appearance(c['outs'])]    # that space is a function of the outcomes
            yield c

    def shrink0(self, case):
        # the histories first: a failing input that does not need them should not carry them
        for key in ('prelude', 'history'):
            steps = case.get(key) or []
            for i in range(len(steps)):
                c = dict(case)
                c[key] = steps[:i] + steps[i + 1:]
                yield c
        if case.get('rebuild'):
            c = dict(case)
            c['rebuild'] = False
            yield c
        if case.get('prelude') and case.get('prelude_when') == 'between':
            c = dict(case)
            c['prelude_when'] = 'before'
            yield c
        if case.get('omit_base'):
            c = dict(case)
            c['omit_base'] = None
            yield c
        if case.get('scalar_space') == 'object':
            c = dict(case)
            c['scalar_space'] = 'list'
            yield c
        sp = case.get('space')
        if sp is not None and sp[0] == 'cart' and any(list(a) != sorted(a) for a in sp[1]):
            c = dict(case)
            c['space'] = ['cart', [sorted(a) for a in sp[1]]]
            c['spacevia'] = None
            yield c
        outs, pmf = case['outs'], [Fraction(p) for p in case['pmf']]
        if len(outs) > 1 and not case.get('bad') and case['form'] not in ('ndarray', 'scalar-pmf'):   # those forms list every cell
            for i in range(len(outs)):
                rest = [p for j, p in enumerate(pmf) if j != i]
                tot = sum(rest)
                if tot <= 0:
                    continue
                c = dict(case)
                c['outs'] = [o for j, o in enumerate(outs) if j != i]
                c['pmf'] = [str(p / tot) for p in rest]
                yield c
        for key, val in (('base', 'linear'), ('space', None), ('sparse', True), ('trim', True), ('form', 'seq')):
            if key == 'space' and case.get('bad') == 'outsider':
                continue        # without the space the specification is no longer the malformed one it is labelled as
            if case.get(key) != val and not (key == 'form' and case['form'] in ('ndarray', 'scalar-pmf')):
                c = dict(case)
                c[key] = val
                yield c

    # ------------------------------------------------------------------ execution
    def space_obj(self, case):
        """The sample_space argument (an object for 'ss' / 'cart', a list, or None)."""
        dit = import_dit()
        sp = case.get('space')
        if sp is not None and sp[0] == 'cart' and case.get('spacevia') == 'from_outcomes' and not case.get('bad'):
            return dit.samplespace.CartesianProduct.from_outcomes([gen.to_py(o, case['klass']) for o in case['outs']])
        return gen.space_arg(case)

    def scalar_space_obj(self, case):
        """The sample_space argument of a ScalarDistribution: None, a list, or a ScalarSampleSpace object."""
        sp = case.get('space')
        if sp is None:
            return None
        members = [gen.to_py(o, case['klass'])[0] for o in sp[1]]
        if case.get('scalar_space') == 'object':
            return import_dit().samplespace.ScalarSampleSpace(members)
        return members

    def py_spec(self, case):
        klass = case['klass']
        outs = [gen.to_py(o, klass) for o in case['outs']]
        vals = [gen.log_of(Fraction(p), case['base']) for p in case['pmf']]
        return outs, vals

    def apply_history(self, case, ss, dit):
        """Public use of the sample-space object before the constructor under test receives it.  Returns
        (oracle failure, other problem)."""
        hist = case.get('history') or []
        if not hist or not isinstance(ss, dit.samplespace.SampleSpace):
            return None, None
        outs, vals = self.py_spec(case)
        valid = not case.get('bad')
        for step in hist:
            op = step[0]
            try:
                if op == 'index' and outs:
                    try:
                        ss.index(outs[step[1] % len(outs)])
                    except ValueError:
                        pass        # documented for non-members (malformed stream)
                elif op == 'contains' and outs:
                    outs[step[1] % len(outs)] in ss
                elif op == 'iter':
                    list(ss)
                elif op == 'len':
                    len(ss)
                elif op == 'sort':
                    ss.sort()
                elif op in ('build', 'build-nosort'):
                    try:
                        dit.Distribution(outs, vals, sample_space=ss, base=case['base'], sort=(op == 'build'),
                                         sparse=bool(step[1]), trim=case['trim'])
                    except Exception as e:  # noqa
                        # sort=False is outside the statement; malformed specifications are judged on the main call
                        if valid and op == 'build':
                            return ('an earlier construction from the same valid specification on the same sample-space '
                                    'object was rejected with %s: %s' % (exc_enum(e), str(e)[:120])), None
            except Exception as e:  # noqa
                if valid:
                    return None, 'history step %s on the sample-space object raised %s: %s' % (step, type(e).__name__,
                                                                                            str(e)[:120])
        return None, None

    PRELUDE_TABLES = [[Fraction(1, 2), Fraction(1, 2)], [Fraction(1, 4), Fraction(3, 4)],
                      [Fraction(1, 2), Fraction(1, 4), Fraction(1, 4)]]

    def play_prelude(self, steps, dit):
        """Public calls on unrelated distributions.  Every step first builds its own distribution from a valid
        specification (so the statement applies to it as well) and then uses it.  Returns (oracle failure, other problem)."""
        for i, st in enumerate(steps):
            probs = self.PRELUDE_TABLES[st.get('table', 0) % len(self.PRELUDE_TABLES)]
            base = st['base']
            vals = [gen.log_of(p, base) for p in probs]
            if st['cls'] == 'scalar':
                outs = list(range(len(probs)))
                ctor = dit.ScalarDistribution
            else:
                outs = ['ab', 'ba', 'bb'][:len(probs)]
                ctor = dit.Distribution
            what = 'process-history step %d (%s(%r, %r, base=%r))' % (i, ctor.__name__, outs, vals, base)
            try:
                o = ctor(outs, vals, base=base)
            except Exception as e:  # noqa
                return 'a valid specification was rejected with %s: %s [%s]' % (exc_enum(e), str(e)[:120], what), None
            if o.get_base() != base:
                return 'get_base() is %r, specified %r [%s]' % (o.get_base(), base, what), None
            for x, v in zip(outs, vals):
                if not (o[x] == v):
                    return 'lookup of specified outcome %r returns %r, specified %r [%s]' % (x, o[x], v, what), None
            try:
                op = st['op']
                if op == 'set_base':
                    o.set_base(st['to'])
                elif op == 'copy':
                    o.copy(base=st['to'])
                elif op == 'from_distribution':
                    ctor.from_distribution(o, base=st['to'])
                elif op == 'make_dense':
                    o.make_dense()
                elif op == 'make_sparse':
                    o.make_sparse()
                elif op == 'setitem':
                    o[outs[0]] = o[outs[0]]
                elif op == 'validate':
                    o.validate()
                elif op == 'str':
                    str(o)
                    o.to_string()
            except Exception as e:  # noqa
                return None, '%s: %s raised %s: %s' % (what, st['op'], type(e).__name__, str(e)[:120])
        return None, None

    def construct_py(self, case, space=None):
        dit = import_dit()
        klass = case['klass']
        form = case['form']
        base = case.get('badbase', case['base'])
        fbase = case['base']
        outs = [gen.to_py(o, klass) for o in case['outs']]
        vals = [gen.log_of(Fraction(p), fbase) for p in case['pmf']]
        if case.get('bad') == 'length-mismatch':
            vals = vals + [vals[-1]] if vals else [0.5]
        if case.get('bad') == 'ragged':
            outs = [outs[0][:-1]] + outs[1:]
        kw = dict(base=base, sparse=case['sparse'], trim=case['trim'])
        if case.get('omit_base') == 'absent':
            del kw['base']
        elif case.get('omit_base'):
            kw['base'] = base = None
        scalar = form.startswith('scalar')
        if scalar:
            souts = [o[0] for o in outs]
            sp = case.get('space')
            if space is not None:
                kw['sample_space'] = space
            elif sp is not None:
                kw['sample_space'] = [gen.to_py(o, klass)[0] for o in sp[1]]
            if form == 'scalar-pmf':
                d = dit.ScalarDistribution(vals, **kw)
            elif form == 'scalar-dict':
                if case.get('bad') == 'dict-and-pmf':
                    d = dit.ScalarDistribution(dict(zip(souts, vals)), vals, **kw)
                else:
                    d = dit.ScalarDistribution(dict(zip(souts, vals)), **kw)
            else:
                d = dit.ScalarDistribution(souts, vals, **kw)
            return d, vals
        kw['sample_space'] = space
        if form == 'ndarray':
            shape = [len(a) for a in case['alphabets']]
            arr = np.array(vals, dtype=float).reshape(shape)
            d = dit.Distribution.from_ndarray(arr, **({} if case.get('omit_base') == 'absent' else {'base': base}))
        elif form == 'dict':
            if case.get('bad') == 'dict-and-pmf':
                d = dit.Distribution(dict(zip(outs, vals)), vals, **kw)
            else:
                d = dit.Distribution(dict(zip(outs, vals)), **kw)
        else:
            d = dit.Distribution(outs, vals, **kw)
        return d, vals

    def obs_scalar(self, d, klass):
        u = gen.UNIVERSE[klass]
        inv = {s: i for i, s in enumerate(u)}
        conv = lambda s: [inv[s]]
        space = [conv(o) for o in d.sample_space()]
        return {'space': space, 'alphabets': [sorted(inv[s] for s in d.alphabet)],
                'tab': [[conv(o), float(v)] for o, v in zip(d.outcomes, d.pmf)], 'sparse': bool(d.is_sparse()),
                'base': d.get_base(), 'lookups': [float(d[o]) for o in d.sample_space()], 'len': len(d),
                'outcome_length': 1}

    def run(self, case, drv):
        """Cases with a process history run in a forked child: whatever the history does to the process (that is the point
        of it) then stays confined to the case, so a failing input is self-contained and replays in a fresh process."""
        if case.get('prelude') and hasattr(os, 'fork'):
            return self.run_forked(case, drv)
        return self.run_here(case, drv)

    def run_forked(self, case, drv):
        rfd, wfd = os.pipe()
        with warnings.catch_warnings():
            warnings.simplefilter('ignore')
            pid = os.fork()
        if pid == 0:
            code = 0
            try:
                os.close(rfd)
                seen = set(covtrace.snapshot())
                try:
                    r = self.run_here(case, drv)
                    payload = ('ok', r.__dict__, [h for h in covtrace.snapshot() if h not in seen])
                except DriverError as e:
                    payload = ('driver', str(e))
                except BaseException as e:  # noqa
                    payload = ('exc', type(e).__name__, str(e), traceback.format_exc()[-1500:])
                with os.fdopen(wfd, 'wb') as f:
                    f.write(pickle.dumps(payload))
            except BaseException:  # noqa
                code = 3
            finally:
                os._exit(code)
        os.close(wfd)
        with os.fdopen(rfd, 'rb') as f:
            data = f.read()
        os.waitpid(pid, 0)
        if not data:
            raise RuntimeError('the forked case runner returned nothing')
        payload = pickle.loads(data)
        if payload[0] == 'ok':
            r = core.Result()
            r.__dict__.update(payload[1])
            covtrace.merge(payload[2])
            return r
        if payload[0] == 'driver':
            raise DriverError(payload[1])
        if payload[1] == 'UnreadableOutcome':
            raise gen.UnreadableOutcome(payload[2])
        raise RuntimeError('%s: %s\n%s' % (payload[1], payload[2], payload[3]))

    def run_here(self, case, drv):
        dit = import_dit()
        r = core.Result()
        omit = case.get('omit_base')
        if omit and case['base'] != 'linear':
            # log values without a base are documented to be read in ditParams['base']: the table is rendered in it
            default = dit.ditParams['base']
            if default != case['base']:
                if default == 'linear' or default not in gen.BASE_ID:
                    r.features = ['base-arg=%s' % omit, 'omitted-base: ditParams default %r is not modelled' % (default,)]
                    return r
                case = dict(case, base=default)
        r.site = 'Distribution.__init__' if not case['form'].startswith('scalar') else 'ScalarDistribution.__init__'
        klass = case['klass']
        bad = case.get('bad')
        r.features = gen.case_features(case) + ['form=%s' % case['form'], 'bad=%s' % bad]
        r.features += ['base-arg=%s' % (omit or 'given')]
        if case['form'].startswith('scalar') and case.get('space') is not None:
            r.features.append('scalar-space=%s' % (case.get('scalar_space') or 'list'))
        if case.get('gap'):
            r.features.append('shape=%s' % case['gap'])
        sp0 = case.get('space')
        prelude = case.get('prelude') or []
        when = case.get('prelude_when', 'before')
        hist = case.get('history') or []
        r.features += ['history=%s' % bool(hist), 'rebuild=%s' % bool(case.get('rebuild')),
                       'process-history=%s' % (when if prelude else 'none')]
        r.features += ['history:%s' % op for op in sorted(set(h[0] for h in hist))]
        r.features += ['process-history:%s' % op for op in sorted(set(st['op'] for st in prelude))]
        if sp0 is not None and sp0[0] == 'cart':
            r.features.append('cart-alphabets=%s%s' % ('sorted' if all(list(a) == sorted(a) for a in sp0[1]) else 'unsorted',
                                                      '/from_outcomes' if case.get('spacevia') else ''))
        if prelude and any(st['op'] in self.CONV_OPS and st['base'] != 'linear' and st['to'] not in ('linear', st['base'])
                           for st in prelude):
            r.features.append('process-history:log->log')
        scalar = case['form'].startswith('scalar')
        base = case['base']

        # ---------------- implementation
        d, err, vals, ss = None, None, None, None
        pre_fail, pre_other = self.play_prelude(prelude, dit) if when == 'before' else (None, None)
        if pre_fail or pre_other:
            r.oracle_fail, r.mismatch, r.site = pre_fail, pre_other, 'C01.process-history'
            r.detail = {'impl': pre_fail or pre_other}
            return r
        hist_fail, hist_other = None, None
        try:
            ss = self.space_obj(case) if not case['form'].startswith('scalar') else self.scalar_space_obj(case)
            hist_fail, hist_other = self.apply_history(case, ss, dit)
            d, vals = self.construct_py(case, ss)
        except Exception as e:  # noqa
            err = e
        if hist_fail or hist_other:
            r.oracle_fail, r.mismatch = hist_fail, hist_other
            r.detail = {'impl': hist_fail or hist_other}
            return r
        r.nontrivial = len(case['outs']) >= 2 and (bad is not None or base != 'linear' or case['space'] is not None
                                                    or any(Fraction(p) == 0 for p in case['pmf']))

        # ---------------- model
        # a malformed linear table without a base is documented to be read as log values in ditParams['base']: the
        # faults of *that* reading are what the rejection has to name (from the definition, not from the model)
        wants_nobase = None
        if omit and base == 'linear' and bad in ('unnormalised', 'out-of-range'):
            wants_nobase = self.faults_without_base(case, dit)
        if bad in ('invalid-base', 'dict-and-pmf') or wants_nobase is not None:
            mo = None     # not part of the model: decided by the oracle alone
        else:
            args = gen.model_construct_args(case)
            if case['form'] in ('scalar-seq', 'scalar-dict'):
                # scalar sample spaces are sorted lists of the outcomes / of the given space
                sp = case.get('space')
                args[2] = ['ss', sp[1] if sp else case['outs']]
                if bad == 'empty-no-space':
                    args[2] = None
            elif case['form'] == 'scalar-pmf':
                # a supplied space is sorted like in the other scalar forms; without one the outcomes 0..k-1 are the space
                args[2] = ['ss', case['space'][1]] if case.get('space') else ['list', case['outs']]
            if bad == 'length-mismatch':
                args[1] = args[1] + [args[1][-1]] if args[1] else [q(Fraction(1, 2))]
            if bad == 'ragged':
                args[0] = [args[0][0][:-1]] + args[0][1:]
            mo = drv.call('construct', args)

        # ---------------- rejection path
        if err is not None:
            en = exc_enum(err)
            try:
                msg = str(err)
                rep = repr(err)
                printable = isinstance(msg, str) and isinstance(rep, str)
            except Exception as e2:  # noqa
                printable = False
                msg = 'str() raised %s' % type(e2).__name__
            r.detail = {'impl': 'raised ' + en, 'message': msg[:200], 'model': mo if mo is None else mo[:2]}
            if bad is None:
                r.oracle_fail = 'a valid specification was rejected with %s: %s' % (en, msg[:160])
            elif not isinstance(err, dit.exceptions.ditException):
                r.oracle_fail = 'malformed specification (%s) raised %s, not a dit exception' % (bad, type(err).__name__)
            elif not printable:
                r.oracle_fail = 'the message of %s cannot be printed (%s)' % (en, msg)
            else:
                want = {'unnormalised': 'InvalidNormalization', 'out-of-range': 'InvalidProbability',
                        'length-mismatch': 'InvalidDistribution', 'outsider': 'InvalidOutcome',
                        'invalid-base': 'InvalidBase', 'empty-no-space': 'InvalidDistribution',
                        'all-null-trimmed': 'InvalidNormalization'}.get(bad)
                if wants_nobase is not None:
                    r.features.append('omitted-base:faults=%s' % ('+'.join(sorted(wants_nobase[0])) if wants_nobase[1] else 'uncertain'))
                    if wants_nobase[1] and en not in wants_nobase[0]:
                        r.oracle_fail = ('malformed specification (%s, no base: read in base %r) raised %s; documented: %s'
                                         % (bad, dit.ditParams['base'], en, ' or '.join(sorted(wants_nobase[0])) or 'accepted'))
                elif want and en != want:
                    r.oracle_fail = 'malformed specification (%s) raised %s; documented: %s' % (bad, en, want)
            if mo is not None and not r.oracle_fail:
                if mo[0] != 'err':
                    r.mismatch = 'implementation rejects (%s) but the model accepts' % en
                elif mo[1] != en:
                    r.mismatch = 'exception kind: impl %s model %s' % (en, mo[1])
            return r

        # ---------------- accepted
        if bad is not None:
            if wants_nobase is not None and not (wants_nobase[1] and wants_nobase[0]):
                # (does not happen with the generated tables) no decidable fault in the documented reading
                r.features.append('omitted-base:faults=none-or-uncertain')
                return r
            r.oracle_fail = 'a malformed specification (%s) was accepted' % bad
            r.detail = {'impl': 'accepted'}
            return r
        if when == 'between':
            # unrelated calls between the construction and its observation
            pre_fail, pre_other = self.play_prelude(prelude, dit)
            if pre_fail or pre_other:
                r.oracle_fail, r.mismatch, r.site = pre_fail, pre_other, 'C01.process-history'
                r.detail = {'impl': pre_fail or pre_other}
                return r
        py = self.obs_scalar(d, klass) if scalar else gen.obs_py(d, klass)
        exact = base == 'linear'
        if mo[0] != 'ok':
            r.mismatch = 'model rejects (%s) but the implementation accepts' % mo[1]
        else:
            diff = gen.compare_obs(py, gen.obs_model(mo[1]), exact=exact)
            if diff:
                r.mismatch = diff
        r.detail = {'impl': py, 'model': mo[1] if mo[0] == 'ok' else mo}

        # ---------------- oracle: the statement on the real object
        fails = self.judge(d, case, vals, py, dit)

        # ---------------- a second construction on the very same sample-space argument, specification reversed
        if not fails and case.get('rebuild') and not scalar and case['form'] in ('seq', 'dict'):
            outs2, vals2 = self.py_spec(case)
            outs2, vals2 = outs2[::-1], vals2[::-1]
            d2 = None
            try:
                d2 = dit.Distribution(outs2, vals2, sample_space=ss, base=base, sparse=case['sparse'], trim=case['trim'])
            except Exception as e:  # noqa
                fails = ('second construction on the same sample-space argument: a valid specification was rejected '
                         'with %s: %s' % (exc_enum(e), str(e)[:120]))
            if d2 is not None:
                py2 = gen.obs_py(d2, klass)
                if mo[0] == 'ok' and not r.mismatch:
                    diff = gen.compare_obs(py2, gen.obs_model(mo[1]), exact=exact)
                    if diff:
                        r.mismatch = 'second construction on the same sample-space argument: ' + diff
                f2 = self.judge(d2, case, vals, py2, dit)
                if f2:
                    fails = 'second construction on the same sample-space argument: ' + f2
                    r.detail['impl_second'] = py2
        # ---------------- the same for a ScalarDistribution on the very same ScalarSampleSpace object (sorted in place by
        # the first construction)
        if not fails and case.get('rebuild') and scalar and case['form'] in ('scalar-seq', 'scalar-dict') \
                and isinstance(ss, dit.samplespace.BaseSampleSpace):
            outs2, vals2 = self.py_spec(case)
            outs2, vals2 = [o[0] for o in outs2][::-1], vals2[::-1]
            d2 = None
            try:
                d2 = dit.ScalarDistribution(outs2, vals2, sample_space=ss, base=base, sparse=case['sparse'],
                                            trim=case['trim'])
            except Exception as e:  # noqa
                fails = ('second construction on the same sample-space argument: a valid specification was rejected '
                         'with %s: %s' % (exc_enum(e), str(e)[:120]))
            if d2 is not None:
                py2 = self.obs_scalar(d2, klass)
                if mo[0] == 'ok' and not r.mismatch:
                    diff = gen.compare_obs(py2, gen.obs_model(mo[1]), exact=exact)
                    if diff:
                        r.mismatch = 'second construction on the same sample-space argument: ' + diff
                f2 = self.judge(d2, case, vals, py2, dit)
                if f2:
                    fails = 'second construction on the same sample-space argument: ' + f2
                    r.detail['impl_second'] = py2
        r.oracle_fail = fails
        return r

    def faults_without_base(self, case, dit):
        """(exception kinds the documented reading allows, is at least one fault certain?) for a table handed over without a
        base whose values are not a linear pmf: it is read as log values in ditParams['base'] (b > 1 assumed: only then is
        `value > 0` out of range).  A fault within a factor 1e-3 .. 1e-9 of its tolerance is allowed but not certain."""
        b = dit.ditParams['base']
        b = math.e if b == 'e' else b
        if not isinstance(b, (int, float)) or not b > 1:
            return set(), False
        vals = [float(Fraction(p)) for p in case['pmf']]
        if case.get('bad') == 'length-mismatch':
            return set(), False
        if abs(math.fsum(vals) - 1) <= 1e-4 and all(-1e-4 <= v <= 1 + 1e-4 for v in vals):
            return set(), False         # (not generated) a linear pmf, or too close to one to say: read as linear
        lin = [float(b) ** v for v in vals]
        total = math.fsum(lin)
        allowed, certain = set(), False
        if abs(total - 1) > 1e-9:
            allowed.add('InvalidNormalization')
            certain = certain or abs(total - 1) > 1e-3
        if any(x > 1 + 1e-9 for x in lin):
            allowed.add('InvalidProbability')
            certain = certain or any(x > 1 + 1e-3 for x in lin)
        return allowed, certain

    def judge(self, d, case, vals, py, dit):
        """The statement on the real object `d` (observed as `py`); returns the violated clause or None."""
        klass = case['klass']
        scalar = case['form'].startswith('scalar')
        base = case['base']
        fails = None
        spec = {}
        for o, v, p in zip(case['outs'], vals, case['pmf']):
            spec[tuple(o)] = (v, Fraction(p))
        space = [tuple(o) for o in py['space']]
        look = dict(zip(space, py['lookups']))
        zero = gen.log_of(0, base)     # the null probability of the specified base, from the definition
        for o, (v, p) in spec.items():
            got = look.get(o)
            if got is None:
                fails = 'specified outcome %s is not in the sample space' % (list(o),)
                break
            same = (got == v) or (math.isnan(got) and math.isnan(v))
            if not same:
                nullish = (base == 'linear' and abs(v) <= 1e-8) or (base != 'linear' and v == zero)
                if not (case['trim'] and case['sparse'] and nullish and got == zero):
                    fails = 'lookup of specified outcome %s returns %r, specified %r' % (list(o), got, v)
                    break
        if not fails:
            for o in space:
                if o not in spec and look[o] != zero:
                    fails = 'unspecified member %s of the sample space reads %r, not the null probability' % (list(o), look[o])
                    break
        if not fails:
            # outsiders
            u = gen.UNIVERSE[klass]
            outsiders = []
            n = case['n']
            outsiders.append(tuple([9] * n))
            outsiders.append(tuple([9] * (n + 1)))
            if space and not scalar:
                # wrong length, every symbol a valid one: a prefix of a member, a member extended by its last symbol
                m0 = tuple(space[0])
                outsiders += [m0[:-1], m0 + m0[-1:], m0 + m0]
            for cand in outsiders:
                if cand in set(space):
                    continue
                po = gen.to_py(list(cand), klass)
                if scalar:
                    if len(cand) != 1:
                        continue
                    po = po[0]
                try:
                    d[po]
                    fails = 'lookup of outsider %r did not raise' % (po,)
                except dit.exceptions.InvalidOutcome:
                    pass
                except Exception as e:  # noqa
                    fails = 'lookup of outsider %r raised %s instead of InvalidOutcome' % (po, type(e).__name__)
                if fails:
                    break
            if not fails and not scalar:
                try:
                    d[99]
                    fails = 'lookup of outsider 99 did not raise'
                except dit.exceptions.InvalidOutcome:
                    pass
                except Exception as e:  # noqa
                    fails = 'lookup of outsider 99 raised %s instead of InvalidOutcome' % type(e).__name__
        if not fails:
            # the boolean views of the same table: has_outcome(o) = membership in the sample space, has_outcome(o,
            # null=False) = member whose lookup is not (exactly) the null probability, `o in d` = stored outcome
            stored = set(tuple(o) for o, _ in py['tab'])
            members = set(space)
            cands = list(space) + [c for c in (tuple([9] * case['n']), tuple([9] * (case['n'] + 1))) if c not in members]
            if space and not scalar:
                m0 = tuple(space[0])
                cands += [c for c in (m0[:-1], m0 + m0[-1:]) if c not in members]
            for cand in cands:
                if scalar and len(cand) != 1:
                    continue
                po = gen.to_py(list(cand), klass)
                po = po[0] if scalar else po
                try:
                    got = (bool(d.has_outcome(po)), bool(d.has_outcome(po, null=False)), bool(po in d))
                except Exception as e:  # noqa
                    fails = 'has_outcome / membership of %r raised %s' % (po, type(e).__name__)
                    break
                inside = cand in members
                want = (inside, inside and look[cand] != zero, cand in stored)
                if inside and base == 'linear' and 0 < abs(look[cand]) <= 1e-8:
                    # within the null tolerance the statement leaves open whether the value counts as null
                    got = (got[0], want[1], got[2])
                if got != want:
                    fails = ('(has_outcome(o), has_outcome(o, null=False), o in d) for o = %r are %s; the table says %s '
                             '(%s, lookup %r, %sstored)' % (po, got, want, 'member' if inside else 'outsider',
                                                           look.get(cand), '' if cand in stored else 'not '))
                    break
        if not fails:
            keys = [tuple(o) for o, _ in py['tab']]
            order = {o: i for i, o in enumerate(space)}
            ranks = [order.get(k, -1) for k in keys]
            if -1 in ranks or ranks != sorted(ranks) or len(set(ranks)) != len(ranks):
                fails = 'stored outcomes are not duplicate-free and ordered like the sample space'
            elif len(d.outcomes) != len(d.pmf) or len(d) != len(d.outcomes):
                fails = 'outcomes and pmf are not aligned'
            elif not case['sparse'] and keys != space:
                fails = 'dense distribution does not hold every member of the sample space'
            elif case['sparse'] and case['trim'] and any(np.isclose(v, zero) for _, v in py['tab']):
                fails = 'sparse trimmed distribution stores a null outcome'
            elif bool(d.is_sparse()) != case['sparse']:
                fails = 'is_sparse() is %s' % d.is_sparse()
            elif d.get_base() != base:
                fails = 'get_base() is %r, specified %r' % (d.get_base(), base)
            elif any((tuple(o) in d) != (tuple(o) in set(keys)) for o in space) and False:
                fails = 'membership disagrees with stored outcomes'
        if not fails:
            n = case['n']
            symbols = [sorted(set(o[i] for o in space)) for i in range(n)] if space else []
            if [sorted(a) for a in py['alphabets']] != symbols:
                if not (py['space'] and isinstance(d._sample_space, dit.samplespace.CartesianProduct)
                        and [sorted(a) for a in py['alphabets']] == symbols):
                    fails = 'alphabets %s are not the symbols of the sample space %s' % (py['alphabets'], symbols)
            elif py['outcome_length'] != (1 if scalar else n):
                fails = 'outcome_length() = %s' % py['outcome_length']
        return fails


PROP = C01()
