"""
C03 — Conditioning factorises the joint, P(c)P(r|c)=P(c,r), and factors recombine.

Three case families: (i) the structured 2..4-variable distributions of gen.rand_dist_case, (ii) the same shapes with
heterogeneous alphabets (klass 'hetero': every variable has its own kind of symbols, see COLS), both compared with the
Lean model and judged by the oracle, (iii) wide distributions of 9..11 binary variables (family 'wide'), judged by the
oracle alone.  In every case the factors are used twice: after joint_from_factors they are observed again (unchanged,
still a factorisation of the joint) and recombined a second time.  All expected numbers are fibre sums of the table
read from the source distribution (which is compared with the specified table first).

The factors are also observed in their other representations (`other_representations`): copypmf of the marginal and of
every conditional (modes asis / dense / sparse, target base None / linear / a log base) must hold the same
probabilities outcome by outcome; cdist_array of the conditionals must be those rows, and P(c_i) * row_i the joint, in
every base; joint_from_factors must reproduce the joint with strict=False, from a dense copy of the marginal (stored
zero-probability conditioning outcomes: the list of conditionals is shorter than the marginal) and from
d.marginal(crvs) of the source (when variables were dropped its mask is not complementary: strict=False, conditioning
variables first).  Not judged: a *log-base* marginal longer than the list of conditionals that has a positive
conditioning probability <= 1e-8 (joint_from_factors makes such a marginal sparse in the linear domain, which drops
that outcome, and raises 'len(mdist) != len(cdists)': null-tolerance class of DESIGN 11); cdist_array in modes
asis / sparse when the conditionals store different numbers of outcomes (no 2D array exists).
"""
import json
import math
import random
from fractions import Fraction

import core
import gen
from canon import exc_enum
from env import import_dit

# Per-variable symbol universes of the 'hetero' outcome class: tuple outcomes whose variables take values of
# different kinds (counts, signed numbers, floats, labels, numerals written as text).  Every universe is increasing
# under Python's order, so - as for gen.UNIVERSE - the order on ranks *is* the order on the symbols of that variable;
# symbols of different variables are never compared with each other (tuples are compared position by position).
# In several numeric universes the order of the numbers differs from the order of their decimal text.
COLS = {
    'digit': [0, 1, 2, 3, 4, 5, 6, 7, 8, 9],
    'count': [2, 10, 30, 100, 200, 1000],
    'signed': [-20, -3, -1, 0, 2, 10],
    'float': [0.5, 2.0, 10.0, 25.0, 100.0, 1000.0],
    'numix': [-2, -0.5, 1, 2.5, 10, 30.0],              # ints and floats in one alphabet
    'label': ['a', 'b', 'c', 'dd', 'e', 'f'],
    'word': ['hi', 'lo', 'mid', 'no', 'yes', 'zz'],
    'numeral': ['-1', '10', '100', '2', '30', '5'],     # text that looks like numbers, in text order
}
NUMERIC_COLS = ('digit', 'count', 'signed', 'float', 'numix')
WIDE_NAMES = ['ABCDEFGHIJK', 'KJIHGFEDCBA', 'QAZWSXEDCRF']


def unis_of(case, positions=None):
    """The symbol universe of each variable (of the listed positions)."""
    if case['klass'] == 'hetero':
        u = [COLS[k] for k in case['cols']]
    else:
        u = [gen.UNIVERSE[case['klass']]] * case['n']
    return u if positions is None else [u[i] for i in positions]


def build_dist(case):
    """gen.build, with per-variable universes for the 'hetero' class."""
    if case['klass'] != 'hetero':
        return gen.build(case)
    dit = import_dit()
    unis = unis_of(case)
    conv = lambda o: tuple(u[r] for u, r in zip(unis, o))
    sp = case.get('space')
    if sp is None:
        space = None
    elif sp[0] == 'list':
        space = [conv(o) for o in sp[1]]
    elif sp[0] == 'ss':
        space = dit.samplespace.SampleSpace([conv(o) for o in sp[1]])
    elif sp[0] == 'cart':
        from dit.helpers import get_product_func
        space = dit.samplespace.CartesianProduct([[u[r] for r in a] for u, a in zip(unis, sp[1])],
                                                 get_product_func(tuple))
    else:
        raise ValueError(sp)
    d = dit.Distribution([conv(o) for o in case['outs']], [gen.log_of(Fraction(p), case['base']) for p in case['pmf']],
                         sample_space=space, base=case['base'], sparse=case['sparse'], trim=case['trim'], validate=True)
    if case.get('names'):
        d.set_rv_names(case['names'])
    return d


def obs_dist(dd, case, positions, scalar=False):
    """Observable record (rank space) of a real distribution over the variables `positions` of the case."""
    klass = case['klass']
    if klass != 'hetero' and not scalar:
        return gen.obs_py(dd, klass)
    invs = [{s: i for i, s in enumerate(u)} for u in unis_of(case, positions)]

    def conv(o):
        if scalar:
            o = (o,)
        try:
            if len(o) != len(invs):
                raise KeyError(o)
            return [inv[s] for inv, s in zip(invs, o)]
        except (KeyError, TypeError):
            raise gen.UnreadableOutcome('%r is not an outcome over the symbols of variables %s' % (o, list(positions)))
    if scalar:
        alph = [sorted(invs[0][s] for s in dd.alphabet)]
    else:
        alph = [sorted(inv[s] for s in a) for inv, a in zip(invs, dd.alphabet)]
    rec = {'space': [conv(o) for o in dd.sample_space()], 'alphabets': alph,
           'tab': [[conv(o), float(v)] for o, v in zip(dd.outcomes, dd.pmf)], 'sparse': bool(dd.is_sparse()),
           'base': dd.get_base(), 'lookups': [float(dd[o]) for o in dd.sample_space()]}
    if not scalar:
        rec['len'] = len(dd)
        rec['outcome_length'] = dd.outcome_length()
    return rec


def same_obs(a, b):
    return json.dumps(a, sort_keys=True, default=str) == json.dumps(b, sort_keys=True, default=str)


def hetero_case(rng):
    """A joint distribution whose variables take symbols of different kinds."""
    c = gen.rand_dist_case(rng, nmin=2, nmax=4, klasses=('tuple',))
    c['klass'] = 'hetero'
    kinds = sorted(COLS)
    cols = [rng.choice(kinds) for _ in range(c['n'])]
    if rng.random() < 0.6:
        # at least one textual and one numeric variable
        i, j = rng.sample(range(c['n']), 2)
        cols[i] = rng.choice(['label', 'word', 'numeral'])
        cols[j] = rng.choice(NUMERIC_COLS)
    c['cols'] = cols
    return c


def wide_case(rng):
    """9..11 binary variables, 6..40 stored outcomes (the model and the main family stop at 4 variables)."""
    n = rng.randint(9, 11)
    klass = rng.choice(['str', 'str2', 'tuple', 'tuple2', 'mixed'])
    a = sorted(rng.sample(range(6), 2))
    k = rng.randint(6, 40)
    support = [[a[(x >> i) & 1] for i in range(n)] for x in rng.sample(range(2 ** n), k)]
    pmf, style = gen.rand_prob_vector(rng, k)
    names = list(rng.choice(WIDE_NAMES))[:n] if rng.random() < 0.4 else None
    c = {'family': 'wide', 'klass': klass, 'n': n, 'alphabets': [list(a) for _ in range(n)], 'outs': support,
         'pmf': [str(p) for p in pmf], 'space': None, 'base': rng.choice(gen.BASES), 'sparse': rng.random() < 0.7,
         'trim': rng.random() < 0.6, 'names': names, 'style': style, 'spacekind': 'none'}
    shape = rng.choice(['prefix', 'prefix', 'few', 'few', 'random'])
    if shape == 'prefix':
        # condition on the first m variables, 1..4 remain
        crvs = list(range(rng.randint(n - 4, n - 1)))
    elif shape == 'few':
        # at most four variables take part, one of them among the last ones
        union = set(rng.sample(range(n), rng.randint(2, 4)))
        if rng.random() < 0.8 and max(union) < 8:
            union.discard(rng.choice(sorted(union)))
            union.add(rng.randint(8, n - 1))
            while len(union) < 2:
                union.add(rng.randrange(8))
        union = sorted(union)
        crvs = sorted(rng.sample(union, rng.randint(1, len(union) - 1)))
        c['_few'] = [i for i in union if i not in crvs]
    else:
        crvs = sorted(rng.sample(range(n), rng.randint(1, n - 1)))
    rest = [i for i in range(n) if i not in crvs]
    if shape == 'few':
        rvs = c.pop('_few')
    elif rng.random() < 0.5:
        rvs = None
    else:
        rvs = sorted(rng.sample(rest, rng.randint(1, min(4, len(rest)))))
    return c, crvs, rvs, shape


# ----------------------------------------------------------------------- the factors in another base / as an array
# Targets of `copypmf` / `cdist_array` (None = keep the base of the distribution).
TARGET_BASES = [None] + list(gen.BASES)
MODES = ('asis', 'dense', 'sparse')


def more_options(case):
    """Options of the additional uses of the factors.  They are drawn from a generator seeded by the case itself, so
    the stream of cases of a seed is the same as before these options existed."""
    g = random.Random(int(core.case_key(case)[:12], 16))
    k = 2 if case.get('family') == 'wide' else 3
    return {'bases': g.sample(TARGET_BASES, k)}


def conv_value(v, old, new):
    """The float which represents in base `new` the probability that the stored float `v` represents in base `old`."""
    v = float(v)
    if new is None or new == old:
        return v
    lin = gen.lin_of(v, old)
    if new == 'linear':
        return lin
    bn = gen.base_num(new)
    if lin == 0:
        return -math.inf if bn > 1 else math.inf
    if math.isinf(lin) or math.isnan(lin):
        return math.nan
    if old == 'linear':
        return math.log(v) / math.log(bn)
    return v * math.log(gen.base_num(old)) / math.log(bn)


def repr_agrees(got, want, base):
    """Stored float `got` against the expected representation `want` in `base` (rtol 1e-9 in the linear domain)."""
    got = float(got)
    if math.isnan(got) or math.isnan(want):
        return False
    if math.isinf(got) or math.isinf(want):
        return got == want
    if base == 'linear':
        return abs(got - want) <= 1e-12 + 1e-9 * abs(want)
    return abs(got - want) <= 1e-9 * max(1.0, abs(want))


def null_value(v, base):
    """Is the stored float a null probability for the library (C01's tolerance: linear values up to 1e-8, the
    infinite zero of a log base)?  None when the value is too close to the threshold to say."""
    if base == 'linear':
        if 0.99e-8 < v < 1.01e-8:
            return None
        return v <= 1e-8
    return gen.lin_of(v, base) == 0


def expected_copy(x, mode):
    """Outcomes-in-order values of `copypmf(x, mode=mode)` in the base of x, read through the public interface:
    stored values as they are / the value of every member of the sample space / the non-null stored values."""
    base = x.get_base()
    if mode == 'asis':
        return [float(v) for v in x.pmf]
    if mode == 'dense':
        return [float(x[o]) for o in x.sample_space()]
    flags = [null_value(float(v), base) for v in x.pmf]
    if any(f is None for f in flags):
        return None
    return [float(v) for v, f in zip(x.pmf, flags) if not f]


def copies_fail(dit, x, label, targets):
    """copypmf(x, base, mode) for every mode and target base: the same probabilities, outcome by outcome, in the
    requested base.  First failing clause or None."""
    old = x.get_base()
    for mode in MODES:
        want0 = expected_copy(x, mode)
        if want0 is None:
            continue
        for b in targets:
            eff = old if b is None else b
            try:
                got = dit.copypmf(x, base=b, mode=mode)
            except Exception as e:  # noqa
                return 'copypmf(%s, base=%r, mode=%r) raised %s: %s' % (label, b, mode, type(e).__name__, str(e)[:120])
            got = [float(v) for v in got]
            want = [conv_value(v, old, b) for v in want0]
            if len(got) != len(want):
                return 'copypmf(%s, base=%r, mode=%r) has %d entries, %d expected' % (label, b, mode, len(got), len(want))
            for k, (a, w) in enumerate(zip(got, want)):
                if not repr_agrees(a, w, eff):
                    return 'copypmf(%s, base=%r, mode=%r)[%d] = %r, but the stored %r (base %r) is %r in base %r' % (
                        label, b, mode, k, a, want0[k], old, w, eff)
    return None


class C03(object):
    id = 'C03'
    rule = ("joint distributions of 2..4 variables (zero-probability conditioning values when dense/untrimmed, rows with "
            "different supports, 6 bases, names, custom spaces) x disjoint (crvs, rvs) with rvs possibly None, dropped "
            "variables, interleaved positions, extract with singletons; condition_on then joint_from_factors; "
            "non-trivial = at least two conditioning outcomes of positive probability and a conditional with >= 2 "
            "outcomes; + tuple outcomes whose variables take symbols of different kinds (counts, signed numbers, "
            "floats, labels, numerals as text; numeric order != text order); + wide distributions of 9..11 binary "
            "variables (prefix / few-variable / random selections, oracle only); every case: the factors are used "
            "again after joint_from_factors (unchanged, still a factorisation, second recombination reproduces the "
            "joint); every case: the factors in other representations - copypmf of the marginal and of every conditional "
            "in modes asis / dense / sparse and 2..3 target bases (None, linear, 5 log bases; options drawn from the case "
            "itself), cdist_array of the conditionals (dense always, asis / sparse when the rows have one length) with the "
            "chain rule evaluated on the array; joint_from_factors with strict=False, with the marginal made dense (zero "
            "conditioning outcomes stored) and with d.marginal(crvs) of the source (strict=True when nothing is dropped, "
            "else strict=False: conditioning variables first)")
    tolerances = {'values': 'rtol 1e-9 in the linear domain (a division is involved)'}
    exhaustive = {}

    def gen(self, rng, tier):
        n_cases = 220 if tier == 'quick' else 30000
        for _ in range(n_cases):
            c = gen.rand_dist_case(rng, nmin=2, nmax=4)
            n = c['n']
            k = rng.randint(1, n - 1)
            crvs = sorted(rng.sample(range(n), k))
            rest = [i for i in range(n) if i not in crvs]
            if rng.random() < 0.4:
                rvs = None
            elif rng.random() < 0.08:
                rvs = []            # explicitly no variable: each conditional is the trivial distribution
            else:
                rvs = sorted(rng.sample(rest, rng.randint(1, len(rest))))
            # the caller may list the variables in any order; condition_on keeps variable order
            crvs = list(crvs)
            rng.shuffle(crvs)
            if rvs is not None:
                rvs = list(rvs)
                rng.shuffle(rvs)
            c['crvs'] = crvs
            c['rvs'] = rvs
            c['byname'] = bool(c['names']) and rng.random() < 0.5
            c['extract'] = rng.random() < 0.3
            c['more'] = more_options(c)
            yield c
        # heterogeneous alphabets: each variable has its own kind of symbols
        for _ in range(90 if tier == 'quick' else 9000):
            c = hetero_case(rng)
            n = c['n']
            crvs = rng.sample(range(n), rng.randint(1, n - 1))
            rest = [i for i in range(n) if i not in crvs]
            rvs = None if rng.random() < 0.4 else rng.sample(rest, rng.randint(1, len(rest)))
            c['crvs'] = crvs
            c['rvs'] = rvs
            c['byname'] = bool(c['names']) and rng.random() < 0.5
            c['extract'] = rng.random() < 0.2
            c['more'] = more_options(c)
            yield c
        # wide distributions (judged by the oracle alone)
        for _ in range(40 if tier == 'quick' else 1500):
            c, crvs, rvs, shape = wide_case(rng)
            rng.shuffle(crvs)
            if rvs is not None:
                rng.shuffle(rvs)
            c['crvs'] = crvs
            c['rvs'] = rvs
            c['shape'] = shape
            c['byname'] = bool(c['names']) and rng.random() < 0.5
            c['extract'] = rng.random() < 0.15
            c['more'] = more_options(c)
            yield c

    def shrink(self, case):
        outs, pmf = case['outs'], [Fraction(p) for p in case['pmf']]
        if len(outs) > 1:
            for i in range(len(outs)):
                rest = [p for j, p in enumerate(pmf) if j != i]
                tot = sum(rest)
                if tot <= 0:
                    continue
                c = dict(case)
                c['outs'] = [o for j, o in enumerate(outs) if j != i]
                c['pmf'] = [str(p / tot) for p in rest]
                yield c
        for key, val in (('base', 'linear'), ('names', None), ('space', None), ('sparse', True), ('trim', True),
                         ('extract', False)):
            if case.get(key) != val:
                c = dict(case)
                c[key] = val
                if key == 'names':
                    c['byname'] = False
                yield c

    def run(self, case, drv):
        dit = import_dit()
        r = core.Result()
        r.site = 'Distribution.condition_on'
        klass = case['klass']
        n = case['n']
        names = case.get('names')
        crvs_arg = case['crvs']
        rvs_arg = case['rvs']
        crvs = sorted(crvs_arg)
        rvs = None if rvs_arg is None else sorted(rvs_arg)
        idx = rvs if rvs is not None else [i for i in range(n) if i not in crvs]
        r.features = gen.case_features(case) + ['rvsNone=%s' % (rvs is None), 'byname=%s' % case['byname'],
                                                'extract=%s' % case['extract'], 'dropped=%d' % (n - len(crvs) - len(idx))]
        base = case['base']
        wide = case.get('family') == 'wide'
        if klass == 'hetero':
            kinds = case['cols']
            used = sorted(crvs + idx)
            r.features += ['cols=%s' % '+'.join(sorted(set(kinds))),
                           'text-and-number-used=%s' % (any(kinds[i] in NUMERIC_COLS for i in used)
                                                        and any(kinds[i] not in NUMERIC_COLS for i in used))]
        if wide:
            r.features += ['family=wide', 'shape=%s' % case.get('shape'), 'kept=%d' % len(idx)]
        d = build_dist(case)
        src = obs_dist(d, case, range(n))
        if wide:
            # no model for this width: the table read back must be the specified one (C01's statement)
            spec = {}
            for o, p in zip(case['outs'], case['pmf']):
                spec[tuple(o)] = spec.get(tuple(o), 0) + Fraction(p)
            if any(not gen.value_agrees(v, spec.get(tuple(o), 0), base, atol=1e-8)
                   for o, v in zip(src['space'], src['lookups'])) or \
                    not set(spec) <= set(tuple(o) for o in src['space']):
                r.features.append('construct-disagree')
                return r
            mj = None
        else:
            mj = drv.call('construct', gen.model_construct_args(case))
            if mj[0] != 'ok' or gen.compare_obs(src, gen.obs_model(mj[1])) is not None:
                r.features.append('construct-disagree')
                return r

        def nm(ix):
            return [names[i] for i in ix] if case['byname'] else list(ix)
        rv_mode = 'names' if case['byname'] else 'indices'
        try:
            cdist, conds = d.condition_on(nm(crvs_arg), None if rvs_arg is None else nm(rvs_arg), rv_mode=rv_mode,
                                          extract=case['extract'])
        except Exception as e:  # noqa
            r.oracle_fail = 'condition_on raised %s: %s' % (type(e).__name__, str(e)[:150])
            return r
        if obs_dist(d, case, range(n)) != src:
            r.oracle_fail = 'condition_on changed the source distribution'
            return r
        scal_c = case['extract'] and len(crvs) == 1
        scal_r = case['extract'] and len(idx) == 1

        oc = obs_dist(cdist, case, crvs, scal_c)
        ocs = [obs_dist(x, case, idx, scal_r) for x in conds]
        pos_c = [o for o, v in oc['tab'] if gen.lin_of(v, base) > 0]
        r.nontrivial = len(pos_c) >= 2 and any(len(x['tab']) >= 2 for x in ocs)

        # ---------------- model
        mo = None
        if not wide:
            mo = drv.call('condition', [mj[2], crvs, idx])
            mc = gen.obs_model(mo[0])
            mcs = [gen.obs_model(x) for x in mo[1]]

            diff = gen.compare_obs(oc, mc, check_alphabets=not scal_c)
            if diff:
                r.mismatch = 'marginal on the conditioning variables: ' + diff
            elif len(ocs) != len(mcs):
                r.mismatch = 'number of conditionals: impl %d model %d' % (len(ocs), len(mcs))
            else:
                for i, (a, b) in enumerate(zip(ocs, mcs)):
                    diff = gen.compare_obs(a, b, check_alphabets=not scal_r)
                    if diff:
                        r.mismatch = 'conditional #%d: %s' % (i, diff)
                        break
        r.detail = {'impl_cdist': oc if not wide else oc['tab'], 'model_cdist': mo[0] if mo else None,
                    'n_conds': len(ocs)}

        # ---------------- oracle
        lin = lambda v: gen.lin_of(v, base)
        rows = [(o, lin(v)) for o, v in zip(src['space'], src['lookups'])]
        fails = None
        joint = {}
        marg = {}
        for o, p in rows:
            c = tuple(o[i] for i in crvs)
            x = tuple(o[i] for i in idx)
            joint[(c, x)] = joint.get((c, x), 0.0) + p
            marg[c] = marg.get(c, 0.0) + p

        def check_factors(oc, ocs, n_conds):
            """The statement about the factors, on their observable records (first failing clause or None)."""
            fails = None
            stored_c = [tuple(o) for o, _ in oc['tab']]
            want_c = [c for c in [tuple(o) for o in oc['space']] if marg.get(c, 0.0) > (1e-8 if base == 'linear' else 0.0)]
            if stored_c != want_c:
                fails = 'conditioning outcomes listed %s, positive-probability ones in order are %s' % (stored_c, want_c)
            elif n_conds != len(stored_c):
                fails = '%d conditionals for %d conditioning outcomes' % (n_conds, len(stored_c))
            else:
                for c, (_, pc), cd in zip(stored_c, oc['tab'], ocs):
                    pc = lin(pc)
                    if abs(pc - marg.get(c, 0.0)) > 1e-9:
                        fails = 'P(c=%s) = %r but the fibre sum is %r' % (list(c), pc, marg.get(c, 0.0))
                        break
                    tot = 0.0
                    for x, v in zip(cd['space'], cd['lookups']):
                        pr = lin(v)
                        tot += pr
                        wantj = joint.get((c, tuple(x)), 0.0)
                        if abs(pc * pr - wantj) > 1e-9:
                            fails = 'P(c=%s)P(r=%s|c) = %r but P(c,r) = %r' % (list(c), x, pc * pr, wantj)
                            break
                    if not fails and abs(tot - 1) > 1e-9:
                        fails = 'conditional given %s sums to %r' % (list(c), tot)
                    if not fails and cd['base'] != base:
                        fails = 'conditional has base %r' % (cd['base'],)
                    if not fails:
                        # every joint outcome above c must be an outcome of the conditional
                        have = set(tuple(x) for x in cd['space'])
                        for (c2, x2), p2 in joint.items():
                            if c2 == c and p2 > 1e-9 and x2 not in have:
                                fails = 'P(c=%s, r=%s) = %r but r is not an outcome of the conditional' % (
                                    list(c), list(x2), p2)
                                break
                    if fails:
                        break
            return fails

        fails = check_factors(oc, ocs, len(conds))
        if not fails and names and not (scal_c or scal_r):
            wn_c = [names[i] for i in crvs]
            wn_r = [names[i] for i in idx]
            if list(cdist.get_rv_names() or []) != wn_c:
                fails = 'names of the conditioning marginal: %s' % (cdist.get_rv_names(),)
            elif conds and list(conds[0].get_rv_names() or []) != wn_r:
                fails = 'names of the conditionals: %s' % (conds[0].get_rv_names(),)
        if not fails and not case['extract'] and conds:
            # masks complementary within the union, recombination
            union = sorted(crvs + idx)
            # the joint over the conditioned and kept variables, from the definition (fibre sums of the source table)
            fibre = {}
            for o, p in rows:
                u = tuple(o[i] for i in union)
                fibre[u] = fibre.get(u, 0.0) + p

            def check_joint(j, which):
                oj = obs_dist(j, case, union)
                got = {tuple(o): gen.lin_of(v, j.get_base()) for o, v in zip(oj['space'], oj['lookups'])}
                for o, p in fibre.items():
                    if abs(got.get(o, 0.0) - p) > 1e-9:
                        return got, '%sjoint_from_factors gives P(%s) = %r, the fibre sum of the joint is %r' % (
                            which, list(o), got.get(o, 0.0), p)
                for o, p in got.items():
                    if abs(p - fibre.get(o, 0.0)) > 1e-9:
                        return got, '%sjoint_from_factors gives P(%s) = %r, the fibre sum of the joint is %r' % (
                            which, list(o), p, fibre.get(o, 0.0))
                if names and list(j.get_rv_names() or []) != [names[i] for i in union]:
                    return got, '%sjoint_from_factors names %s, expected %s' % (which, j.get_rv_names(),
                                                                                [names[i] for i in union])
                return got, None
            try:
                j = dit.joint_from_factors(cdist, conds, strict=True)
                ref = d.marginal(union, rv_mode='indices')
                oj, orf = obs_dist(j, case, union), obs_dist(ref, case, union)
                got = {tuple(o): lin(v) if j.get_base() == base else gen.lin_of(v, j.get_base())
                       for o, v in zip(oj['space'], oj['lookups'])}
                want = {tuple(o): lin(v) for o, v in zip(orf['space'], orf['lookups'])}
                for o, p in want.items():
                    if abs(got.get(o, 0.0) - p) > 1e-9:
                        fails = 'joint_from_factors gives P(%s) = %r, the joint marginal has %r' % (list(o), got.get(o, 0.0), p)
                        break
                if not fails and any(p > 1e-9 and o not in want for o, p in got.items()):
                    fails = 'joint_from_factors has an extra outcome'
                if not fails and names and list(j.get_rv_names() or []) != [names[i] for i in union]:
                    fails = 'joint_from_factors names %s, expected %s' % (j.get_rv_names(), [names[i] for i in union])
                if not fails:
                    fails = check_joint(j, '')[1]
                # model recombination (mask: True = position of a conditioning variable)
                if not fails and not r.mismatch and mo is not None:
                    mask = [i in crvs for i in union]
                    mt = drv.call('jff', [mask, mo[0][2], [x[2] for x in mo[1]]])
                    mtab = {tuple(o): float(Fraction(v)) for o, v in mt}
                    for o, p in mtab.items():
                        if abs(got.get(o, 0.0) - p) > 1e-9:
                            r.mismatch = 'joint_from_factors: P(%s) impl %r model %r' % (list(o), got.get(o, 0.0), p)
                            break
            except Exception as e:  # noqa
                fails = 'joint_from_factors raised %s: %s' % (type(e).__name__, str(e)[:150])
            # ---- the same factors, used again: "those factors" are values; recombining them must neither consume nor
            # alter them, and the source keeps its table
            if not fails:
                r.features.append('factors-reused')
                oc2 = obs_dist(cdist, case, crvs, scal_c)
                ocs2 = [obs_dist(x, case, idx, scal_r) for x in conds]
                again = check_factors(oc2, ocs2, len(conds))
                if again:
                    fails = 'after joint_from_factors(cdist, conds) the same factors no longer factorise the joint: ' + again
                elif not same_obs(oc2, oc):
                    fails = 'joint_from_factors changed the marginal it was given: %s -> %s' % (oc['tab'], oc2['tab'])
                elif not same_obs(ocs2, ocs):
                    k = [a for a in range(len(ocs)) if not same_obs(ocs[a], ocs2[a])][0]
                    fails = 'joint_from_factors changed the conditional #%d it was given: %s -> %s' % (
                        k, ocs[k]['tab'], ocs2[k]['tab'])
                elif not same_obs(obs_dist(d, case, range(n)), src):
                    fails = 'joint_from_factors changed the source distribution'
                else:
                    try:
                        j2 = dit.joint_from_factors(cdist, conds, strict=True)
                        fails = check_joint(j2, 'second ')[1]
                    except Exception as e:  # noqa
                        fails = 'second joint_from_factors on the same factors raised %s: %s' % (type(e).__name__,
                                                                                                  str(e)[:150])
        # ---------------- the same factors in another representation (base, dense / sparse, stacked as an array)
        if not fails:
            fails = self.other_representations(dit, r, case, d, cdist, conds, oc, ocs, joint, rows,
                                               dict(crvs=crvs, idx=idx, scal_c=scal_c, scal_r=scal_r, src=src,
                                                    nm=nm, rv_mode=rv_mode))
        r.oracle_fail = fails
        return r

    def other_representations(self, dit, r, case, d, cdist, conds, oc, ocs, joint, rows, ctx):
        """The statement holds "in linear or log base", for sparse and dense representations: the factors copied
        into another base / mode (copypmf), stacked (cdist_array), and recombined from another presentation of the
        marginal.  Returns the first failing clause or None; sets r.site to the function that failed."""
        from dit.cdisthelpers import cdist_array
        base = case['base']
        n = case['n']
        names = case.get('names')
        crvs, idx = ctx['crvs'], ctx['idx']
        scal_c, scal_r = ctx['scal_c'], ctx['scal_r']
        more = case.get('more') or {'bases': TARGET_BASES}
        targets = list(more['bases'])
        r.features += ['target-base=%s' % (b,) for b in targets]
        stored_c = [tuple(o) for o, _ in oc['tab']]

        # ---- copypmf: the same numbers in the requested base, for the marginal and for every conditional
        msg = copies_fail(dit, cdist, 'marginal', targets)
        for i, x in enumerate(conds):
            if msg:
                break
            msg = copies_fail(dit, x, 'conditional #%d' % i, targets)
        if msg:
            r.site = 'copypmf'
            return msg

        # ---- cdist_array: row i is P(.|c_i); P(c_i) * row equals the joint, in every base
        if conds:
            for mode in MODES:
                want0 = [expected_copy(x, mode) for x in conds]
                if any(w is None for w in want0):
                    continue
                if len(set(len(w) for w in want0)) != 1:
                    # sparse conditionals with different numbers of stored outcomes do not form a 2D array
                    r.features.append('ragged-%s' % mode)
                    continue
                for b in targets:
                    eff = base if b is None else b
                    try:
                        arr = cdist_array(conds, base=b, mode=mode)
                        arr = [[float(v) for v in row] for row in arr]
                    except Exception as e:  # noqa
                        r.site = 'cdist_array'
                        return 'cdist_array(conds, base=%r, mode=%r) raised %s: %s' % (b, mode, type(e).__name__,
                                                                                       str(e)[:120])
                    if len(arr) != len(conds) or any(len(row) != len(w) for row, w in zip(arr, want0)):
                        r.site = 'cdist_array'
                        return 'cdist_array(conds, base=%r, mode=%r) has shape %s, expected %d x %d' % (
                            b, mode, [len(row) for row in arr], len(conds), len(want0[0]))
                    for i, (row, w0) in enumerate(zip(arr, want0)):
                        for k, (a, v) in enumerate(zip(row, w0)):
                            w = conv_value(v, base, b)
                            if not repr_agrees(a, w, eff):
                                r.site = 'cdist_array'
                                return 'cdist_array(conds, base=%r, mode=%r)[%d][%d] = %r, the conditional stores %r ' \
                                       '(base %r), i.e. %r in base %r' % (b, mode, i, k, a, v, base, w, eff)
                        if mode == 'dense':
                            pc = gen.lin_of(oc['tab'][i][1], base)
                            for x, a in zip(ocs[i]['space'], row):
                                wantj = joint.get((stored_c[i], tuple(x)), 0.0)
                                if not abs(pc * gen.lin_of(a, eff) - wantj) <= 1e-9:
                                    r.site = 'cdist_array'
                                    return 'P(c=%s) * cdist_array(conds, base=%r, mode=dense)[%d][r=%s] = %r but ' \
                                           'P(c,r) = %r' % (list(stored_c[i]), b, i, x, pc * gen.lin_of(a, eff), wantj)
            r.features.append('stacked')
        if not same_obs(obs_dist(cdist, case, crvs, scal_c), oc) or \
                not same_obs([obs_dist(x, case, idx, scal_r) for x in conds], ocs):
            r.site = 'copypmf'
            return 'copypmf / cdist_array changed a distribution they were given'

        # ---- joint_from_factors from other presentations of the same marginal
        if case['extract'] or not conds:
            return None
        union = sorted(crvs + idx)
        marg = {}
        for o, p in rows:
            c = tuple(o[i] for i in crvs)
            marg[c] = marg.get(c, 0.0) + p

        def recombine(label, mdist, strict, positions):
            """joint_from_factors(mdist, conds, strict) is the joint over `positions` (fibre sums of the source)."""
            fibre = {}
            for o, p in rows:
                u = tuple(o[i] for i in positions)
                fibre[u] = fibre.get(u, 0.0) + p
            before = obs_dist(mdist, case, crvs)
            try:
                j = dit.joint_from_factors(mdist, conds, strict=strict)
                oj = obs_dist(j, case, positions)
            except Exception as e:  # noqa
                return 'joint_from_factors(%s) raised %s: %s' % (label, type(e).__name__, str(e)[:150])
            got = {tuple(o): gen.lin_of(v, j.get_base()) for o, v in zip(oj['space'], oj['lookups'])}
            for o in list(fibre) + list(got):
                if not abs(got.get(o, 0.0) - fibre.get(o, 0.0)) <= 1e-9:
                    return 'joint_from_factors(%s) gives P(%s) = %r over the variables %s, the fibre sum of the joint is ' \
                           '%r' % (label, list(o), got.get(o, 0.0), list(positions), fibre.get(o, 0.0))
            if names and list(j.get_rv_names() or []) != [names[i] for i in positions]:
                return 'joint_from_factors(%s) names %s, expected %s' % (label, j.get_rv_names(),
                                                                        [names[i] for i in positions])
            if not same_obs(obs_dist(mdist, case, crvs), before):
                return 'joint_from_factors(%s) changed the marginal it was given' % label
            if not same_obs([obs_dist(x, case, idx, scal_r) for x in conds], ocs):
                return 'joint_from_factors(%s) changed a conditional it was given' % label
            return None

        r.site = 'joint_from_factors'
        # masks are complementary: strict or not, the variable order is restored
        msg = recombine('cdist, conds, strict=False', cdist, False, union)
        if msg:
            return msg
        # A marginal that stores its zero-probability outcomes is longer than the list of conditionals and is made sparse
        # in the linear domain by joint_from_factors.  Not judged (null-tolerance class, DESIGN 11): a log-base marginal
        # with a positive conditioning probability <= 1e-8, which that step drops.
        subnull = base != 'linear' and any(0 < p <= 1.01e-8 for p in marg.values())
        try:
            dense = cdist.copy()
            dense.make_dense()
            whole = d.marginal(ctx['nm'](case['crvs']), rv_mode=ctx['rv_mode'])
        except Exception as e:  # noqa
            return 'presenting the marginal again raised %s: %s' % (type(e).__name__, str(e)[:150])
        for label, m in (('dense copy of cdist', dense), ('d.marginal(crvs)', whole)):
            longer = len(m) > len(conds)
            if longer and subnull:
                r.features.append('longer-marginal-subnull-not-judged')
                continue
            r.features.append('marginal-longer=%s' % longer)
            if m is dense or len(union) == n:
                msg = recombine('%s, conds, strict=True' % label, m, True, union)
            else:
                # variables were dropped: the mask of d.marginal(crvs) speaks about all n variables, the masks are not
                # complementary, and strict=False puts the conditioning variables first
                r.features.append('masks-incompatible')
                msg = recombine('%s, conds, strict=False' % label, m, False, crvs + idx)
            if msg:
                return msg
        if not same_obs(obs_dist(d, case, range(n)), ctx['src']):
            return 'joint_from_factors changed the source distribution'
        r.site = 'Distribution.condition_on'
        return None


PROP = C03()
