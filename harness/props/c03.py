"""
C03 — Conditioning factorises the joint, P(c)P(r|c)=P(c,r), and factors recombine.
"""
from fractions import Fraction

import core
import gen
from canon import exc_enum
from env import import_dit


class C03(object):
    id = 'C03'
    rule = ("joint distributions of 2..4 variables (zero-probability conditioning values when dense/untrimmed, rows with "
            "different supports, 6 bases, names, custom spaces) x disjoint (crvs, rvs) with rvs possibly None, dropped "
            "variables, interleaved positions, extract with singletons; condition_on then joint_from_factors; "
            "non-trivial = at least two conditioning outcomes of positive probability and a conditional with >= 2 "
            "outcomes")
    tolerances = {'values': 'rtol 1e-9 in the linear domain (a division is involved)'}
    exhaustive = {}

    def gen(self, rng, tier):
        n_cases = 220 if tier == 'quick' else 30000
        for _ in range(n_cases):
            c = gen.rand_dist_case(rng, nmin=2, nmax=4)
            n = c['n']
            k = rng.randint(1, n - 1)
            crvs = sorted(rng.sample(range(n), k))
            rest = [i for i in range(n) if i not in crvs]
            if rng.random() < 0.4:
                rvs = None
            elif rng.random() < 0.08:
                rvs = []            # explicitly no variable: each conditional is the trivial distribution
            else:
                rvs = sorted(rng.sample(rest, rng.randint(1, len(rest))))
            # the caller may list the variables in any order; condition_on keeps variable order
            crvs = list(crvs)
            rng.shuffle(crvs)
            if rvs is not None:
                rvs = list(rvs)
                rng.shuffle(rvs)
            c['crvs'] = crvs
            c['rvs'] = rvs
            c['byname'] = bool(c['names']) and rng.random() < 0.5
            c['extract'] = rng.random() < 0.3
            yield c

    def shrink(self, case):
        outs, pmf = case['outs'], [Fraction(p) for p in case['pmf']]
        if len(outs) > 1:
            for i in range(len(outs)):
                rest = [p for j, p in enumerate(pmf) if j != i]
                tot = sum(rest)
                if tot <= 0:
                    continue
                c = dict(case)
                c['outs'] = [o for j, o in enumerate(outs) if j != i]
                c['pmf'] = [str(p / tot) for p in rest]
                yield c
        for key, val in (('base', 'linear'), ('names', None), ('space', None), ('sparse', True), ('trim', True),
                         ('extract', False)):
            if case.get(key) != val:
                c = dict(case)
                c[key] = val
                if key == 'names':
                    c['byname'] = False
                yield c

    def run(self, case, drv):
        dit = import_dit()
        r = core.Result()
        r.site = 'Distribution.condition_on'
        klass = case['klass']
        n = case['n']
        names = case.get('names')
        crvs_arg = case['crvs']
        rvs_arg = case['rvs']
        crvs = sorted(crvs_arg)
        rvs = None if rvs_arg is None else sorted(rvs_arg)
        idx = rvs if rvs is not None else [i for i in range(n) if i not in crvs]
        r.features = gen.case_features(case) + ['rvsNone=%s' % (rvs is None), 'byname=%s' % case['byname'],
                                                'extract=%s' % case['extract'], 'dropped=%d' % (n - len(crvs) - len(idx))]
        base = case['base']
        d = gen.build(case)
        mj = drv.call('construct', gen.model_construct_args(case))
        src = gen.obs_py(d, klass)
        if mj[0] != 'ok' or gen.compare_obs(src, gen.obs_model(mj[1])) is not None:
            r.features.append('construct-disagree')
            return r

        def nm(ix):
            return [names[i] for i in ix] if case['byname'] else list(ix)
        rv_mode = 'names' if case['byname'] else 'indices'
        try:
            cdist, conds = d.condition_on(nm(crvs_arg), None if rvs_arg is None else nm(rvs_arg), rv_mode=rv_mode,
                                          extract=case['extract'])
        except Exception as e:  # noqa
            r.oracle_fail = 'condition_on raised %s: %s' % (type(e).__name__, str(e)[:150])
            return r
        if gen.obs_py(d, klass) != src:
            r.oracle_fail = 'condition_on changed the source distribution'
            return r
        scal_c = case['extract'] and len(crvs) == 1
        scal_r = case['extract'] and len(idx) == 1

        def obs(dd, scalar):
            if not scalar:
                return gen.obs_py(dd, klass)
            u = gen.UNIVERSE[klass]
            inv = {s: i for i, s in enumerate(u)}
            return {'space': [[inv[o]] for o in dd.sample_space()], 'alphabets': [sorted(inv[s] for s in dd.alphabet)],
                    'tab': [[[inv[o]], float(v)] for o, v in zip(dd.outcomes, dd.pmf)], 'sparse': bool(dd.is_sparse()),
                    'base': dd.get_base(), 'lookups': [float(dd[o]) for o in dd.sample_space()]}
        oc = obs(cdist, scal_c)
        ocs = [obs(x, scal_r) for x in conds]

        # ---------------- model
        mo = drv.call('condition', [mj[2], crvs, idx])
        mc = gen.obs_model(mo[0])
        mcs = [gen.obs_model(x) for x in mo[1]]
        pos_c = [o for o, v in oc['tab'] if gen.lin_of(v, base) > 0]
        r.nontrivial = len(pos_c) >= 2 and any(len(x['tab']) >= 2 for x in ocs)

        diff = gen.compare_obs(oc, mc, check_alphabets=not scal_c)
        if diff:
            r.mismatch = 'marginal on the conditioning variables: ' + diff
        elif len(ocs) != len(mcs):
            r.mismatch = 'number of conditionals: impl %d model %d' % (len(ocs), len(mcs))
        else:
            for i, (a, b) in enumerate(zip(ocs, mcs)):
                diff = gen.compare_obs(a, b, check_alphabets=not scal_r)
                if diff:
                    r.mismatch = 'conditional #%d: %s' % (i, diff)
                    break
        r.detail = {'impl_cdist': oc, 'model_cdist': mo[0], 'n_conds': len(ocs)}

        # ---------------- oracle
        lin = lambda v: gen.lin_of(v, base)
        rows = [(o, lin(v)) for o, v in zip(src['space'], src['lookups'])]
        fails = None
        joint = {}
        marg = {}
        for o, p in rows:
            c = tuple(o[i] for i in crvs)
            x = tuple(o[i] for i in idx)
            joint[(c, x)] = joint.get((c, x), 0.0) + p
            marg[c] = marg.get(c, 0.0) + p
        stored_c = [tuple(o) for o, _ in oc['tab']]
        want_c = [c for c in [tuple(o) for o in oc['space']] if marg.get(c, 0.0) > (1e-8 if base == 'linear' else 0.0)]
        if stored_c != want_c:
            fails = 'conditioning outcomes listed %s, positive-probability ones in order are %s' % (stored_c, want_c)
        elif len(conds) != len(stored_c):
            fails = '%d conditionals for %d conditioning outcomes' % (len(conds), len(stored_c))
        else:
            for c, (_, pc), cd in zip(stored_c, oc['tab'], ocs):
                pc = lin(pc)
                tot = 0.0
                for x, v in zip(cd['space'], cd['lookups']):
                    pr = lin(v)
                    tot += pr
                    wantj = joint.get((c, tuple(x)), 0.0)
                    if abs(pc * pr - wantj) > 1e-9:
                        fails = 'P(c=%s)P(r=%s|c) = %r but P(c,r) = %r' % (list(c), x, pc * pr, wantj)
                        break
                if not fails and abs(tot - 1) > 1e-9:
                    fails = 'conditional given %s sums to %r' % (list(c), tot)
                if not fails and cd['base'] != base:
                    fails = 'conditional has base %r' % (cd['base'],)
                if fails:
                    break
        if not fails and names and not (scal_c or scal_r):
            wn_c = [names[i] for i in crvs]
            wn_r = [names[i] for i in idx]
            if list(cdist.get_rv_names() or []) != wn_c:
                fails = 'names of the conditioning marginal: %s' % (cdist.get_rv_names(),)
            elif conds and list(conds[0].get_rv_names() or []) != wn_r:
                fails = 'names of the conditionals: %s' % (conds[0].get_rv_names(),)
        if not fails and not case['extract'] and conds:
            # masks complementary within the union, recombination
            try:
                j = dit.joint_from_factors(cdist, conds, strict=True)
                union = sorted(crvs + idx)
                ref = d.marginal(union, rv_mode='indices')
                oj, orf = gen.obs_py(j, klass), gen.obs_py(ref, klass)
                got = {tuple(o): lin(v) if j.get_base() == base else gen.lin_of(v, j.get_base())
                       for o, v in zip(oj['space'], oj['lookups'])}
                want = {tuple(o): lin(v) for o, v in zip(orf['space'], orf['lookups'])}
                for o, p in want.items():
                    if abs(got.get(o, 0.0) - p) > 1e-9:
                        fails = 'joint_from_factors gives P(%s) = %r, the joint marginal has %r' % (list(o), got.get(o, 0.0), p)
                        break
                if not fails and any(p > 1e-9 and o not in want for o, p in got.items()):
                    fails = 'joint_from_factors has an extra outcome'
                if not fails and names and list(j.get_rv_names() or []) != [names[i] for i in union]:
                    fails = 'joint_from_factors names %s, expected %s' % (j.get_rv_names(), [names[i] for i in union])
                # model recombination (mask: True = position of a conditioning variable)
                if not fails and not r.mismatch:
                    mask = [i in crvs for i in union]
                    mt = drv.call('jff', [mask, mo[0][2], [x[2] for x in mo[1]]])
                    mtab = {tuple(o): float(Fraction(v)) for o, v in mt}
                    for o, p in mtab.items():
                        if abs(got.get(o, 0.0) - p) > 1e-9:
                            r.mismatch = 'joint_from_factors: P(%s) impl %r model %r' % (list(o), got.get(o, 0.0), p)
                            break
            except Exception as e:  # noqa
                fails = 'joint_from_factors raised %s: %s' % (type(e).__name__, str(e)[:150])
        r.oracle_fail = fails
        return r


PROP = C03()
