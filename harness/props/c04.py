"""
C04 — Entropies and mutual information equal their definitions on every distribution.
"""
import itertools
import math
import random
from fractions import Fraction

import core
import gen
from canon import f2bits, bits2f
from env import import_dit

ORDERS = [0, 0.5, 1, 2, 3.7, 'inf']
LOG_BASES = [2, 'e', 10, 3.5, 0.5]

# In-place changes of the SAME distribution object that may follow an evaluation; every one of them is followed by a
# second evaluation of the same quantities, which must equal the definitions on the table as it is then.
STEP_KINDS = ['setitem', 'pmfidx', 'pmfslice', 'normalize', 'rename']
STEP_TEXT = {'setitem': 'd[o] = p on every stored outcome', 'pmfidx': 'd.pmf[i] = p for every i',
             'pmfslice': 'd.pmf[:] = new probabilities', 'normalize': 'd[o] = integer weight on every stored outcome, then d.normalize()',
             'rename': 'set_rv_names(permuted names)'}


# ... and changes of the REPRESENTATION of the same object (set_base in place: linear <-> log, log -> log), after which
# the Shannon quantities are the definitions in units of the base the object has then.
ALL_BASES = ['linear'] + LOG_BASES
# what may have happened EARLIER IN THE SAME PROCESS to OTHER distributions (a prelude of unrelated work)
BEFORE_KINDS = ['set_base', 'set_base', 'copy', 'none']


def unit_of(base):
    """bits per unit of `base` (1 for linear distributions, whose entropies are in bits)."""
    return 1.0 if base == 'linear' else math.log2(gen.base_num(base))


def rand_before(rng):
    """1-3 pieces of unrelated work: a small distribution is constructed in base b0 and then rebased in place /
    copied into base b1 / left alone."""
    return [[rng.choice(ALL_BASES), rng.choice(BEFORE_KINDS), rng.choice(ALL_BASES), rng.randrange(10 ** 6)]
            for _ in range(rng.choice([1, 2, 2, 3]))]


def rand_base_steps(rng):
    return [['setbase', rng.randrange(10 ** 6)] for _ in range(rng.choice([1, 1, 2, 3]))]


def run_before(dit, H1, ops):
    """Carry out the prelude on distributions of its own; every one of them must itself have the entropy of its
    definition (in units of the base it has at that moment).  Returns None or a message."""
    for b0, kind, b1, seed in ops:
        mrng = random.Random(seed)
        k = mrng.randint(2, 4)
        w = [mrng.choice([1, 1, 2, 3, 5]) for _ in range(k)]
        probs = [Fraction(x, sum(w)) for x in w]
        href = -sum(float(q) * math.log2(float(q)) for q in probs)
        vals = [gen.log_of(q, b0) for q in probs]
        if mrng.random() < 0.3:
            o = dit.ScalarDistribution(list(range(k)), vals, base=b0)
        else:
            o = dit.Distribution([str(i) for i in range(k)], vals, base=b0)
        objs = [(o, b0, 'constructed in base %s' % b0)]
        if kind == 'set_base':
            o.set_base(b1)
            objs = [(o, b1, 'constructed in base %s, then set_base(%s) in place' % (b0, b1))]
        elif kind == 'copy':
            objs.append((o.copy(base=b1), b1, 'copy(base=%s) of a distribution constructed in base %s' % (b1, b0)))
        for obj, b, text in objs:
            v = float(H1(obj))
            ref = href / unit_of(b)
            if not math.isfinite(v) or abs(v - ref) > 1e-9 * max(1.0, abs(ref)):
                return 'entropy of %s with probabilities %s is %r, the definition gives %r (units of base %s)' % (
                    text, [str(q) for q in probs], v, ref, b)
    return None


PROBE_P = [Fraction(1, 2), Fraction(1, 4), Fraction(1, 8), Fraction(1, 8)]


def probe(dit, full):
    """The Shannon-type quantities of a FRESH linear distribution (1/2, 1/4, 1/8, 1/8) on '00','01','10','11' against the
    definitions (in bits; Tsallis of order 1 in nats), and the entropy of the same probabilities freshly constructed as
    log probabilities in every base of the log family (in units of the base).  Returns None or a message."""
    try:
        return probe_(dit, full)
    except Exception as e:  # noqa
        return 'constructing a fresh distribution with probabilities (1/2, 1/4, 1/8, 1/8) / evaluating its entropy raised %s: %s' % (
            type(e).__name__, str(e)[:150])


def probe_(dit, full):
    from dit.shannon import entropy as H1, conditional_entropy, mutual_information
    from dit.other import renyi_entropy, tsallis_entropy, extropy, perplexity
    ps = [float(q) for q in PROBE_P]

    def h(qs):
        return -sum(q * math.log2(q) for q in qs if q > 0)
    s = dit.ScalarDistribution(ps)
    got = [('entropy(ScalarDistribution)', float(H1(s)), h(ps))]
    if full:
        j = dit.Distribution(['00', '01', '10', '11'], ps)
        h0, h1_, h01 = h([ps[0] + ps[1], ps[2] + ps[3]]), h([ps[0] + ps[2], ps[1] + ps[3]]), h(ps)
        got += [('entropy(joint)', float(H1(j)), h01), ('H(X0)', float(H1(j, [0])), h0),
                ('H(X0|X1)', float(conditional_entropy(j, [0], [1])), h01 - h1_),
                ('I(X0:X1)', float(mutual_information(j, [0], [1])), h0 + h1_ - h01),
                ('renyi(1)', float(renyi_entropy(j, 1)), h01),
                ('tsallis(1)', float(tsallis_entropy(j, 1)), h01 * math.log(2)),
                ('extropy(ScalarDistribution)', float(extropy(s)), -sum((1 - q) * math.log2(1 - q) for q in ps)),
                ('perplexity(joint)', float(perplexity(j)), 2 ** h01)]
    for b in LOG_BASES:
        o = dit.ScalarDistribution(list(range(len(ps))), [gen.log_of(q, b) for q in PROBE_P], base=b)
        got.append(('entropy(ScalarDistribution constructed in base %s, in units of the base)' % b, float(H1(o)), h(ps) / unit_of(b)))
    for label, v, ref in got:
        if not math.isfinite(v) or abs(v - ref) > 1e-9 * max(1.0, abs(ref)):
            return '%s of a freshly constructed distribution with probabilities (1/2, 1/4, 1/8, 1/8) is %r, the definition gives %r' % (label, v, ref)
    return None


def rand_names(rng, n):
    """Single-character or integer variable names in ARBITRARY order (the order of the names is unrelated to the order
    of the columns; integer names may be a permutation of the column indices)."""
    kind = rng.choice(['letters', 'letters', 'ints', 'ints-perm'])
    if kind == 'letters':
        return rng.sample(list('ABCXYZabcxyz'), n)
    if kind == 'ints-perm':
        p = list(range(n))
        rng.shuffle(p)
        return p
    return rng.sample(range(10), n)


def rand_steps(rng, case):
    kinds = [k for k in STEP_KINDS if k != 'rename' or (case.get('names') and case['n'] > 1)]
    return [[rng.choice(kinds), rng.randrange(10 ** 6)] for _ in range(rng.choice([1, 1, 2]))]


def new_weights(seed, k):
    """k small non-negative integer weights, at least one positive (derived from the step's seed so that a case stays a
    plain JSON value whatever the number of stored outcomes turns out to be)."""
    mrng = random.Random(seed)
    w = [mrng.choice([0, 1, 1, 2, 3, 4, 7, 12]) for _ in range(k)]
    if sum(w) == 0:
        w[mrng.randrange(k)] = 1
    return w, mrng


class C04(object):
    id = 'C04'
    rule = ("scalar and joint linear distributions (with stored / unstored zeros, deterministic, uniform, near-degenerate "
            "1-2^-40) of 1..4 variables; Shannon entropy H(X), conditional entropy H(X|Y), mutual information I(X:Y) for "
            "random subsets X, Y incl. empty and overlapping ones (all pairs of subsets for n <= 3 in the thorough tier, "
            "for n = 3 also by name under every assignment of three names to the columns), "
            "by index or by name (names: single letters or integers in ARBITRARY order relative to the columns, incl. "
            "integer names that permute the column indices; rv_mode explicit or left to the distribution); Renyi / Tsallis "
            "of orders {0, 1/2, 1, 2, 3.7, inf}, extropy, perplexity, binary-entropy and binary-extropy form (a float argument); "
            "the entropy of the whole joint distribution with rvs left out; a family of the same distributions stored as "
            "log probabilities (bases 2, e, 10, 3.5, 0.5; scalar and joint) for the Shannon quantities, extropy and "
            "perplexity, judged against the definitions in units of the distribution's base (perplexity is free of "
            "the base); about half of the cases continue "
            "on the SAME object with 1-2 in-place changes (d[o]=p on stored outcomes, d.pmf[i]=p, d.pmf[:]=..., integer "
            "weights + normalize(), set_rv_names with permuted names), each followed by a second evaluation of the same "
            "quantities against the definitions on the then-current table; Shannon / extropy / perplexity cases (linear "
            "and log families) may instead continue with 1-3 in-place set_base changes of the same object (linear <-> log, "
            "log -> log), judged in units of the base the object has then; about a third of all cases start with a prelude "
            "of unrelated work in the same process (1-3 other distributions constructed in a base and rebased in place / "
            "copied into another base, each judged against its own definition) and every case ends with the quantities "
            "of a freshly constructed linear distribution against the definitions; "
            "non-trivial = at least two positive probabilities and a non-empty X")
    tolerances = {'values': 'atol 1e-9 (Float evaluation of the model definitions vs NumPy)'}
    exhaustive = {'thorough': True}

    def gen(self, rng, tier):
        n_cases = 300 if tier == 'quick' else 30000
        n_named = 80 if tier == 'quick' else 4000
        if tier == 'thorough':
            for n in (1, 2, 3):
                base = gen.rand_dist_case(rng, nmin=n, nmax=n, bases=['linear'], allow_space=False, allow_names=False)
                subs = [list(s) for r in range(0, n + 1) for s in itertools.combinations(range(n), r)]
                for X in subs:
                    for Y in subs:
                        c = dict(base)
                        c.update({'what': 'shannon', 'X': X, 'Y': Y, 'byname': False, 'scalar': False})
                        yield c
                if n == 3:
                    # the same pairs addressed by name, for every assignment of three names to the three columns
                    for fam in (['a', 'b', 'c'], [0, 1, 2]):
                        for perm in itertools.permutations(fam):
                            for X in subs:
                                for Y in subs:
                                    c = dict(base)
                                    c.update({'what': 'shannon', 'X': X, 'Y': Y, 'byname': True, 'scalar': False,
                                              'names': list(perm), 'implicit': bool((len(X) + len(Y)) % 2)})
                                    yield c
                if n >= 2:
                    # ... and every pair once more after each kind of in-place change of the same object
                    for kind in STEP_KINDS:
                        for X in subs:
                            for Y in subs:
                                c = dict(base)
                                c.update({'what': 'shannon', 'X': X, 'Y': Y, 'byname': kind == 'rename', 'scalar': False,
                                          'names': (['q', 'p', 'r'][:n] if kind == 'rename' else None),
                                          'then': [[kind, rng.randrange(10 ** 6)]]})
                                yield c
        for _ in range(n_cases):
            what = rng.choice(['shannon', 'shannon', 'renyi', 'tsallis', 'other'])
            c = gen.rand_dist_case(rng, nmin=1, nmax=4, bases=['linear'])
            n = c['n']
            c['what'] = what
            c['X'] = sorted(rng.sample(range(n), rng.randint(0, n)))
            c['Y'] = sorted(rng.sample(range(n), rng.randint(0, n)))
            if c['names'] and rng.random() < 0.6:
                c['names'] = rand_names(rng, n)
            c['byname'] = bool(c['names']) and rng.random() < 0.5
            c['implicit'] = rng.random() < 0.3
            c['scalar'] = n == 1 and c['space'] is None and rng.random() < 0.4
            c['order'] = rng.choice(ORDERS)
            c['rvs'] = rng.random() < 0.5
            if what != 'shannon' and c.get('style') == 'near-degenerate' and c['rvs']:   # (only marginal() trims; the whole distribution keeps them)
                # marginal() drops probabilities within the library's null tolerance (1e-8) by design; orders
                # below one are discontinuous there, so the near-degenerate family uses 2^-20 for these measures
                k = len(c['pmf'])
                eps = Fraction(1, 2 ** 20)
                big = max(range(k), key=lambda i: Fraction(c['pmf'][i]))
                c['pmf'] = [str(1 - (k - 1) * eps) if i == big else str(eps) for i in range(k)]
            c['then'] = rand_steps(rng, c) if rng.random() < 0.5 else []
            if what in ('shannon', 'other') and rng.random() < 0.2:
                c['then'] = rand_base_steps(rng)
            if rng.random() < 0.35:
                c['before'] = rand_before(rng)
            yield c
        # variables addressed by name on three or four columns, names in arbitrary order (any grouping of the columns
        # into X and Y, in the order the caller happens to list them)
        for _ in range(n_named):
            c = gen.rand_dist_case(rng, nmin=3, nmax=4, bases=['linear'])
            n = c['n']
            c['what'] = rng.choice(['shannon', 'shannon', 'shannon', 'other'])
            c['names'] = rand_names(rng, n)
            c['X'] = rng.sample(range(n), rng.randint(1, n))
            c['Y'] = rng.sample(range(n), rng.randint(0, n))
            c['byname'] = True
            c['implicit'] = rng.random() < 0.3
            c['scalar'] = False
            c['order'] = 1
            c['rvs'] = True
            if c['what'] != 'shannon':
                gen.avoid_subnull(c)
            c['then'] = rand_steps(rng, c) if rng.random() < 0.3 else []
            if rng.random() < 0.35:
                c['before'] = rand_before(rng)
            yield c
        # the same quantities on distributions stored as log probabilities: "the entropy is calculated in whatever base
        # matches the distribution's pmf" (entropy / extropy have a branch of their own for them).  Renyi and Tsallis
        # are NOT generated here: they read the stored logarithms as probabilities (reported, not judged).
        for _ in range(90 if tier == 'quick' else 6000):
            c = gen.rand_dist_case(rng, nmin=1, nmax=4, bases=LOG_BASES)
            n = c['n']
            c['what'] = rng.choice(['shannon', 'shannon', 'other'])
            c['X'] = sorted(rng.sample(range(n), rng.randint(0, n)))
            c['Y'] = sorted(rng.sample(range(n), rng.randint(0, n)))
            if c['names'] and rng.random() < 0.6:
                c['names'] = rand_names(rng, n)
            c['byname'] = bool(c['names']) and rng.random() < 0.5
            c['implicit'] = rng.random() < 0.3
            c['scalar'] = n == 1 and c['space'] is None and rng.random() < 0.4
            c['order'] = 1
            c['rvs'] = rng.random() < 0.5
            if c['what'] != 'shannon':
                gen.avoid_subnull(c)
            c['then'] = rand_base_steps(rng) if rng.random() < 0.5 else []
            if rng.random() < 0.35:
                c['before'] = rand_before(rng)
            yield c

    def shrink(self, case):
        outs, pmf = case['outs'], [Fraction(p) for p in case['pmf']]
        if len(outs) > 1:
            for i in range(len(outs)):
                rest = [p for j, p in enumerate(pmf) if j != i]
                tot = sum(rest)
                if tot <= 0:
                    continue
                c = dict(case)
                c['outs'] = [o for j, o in enumerate(outs) if j != i]
                c['pmf'] = [str(p / tot) for p in rest]
                yield c
        then = case.get('then') or []
        for i in range(len(then)):
            c = dict(case)
            c['then'] = then[:i] + then[i + 1:]
            yield c
        before = case.get('before') or []
        for i in range(len(before)):
            c = dict(case)
            c['before'] = before[:i] + before[i + 1:]
            yield c
        for key, val in (('sparse', True), ('trim', True), ('space', None), ('byname', False), ('implicit', False)):
            if case.get(key, val) != val:
                c = dict(case)
                c[key] = val
                yield c

    def run(self, case, drv):
        dit = import_dit()
        from dit.shannon import entropy as H1, conditional_entropy, mutual_information
        from dit.multivariate import entropy as Hm
        from dit.other import renyi_entropy, tsallis_entropy, extropy, perplexity
        r = core.Result()
        what = case['what']
        if probe(dit, False) is not None:
            # an EARLIER case run in this process left process-wide state behind (that case has been reported: every
            # case ends with this probe); nothing this case could show would be about its own input
            r.features = ['process-state-changed-by-an-earlier-case']
            r.detail = {'skipped': probe(dit, False)}
            return r
        r.site = {'shannon': 'dit.shannon', 'renyi': 'dit.other.renyi_entropy', 'tsallis': 'dit.other.tsallis_entropy',
                  'other': 'dit.other.extropy/perplexity'}[what]
        if what == 'shannon' and case['byname']:
            r.site = 'dit.multivariate/dit.shannon(names)'
        klass = case['klass']
        n = case['n']
        names = list(case.get('names') or []) or None
        X, Y = case['X'], case['Y']
        scalar = bool(case.get('scalar'))
        steps = [list(s) for s in (case.get('then') or [])]
        if names is None:
            order = 'none'
        else:
            order = 'columns' if sorted(names) == names else 'other'
        r.features = ['what=%s' % what, 'n=%d' % n, 'byname=%s' % case['byname'], 'scalar=%s' % case.get('scalar'),
                      'sparse=%s' % case['sparse'], 'trim=%s' % case['trim'],
                      'zeros=%s' % any(Fraction(p) == 0 for p in case['pmf']), 'emptyX=%s' % (not X),
                      'overlap=%s' % bool(set(X) & set(Y)),
                      'name-order=%s' % order,
                      'name-type=%s' % ('none' if names is None else type(names[0]).__name__),
                      'vars-in-XuY=%d' % len(set(X) | set(Y)),
                      'base=%s' % case.get('base', 'linear'),
                      'steps=%d' % len(steps)] + ['step=%s' % k for k, _ in steps]
        before = [list(b) for b in (case.get('before') or [])]
        r.features += ['before=%d' % len(before)] + ['before=%s:%s->%s' % (
            b[1], 'log2' if b[0] == 2 else 'linear' if b[0] == 'linear' else 'log', 'log2' if b[2] == 2 else 'linear' if b[2] == 'linear' else 'log')
            for b in before if b[1] != 'none']
        base = case.get('base', 'linear')
        logb = base != 'linear'
        base_steps = any(k == 'setbase' for k, _ in steps)
        if (logb or base_steps) and (what not in ('shannon', 'other') or any(k != 'setbase' for k, _ in steps)):
            raise ValueError('log-base cases: Shannon quantities, extropy, perplexity; in-place changes of the base only')
        if before:
            try:
                msg = run_before(dit, H1, before)
            except Exception as e:  # noqa
                msg = 'raised %s: %s' % (type(e).__name__, str(e)[:150])
            if msg:
                r.site = 'dit.shannon(unrelated distributions, base changes)'
                r.oracle_fail = 'unrelated work before the case: ' + msg
                return r
        if scalar and logb:
            u = gen.UNIVERSE[klass]
            d = dit.ScalarDistribution([u[o[0]] for o in case['outs']], [gen.log_of(Fraction(p), base) for p in case['pmf']],
                                       base=base, sparse=case['sparse'], trim=case['trim'])
        elif scalar:
            u = gen.UNIVERSE[klass]
            d = dit.ScalarDistribution([u[o[0]] for o in case['outs']], [float(Fraction(p)) for p in case['pmf']],
                                       sparse=case['sparse'], trim=case['trim'])
        else:
            d = gen.build(case)
        # how the variables are addressed: by column index, or by the name the column has at that moment
        byname = bool(case['byname']) and names is not None
        if case.get('implicit') and (byname or names is None):
            rv_mode = None        # left to the distribution: names when it has names, indices otherwise
            r.features.append('rv_mode=implicit')
        else:
            rv_mode = 'names' if byname else 'indices'
        # the base the object has at the moment (in-place set_base steps change it); a log distribution's entropies
        # come in units of its base: value in bits / log2(base)
        state = {'names': names, 'base': base}

        def table():
            # stored outcomes with their LINEAR probabilities (a log distribution's stored values exponentiated)
            return [(gen.from_py(o, klass) if not scalar else [gen.UNIVERSE[klass].index(o)],
                     gen.lin_of(v, state['base']) if state['base'] != 'linear' else float(v))
                    for o, v in zip(d.outcomes, d.pmf)]

        def U(x):
            return x / unit_of(state['base']) if state['base'] != 'linear' else x

        def nm(idx):
            return [state['names'][i] for i in idx] if byname else list(idx)

        def evaluate(rows):
            """(label, impl value, model value, reference value) for the case's quantities on the table `rows` (the
            references are the definitions evaluated on `rows`, by column index)."""
            ftab = [[o, f2bits(v)] for o, v in rows]

            def Href(S):
                m = {}
                for o, p in rows:
                    key = tuple(o[i] for i in sorted(set(S)))
                    m[key] = m.get(key, 0.0) + p
                return -sum(p * math.log2(p) for p in m.values() if p > 0)

            checks = []
            if what == 'shannon':
                if scalar:
                    v = float(H1(d))
                    mv = bits2f(drv.call('entf', ['entropy', None, [f2bits(p) for _, p in rows]]))
                    checks.append(('entropy(scalar)', v, U(mv), U(Href([0]))))
                else:
                    sX, sY = sorted(X), sorted(Y)
                    hx = float(H1(d, nm(X), rv_mode=rv_mode))
                    checks.append(('H(X)', hx, U(bits2f(drv.call('combf', ['entropy', 0, [sX], [], ftab]))), U(Href(X))))
                    hxy = float(conditional_entropy(d, nm(X), nm(Y), rv_mode=rv_mode))
                    ref = Href(sorted(set(X) | set(Y))) - Href(Y)
                    checks.append(('H(X|Y)', hxy, U(bits2f(drv.call('combf', ['entropy', 0, [sX], sY, ftab]))), U(ref)))
                    mi = float(mutual_information(d, nm(X), nm(Y), rv_mode=rv_mode))
                    refmi = Href(X) + Href(Y) - Href(sorted(set(X) | set(Y)))
                    checks.append(('I(X:Y)', mi, U(bits2f(drv.call('combf', ['cmi', 0, [sX, sY], [], ftab]))), U(refmi)))
                    if X and not (set(X) & set(Y)):
                        hm = float(Hm(d, [nm(X)], nm(Y), rv_mode=rv_mode))
                        checks.append(('multivariate.entropy', hm, U(bits2f(drv.call('combf', ['entropy', 0, [sX], sY, ftab]))), U(ref)))
                    # the entropy of the whole joint distribution, rvs left out
                    hall = float(H1(d))
                    allv = list(range(n))
                    checks.append(('H(all variables; rvs left out)', hall,
                                   U(bits2f(drv.call('combf', ['entropy', 0, [allv], [], ftab]))), U(Href(allv))))
            else:
                rvs = nm(X) if (case.get('rvs') and X and not scalar) else None
                S = sorted(X) if rvs is not None else list(range(n))
                mj = unfl(drv.call('margf', [ftab, S])) if not scalar else [p for _, p in rows]
                ps = [p for p in mj]
                pos = [p for p in ps if p > 0]
                kw = dict(rvs=rvs, rv_mode=rv_mode) if rvs is not None else {}
                if what == 'renyi':
                    a = case['order']
                    order_ = float('inf') if a == 'inf' else a
                    v = float(renyi_entropy(d, order_, **kw))
                    mv = bits2f(drv.call('entf', ['renyi', 'inf' if a == 'inf' else f2bits(float(a)), [f2bits(p) for p in ps]]))
                    if a == 0:
                        ref = math.log2(len(pos))
                    elif a == 1:
                        ref = -sum(p * math.log2(p) for p in pos)
                    elif a == 'inf':
                        ref = -math.log2(max(pos))
                    else:
                        ref = math.log2(sum(p ** a for p in pos)) / (1 - a)
                    checks.append(('renyi(%s)' % a, v, mv, ref))
                elif what == 'tsallis':
                    a = case['order']
                    if a == 'inf':
                        a = 2
                    v = float(tsallis_entropy(d, a, **kw))
                    mv = bits2f(drv.call('entf', ['tsallis', f2bits(float(a)), [f2bits(p) for p in ps]]))
                    ref = -sum(p * math.log(p) for p in pos) if a == 1 else (1 - sum(p ** a for p in pos)) / (a - 1)
                    checks.append(('tsallis(%s)' % a, v, mv, ref))
                else:
                    v = float(extropy(d, **kw))
                    # a marginal probability that float summation leaves a few ulp above one (e.g. 2/29+2/29+20/29+3/29+2/29)
                    # is one: the model's Float evaluation of (1-p) log2 (1-p) is NaN there (the real-number
                    # definition has p <= 1); the reference below and dit both give that term the value 0
                    pe = [1.0 if 1.0 < p <= 1.0 + 1e-15 else p for p in ps]
                    mv = bits2f(drv.call('entf', ['extropy', None, [f2bits(p) for p in pe]]))
                    ref = -sum((1 - p) * math.log2(1 - p) for p in ps if p < 1)
                    checks.append(('extropy', v, U(mv), U(ref)))
                    v2 = float(perplexity(d, **({'rvs': rvs, 'rv_mode': rv_mode} if rvs is not None else {})))
                    mv2 = bits2f(drv.call('entf', ['perplexity', None, [f2bits(p) for p in ps]]))
                    checks.append(('perplexity', v2, mv2, 2 ** (-sum(p * math.log2(p) for p in pos))))
                    if rvs is not None and Y and not (set(X) & set(Y)):
                        # conditional form: 2 ** H(X|Y), from the joint table
                        v3 = float(perplexity(d, rvs, nm(Y), rv_mode=rv_mode))
                        h = Href(sorted(set(X) | set(Y))) - Href(Y)
                        mh = bits2f(drv.call('combf', ['entropy', 0, [sorted(X)], sorted(Y), ftab]))
                        checks.append(('perplexity(X|Y)', v3, 2 ** mh, 2 ** h))
                    if len(ps) == 2:
                        checks.append(('binary entropy', float(H1(ps[0])), mv2 and math.log2(mv2), -sum(p * math.log2(p) for p in pos)))
                        if 0.0 <= ps[0] <= 1.0 and ps[0] + ps[1] == 1.0:
                            # binary extropy: a float argument p stands for the linear distribution (p, 1 - p), in bits
                            checks.append(('binary extropy', float(extropy(ps[0])), mv, ref))
            return checks, Href

        def apply_step(kind, seed):
            """One in-place change of `d` (the object the quantities were just computed on)."""
            if kind == 'setbase':
                mrng = random.Random(seed)
                new = mrng.choice([b for b in ALL_BASES if b != state['base']])
                d.set_base(new)
                state['base'] = new
                return 'd.set_base(%s) in place' % new
            if kind == 'rename' and (scalar or state['names'] is None or n < 2):
                kind = 'setitem'
            if kind == 'rename':
                mrng = random.Random(seed)
                cur = list(state['names'])
                new = list(cur)
                for _ in range(8):
                    mrng.shuffle(new)
                    if new != cur:
                        break
                d.set_rv_names(new)
                state['names'] = new
                return kind
            stored = list(d.outcomes)
            k = len(stored)
            w, mrng = new_weights(seed, k)
            tot = sum(w)
            probs = [float(Fraction(x, tot)) for x in w]
            if kind == 'setitem':
                for o, p in zip(stored, probs):
                    d[o] = p
            elif kind == 'pmfidx':
                idx = list(range(k))
                mrng.shuffle(idx)
                for i in idx:
                    d.pmf[i] = probs[i]
            elif kind == 'pmfslice':
                d.pmf[:] = probs
            elif kind == 'normalize':
                for o, x in zip(stored, w):
                    d[o] = float(x)
                d.normalize()
            else:
                raise ValueError(kind)
            return kind

        all_checks = []
        base_site = r.site
        stage = ' [log distribution, base %s: entropies in units of the base]' % base if logb else ''
        if before:
            stage += ' [after unrelated work in the same process: %s]' % '; '.join(
                'a distribution constructed in base %s%s' % (b[0], {'set_base': ', set_base(%s) in place' % b[2], 'copy': ', copy(base=%s)' % b[2]}.get(b[1], ''))
                for b in before)
        stage0 = stage if before else ''
        done = []
        for si in range(len(steps) + 1):
            if si > 0:
                kind, seed = steps[si - 1]
                try:
                    kind = apply_step(kind, seed)
                except Exception as e:  # noqa
                    r.oracle_fail = 'in-place change (%s) raised %s: %s' % (STEP_TEXT.get(kind, kind), type(e).__name__, str(e)[:150])
                    return r
                done.append(kind if kind.startswith('d.set_base') else STEP_TEXT[kind])
                stage = ' [same object, after %s%s]' % ('; then '.join(done), '; entropies in units of base %s' % state['base']
                                                        if state['base'] != 'linear' else '') + stage0
                if not r.mismatch:
                    r.site = base_site + '(after in-place change)'
            rows = table()
            raw = [float(v) for v in d.pmf]
            if si == 0:
                r.nontrivial = sum(1 for _, v in rows if v > 0) >= 2 and (what != 'shannon' or bool(X))
            try:
                checks, Href = evaluate(rows)
            except Exception as e:  # noqa
                r.oracle_fail = '%s raised %s: %s%s' % (what, type(e).__name__, str(e)[:150], stage)
                return r
            for label, v, mv, ref in checks:
                if not math.isfinite(v):
                    r.oracle_fail = '%s is not finite: %r%s' % (label, v, stage)
                elif abs(v - ref) > 1e-9 * max(1.0, abs(ref)):
                    r.oracle_fail = '%s = %r but the definition gives %r%s' % (label, v, ref, stage)
                if not r.mismatch and not (abs(v - mv) <= 1e-9 * max(1.0, abs(mv))):
                    r.mismatch = '%s: impl %r model %r%s' % (label, v, mv, stage)
                if r.oracle_fail:
                    break
            all_checks.append([(l + stage, v, mv, ref) for l, v, mv, ref in checks])
            r.detail = {'checks': all_checks[0], 'names': state['names']}
            if len(all_checks) > 1:
                r.detail['checks_after_changes'] = all_checks[1:]
            if r.oracle_fail:
                return r
            # the calls above are queries: the stored table is what it was, and asking again gives the same answers
            after = [float(v) for v in d.pmf]
            if after != raw:
                r.oracle_fail = '%s changed the stored pmf of its argument: %s -> %s%s' % (what, raw[:6], after[:6], stage)
                return r
            try:
                again = float(H1(d)) if scalar else float(H1(d, nm(list(range(n))), rv_mode=rv_mode))
                if abs(again - U(Href(list(range(n))))) > 1e-9:
                    r.oracle_fail = 'entropy of the whole distribution after the calls is %r, the definition gives %r%s' % (again, U(Href(list(range(n)))), stage)
                    return r
            except Exception as e:  # noqa
                r.oracle_fail = 'entropy after the calls raised %s%s' % (type(e).__name__, stage)
                return r
        # whatever this case did (to its own object and to the unrelated ones before it), a linear distribution
        # constructed NOW has the quantities of the definitions
        msg = probe(dit, True)
        if msg:
            r.site = 'dit.shannon(a fresh distribution after the case)'
            hist = stage if (before or steps) else ' [after the %s case on another distribution%s]' % (what, stage)
            r.oracle_fail = msg + ' -- after, in the same process:' + hist
        return r


def unfl(bs):
    return [bits2f(b) for b in bs]


PROP = C04()
