"""
C04 — Entropies and mutual information equal their definitions on every distribution.
"""
import itertools
import math
from fractions import Fraction

import core
import gen
from canon import f2bits, bits2f
from env import import_dit

ORDERS = [0, 0.5, 1, 2, 3.7, 'inf']


class C04(object):
    id = 'C04'
    rule = ("scalar and joint linear distributions (with stored / unstored zeros, deterministic, uniform, near-degenerate "
            "1-2^-40) of 1..4 variables; Shannon entropy H(X), conditional entropy H(X|Y), mutual information I(X:Y) for "
            "random subsets X, Y incl. empty and overlapping ones (all pairs of subsets for n <= 3 in the thorough tier), "
            "by index or by name; Renyi / Tsallis of orders {0, 1/2, 1, 2, 3.7, inf}, extropy, perplexity, binary-entropy "
            "form; non-trivial = at least two positive probabilities and a non-empty X")
    tolerances = {'values': 'atol 1e-9 (Float evaluation of the model definitions vs NumPy)'}
    exhaustive = {'thorough': True}

    def gen(self, rng, tier):
        n_cases = 300 if tier == 'quick' else 30000
        if tier == 'thorough':
            for n in (1, 2, 3):
                base = gen.rand_dist_case(rng, nmin=n, nmax=n, bases=['linear'], allow_space=False, allow_names=False)
                subs = [list(s) for r in range(0, n + 1) for s in itertools.combinations(range(n), r)]
                for X in subs:
                    for Y in subs:
                        c = dict(base)
                        c.update({'what': 'shannon', 'X': X, 'Y': Y, 'byname': False, 'scalar': False})
                        yield c
        for _ in range(n_cases):
            what = rng.choice(['shannon', 'shannon', 'renyi', 'tsallis', 'other'])
            c = gen.rand_dist_case(rng, nmin=1, nmax=4, bases=['linear'])
            n = c['n']
            c['what'] = what
            c['X'] = sorted(rng.sample(range(n), rng.randint(0, n)))
            c['Y'] = sorted(rng.sample(range(n), rng.randint(0, n)))
            c['byname'] = bool(c['names']) and rng.random() < 0.5
            c['scalar'] = n == 1 and c['space'] is None and rng.random() < 0.4
            c['order'] = rng.choice(ORDERS)
            c['rvs'] = rng.random() < 0.5
            if what != 'shannon' and c.get('style') == 'near-degenerate' and c['rvs']:   # (only marginal() trims; the whole distribution keeps them)
                # marginal() drops probabilities within the library's null tolerance (1e-8) by design; orders
                # below one are discontinuous there, so the near-degenerate family uses 2^-20 for these measures
                k = len(c['pmf'])
                eps = Fraction(1, 2 ** 20)
                big = max(range(k), key=lambda i: Fraction(c['pmf'][i]))
                c['pmf'] = [str(1 - (k - 1) * eps) if i == big else str(eps) for i in range(k)]
            yield c

    def shrink(self, case):
        outs, pmf = case['outs'], [Fraction(p) for p in case['pmf']]
        if len(outs) > 1:
            for i in range(len(outs)):
                rest = [p for j, p in enumerate(pmf) if j != i]
                tot = sum(rest)
                if tot <= 0:
                    continue
                c = dict(case)
                c['outs'] = [o for j, o in enumerate(outs) if j != i]
                c['pmf'] = [str(p / tot) for p in rest]
                yield c
        for key, val in (('sparse', True), ('trim', True), ('space', None), ('byname', False)):
            if case.get(key) != val:
                c = dict(case)
                c[key] = val
                yield c

    def run(self, case, drv):
        dit = import_dit()
        from dit.shannon import entropy as H1, conditional_entropy, mutual_information
        from dit.multivariate import entropy as Hm
        from dit.other import renyi_entropy, tsallis_entropy, extropy, perplexity
        r = core.Result()
        what = case['what']
        r.site = {'shannon': 'dit.shannon', 'renyi': 'dit.other.renyi_entropy', 'tsallis': 'dit.other.tsallis_entropy',
                  'other': 'dit.other.extropy/perplexity'}[what]
        if what == 'shannon' and case['byname']:
            r.site = 'dit.multivariate/dit.shannon(names)'
        klass = case['klass']
        n = case['n']
        names = case.get('names')
        X, Y = case['X'], case['Y']
        r.features = ['what=%s' % what, 'n=%d' % n, 'byname=%s' % case['byname'], 'scalar=%s' % case.get('scalar'),
                      'sparse=%s' % case['sparse'], 'trim=%s' % case['trim'],
                      'zeros=%s' % any(Fraction(p) == 0 for p in case['pmf']), 'emptyX=%s' % (not X),
                      'overlap=%s' % bool(set(X) & set(Y))]
        if case.get('scalar'):
            u = gen.UNIVERSE[klass]
            d = dit.ScalarDistribution([u[o[0]] for o in case['outs']], [float(Fraction(p)) for p in case['pmf']],
                                       sparse=case['sparse'], trim=case['trim'])
        else:
            d = gen.build(case)
        rows = [(gen.from_py(o, klass) if not case.get('scalar') else [gen.UNIVERSE[klass].index(o)], float(v))
                for o, v in zip(d.outcomes, d.pmf)]
        ftab = [[o, f2bits(v)] for o, v in rows]
        r.nontrivial = sum(1 for _, v in rows if v > 0) >= 2 and (what != 'shannon' or bool(X))
        rv_mode = 'names' if case['byname'] else 'indices'

        def nm(idx):
            return [names[i] for i in idx] if case['byname'] else list(idx)

        def Href(S):
            m = {}
            for o, p in rows:
                key = tuple(o[i] for i in S)
                m[key] = m.get(key, 0.0) + p
            return -sum(p * math.log2(p) for p in m.values() if p > 0)

        checks = []   # (label, impl value, model value, reference value)
        try:
            if what == 'shannon':
                if case.get('scalar'):
                    v = float(H1(d))
                    mv = bits2f(drv.call('entf', ['entropy', None, [f2bits(p) for _, p in rows]]))
                    checks.append(('entropy(scalar)', v, mv, Href([0])))
                else:
                    hx = float(H1(d, nm(X), rv_mode=rv_mode))
                    checks.append(('H(X)', hx, bits2f(drv.call('combf', ['entropy', 0, [X], [], ftab])), Href(X)))
                    hxy = float(conditional_entropy(d, nm(X), nm(Y), rv_mode=rv_mode))
                    ref = Href(sorted(set(X) | set(Y))) - Href(Y)
                    checks.append(('H(X|Y)', hxy, bits2f(drv.call('combf', ['entropy', 0, [X], Y, ftab])), ref))
                    mi = float(mutual_information(d, nm(X), nm(Y), rv_mode=rv_mode))
                    refmi = Href(X) + Href(Y) - Href(sorted(set(X) | set(Y)))
                    checks.append(('I(X:Y)', mi, bits2f(drv.call('combf', ['cmi', 0, [X, Y], [], ftab])), refmi))
                    if X and not (set(X) & set(Y)):
                        hm = float(Hm(d, [nm(X)], nm(Y), rv_mode=rv_mode))
                        checks.append(('multivariate.entropy', hm, bits2f(drv.call('combf', ['entropy', 0, [X], Y, ftab])), ref))
            else:
                rvs = nm(X) if (case.get('rvs') and X and not case.get('scalar')) else None
                S = X if rvs is not None else list(range(n))
                mj = unfl(drv.call('margf', [ftab, S])) if not case.get('scalar') else [p for _, p in rows]
                ps = [p for p in mj]
                pos = [p for p in ps if p > 0]
                kw = dict(rvs=rvs, rv_mode=rv_mode) if rvs is not None else {}
                if what == 'renyi':
                    a = case['order']
                    order = float('inf') if a == 'inf' else a
                    v = float(renyi_entropy(d, order, **kw))
                    mv = bits2f(drv.call('entf', ['renyi', 'inf' if a == 'inf' else f2bits(float(a)), [f2bits(p) for p in ps]]))
                    if a == 0:
                        ref = math.log2(len(pos))
                    elif a == 1:
                        ref = -sum(p * math.log2(p) for p in pos)
                    elif a == 'inf':
                        ref = -math.log2(max(pos))
                    else:
                        ref = math.log2(sum(p ** a for p in pos)) / (1 - a)
                    checks.append(('renyi(%s)' % a, v, mv, ref))
                elif what == 'tsallis':
                    a = case['order']
                    if a == 'inf':
                        a = 2
                    v = float(tsallis_entropy(d, a, **kw))
                    mv = bits2f(drv.call('entf', ['tsallis', f2bits(float(a)), [f2bits(p) for p in ps]]))
                    ref = -sum(p * math.log(p) for p in pos) if a == 1 else (1 - sum(p ** a for p in pos)) / (a - 1)
                    checks.append(('tsallis(%s)' % a, v, mv, ref))
                else:
                    v = float(extropy(d, **kw))
                    mv = bits2f(drv.call('entf', ['extropy', None, [f2bits(p) for p in ps]]))
                    ref = -sum((1 - p) * math.log2(1 - p) for p in ps if p < 1)
                    checks.append(('extropy', v, mv, ref))
                    v2 = float(perplexity(d, **({'rvs': rvs, 'rv_mode': rv_mode} if rvs is not None else {})))
                    mv2 = bits2f(drv.call('entf', ['perplexity', None, [f2bits(p) for p in ps]]))
                    checks.append(('perplexity', v2, mv2, 2 ** (-sum(p * math.log2(p) for p in pos))))
                    if len(ps) == 2:
                        checks.append(('binary entropy', float(H1(ps[0])), mv2 and math.log2(mv2), -sum(p * math.log2(p) for p in pos)))
        except Exception as e:  # noqa
            r.oracle_fail = '%s raised %s: %s' % (what, type(e).__name__, str(e)[:150])
            return r
        for label, v, mv, ref in checks:
            if not math.isfinite(v):
                r.oracle_fail = '%s is not finite: %r' % (label, v)
            elif abs(v - ref) > 1e-9 * max(1.0, abs(ref)):
                r.oracle_fail = '%s = %r but the definition gives %r' % (label, v, ref)
            if not r.mismatch and not (abs(v - mv) <= 1e-9 * max(1.0, abs(mv))):
                r.mismatch = '%s: impl %r model %r' % (label, v, mv)
            if r.oracle_fail:
                break
        r.detail = {'checks': [(l, v, mv, ref) for l, v, mv, ref in checks]}
        # the calls above are queries: the stored table is what it was, and asking again gives the same answers
        if not r.oracle_fail:
            after = [float(v) for v in d.pmf]
            if after != [p for _, p in rows]:
                r.oracle_fail = '%s changed the stored pmf of its argument: %s -> %s' % (what, [p for _, p in rows][:6], after[:6])
            else:
                try:
                    again = float(H1(d)) if case.get('scalar') else float(H1(d, nm(list(range(n))), rv_mode=rv_mode))
                    if abs(again - Href(list(range(n)))) > 1e-9:
                        r.oracle_fail = 'entropy of the whole distribution after the calls is %r, the definition gives %r' % (again, Href(list(range(n))))
                except Exception as e:  # noqa
                    r.oracle_fail = 'entropy after the calls raised %s' % type(e).__name__
        return r


def unfl(bs):
    return [bits2f(b) for b in bs]


PROP = C04()
