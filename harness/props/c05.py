"""
C05 — Multivariate information measures equal their entropy-combination definitions.
"""
import itertools
import json
import math
from fractions import Fraction

import core
import gen
import symtrace
from canon import f2bits, bits2f
from driver import unq
from env import import_dit

MEASURES = ['coinformation', 'interaction_information', 'total_correlation', 'dual_total_correlation',
            'residual_entropy', 'caekl_mutual_information', 'o_information', 'tse_complexity', 'cohesion', 'entropy']
DISJOINT = {'entropy', 'total_correlation', 'dual_total_correlation', 'residual_entropy', 'caekl_mutual_information',
            'o_information', 'tse_complexity', 'cohesion'}

# measures of the DISJOINT list that nevertheless accept overlapping / repeated / nested groups (CAEKL and entropy
# reject a variable named twice: '`rvs` contained duplicates')
OVERLAP_TOO = DISJOINT - {'caekl_mutual_information', 'entropy'}


def get_func(dit, name):
    import dit.multivariate as mv
    if name == 'entropy':
        return mv.entropy
    return getattr(mv, name)


class C05(object):
    id = 'C05'
    rule = ("joint distributions of 2..5 variables with zeros; each measure with random groupings (disjoint where the "
            "measure requires it - CAEKL, entropy -, disjoint or sharing variables / repeated / nested for the others, incl. "
            "lists in which different sub-lists of groups have the same union), conditioning "
            "subsets, k for cohesion, indices or names. Two legs: SYMBOLIC - the real function is executed with a "
            "linear-form entropy oracle and its exact rational coefficient vector is compared with the model's "
            "combination (one traced instance covers every table of that shape); NUMERIC - the float value vs the "
            "model's combination evaluated in Float on the same table. Non-trivial = >= 2 groups and a combination with "
            ">= 3 terms. Thorough: all groupings of <= 3 groups and all conditioning sets for n <= 4.")
    tolerances = {'symbolic': 'exact rational coefficients', 'numeric': 'atol 1e-9'}
    exhaustive = {'thorough': True}

    def gen_partitions(self, rng, tier):
        """dit.utils.partitions (what CAEKL minimises over) against Core/SetPart.lean `partitions1` and `setPartitions`."""
        sizes = list(range(0, 7)) if tier == 'quick' else list(range(0, 9))
        for m in sizes:
            yield {'kind': 'partitions', 'items': list(range(m)), 'measure': 'partitions', 'n': m, 'groups': [], 'crvs': [],
                   'k': 0, 'byname': False, 'pmf': []}
        for _ in range(6 if tier == 'quick' else 60):
            m = rng.randint(1, 6)
            yield {'kind': 'partitions', 'items': rng.sample(range(20), m), 'measure': 'partitions', 'n': m, 'groups': [],
                   'crvs': [], 'k': 0, 'byname': False, 'pmf': []}

    def run_partitions(self, case, drv):
        dit = import_dit()
        from dit.utils import partitions
        from dit.utils.misc import partitions1
        r = core.Result()
        r.site = 'dit.utils.partitions'
        items = case['items']
        r.features = ['kind=partitions', 'size=%d' % len(items)]
        r.nontrivial = len(items) >= 3
        # 1. the generator the code runs, in its own order
        # (below the first level the code recurses on Python sets, whose iteration order is ascending for 0..m-1 but
        # hash-dependent in general: the order of the enumeration is compared for items = range(m) only)
        got1 = [[sorted(b) for b in p] for p in partitions1(list(items))]
        want1 = [[sorted(b) for b in p] for p in drv.call('partitions1', [items])]
        if items != list(range(len(items))):
            got1, want1 = sorted(map(sorted, got1)), sorted(map(sorted, want1))
        if got1 != want1:
            r.mismatch = 'partitions1(%s): impl %s model %s' % (items, got1[:6], want1[:6])
            return r
        # 2. as sets of sets: dit.utils.partitions (both output forms) = the model's recursive enumeration
        canon = lambda ps: sorted(sorted(sorted(b) for b in p) for p in ps)
        a = canon(partitions(items))
        b = canon(partitions(items, tuples=True))
        c = canon(drv.call('setpartitions', [items]))
        if a != c or b != c:
            r.mismatch = 'partitions(%s) as sets of sets: %d / %d members, model %d' % (items, len(a), len(b), len(c))
            return r
        # 3. the statement-level facts, on the real output: every member is a partition, no repetition, Bell number of them
        bell = [1, 1, 2, 5, 15, 52, 203, 877, 4140, 21147][len(items)]
        if len(a) != bell or any(a[i] == a[i + 1] for i in range(len(a) - 1)):
            r.oracle_fail = 'partitions(%s) yields %d members (%d distinct); there are %d set partitions' % (
                items, len(a), len(set(map(str, a))), bell)
            return r
        for p in a:
            flat = sorted(x for blk in p for x in blk)
            if flat != sorted(items) or any(not blk for blk in p):
                r.oracle_fail = 'partitions(%s) yields %s, which is not a partition' % (items, p)
                return r
        # tuples=True: blocks sorted, partition sorted quasi-lexicographically (shorter blocks first)
        for p in partitions(items, tuples=True):
            key = [(len(blk), blk) for blk in p]
            if any(tuple(sorted(blk)) != blk for blk in p) or key != sorted(key):
                r.oracle_fail = 'partitions(%s, tuples=True) yields %s, not in sorted form' % (items, p)
                return r
        return r

    def gen(self, rng, tier):
        for c in self.gen_partitions(rng, tier):
            yield c
        n_cases = 260 if tier == 'quick' else 15000
        if tier == 'thorough':
            for c in self.exhaustive_shapes(rng):
                yield c
        for _ in range(n_cases):
            yield self.rand_case(rng)
        for c in self.gen_options(rng, tier):
            yield c
        for c in self.gen_coincident(rng, tier):
            yield c

    def gen_coincident(self, rng, tier):
        """Lists of groups in which different sub-lists of groups cover the same set of variables: every pair of a
        'triangle' [[a,b],[b,c],[a,c]] has the same union, a group that is the union of two others, a group given
        twice, a group contained in another.  A sum over the k-subsets of the GROUPS has one term per choice of
        groups, also when two choices have the same union.  Every measure that accepts such lists, every seed, with
        and without conditioning, by index or by name."""
        names = [m for m in MEASURES if m not in DISJOINT or m in OVERLAP_TOO]
        for rep in range(1 if tier == 'quick' else 20):
            for name in names:
                for shape in ('triangle', 'union', 'repeat', 'nested', 'repeat-pair'):
                    d = self.rand_case(rng)
                    while d['measure'] != name or d['n'] < 3:
                        d = self.rand_case(rng)
                    n = d['n']
                    v = rng.sample(range(n), n)
                    a, b, c = v[0], v[1], v[2]
                    rest = v[3:]
                    groups = {'triangle': [[a, b], [b, c], [a, c]],
                              'union': [[a], [b], [a, b], [c]],
                              'repeat': [[a], [a], [b]],
                              'nested': [[a], [a, b], [a, b, c]],
                              'repeat-pair': [[a, b], [c], [b, a]]}[shape]
                    groups = [sorted(g) if rng.random() < 0.7 else g for g in groups]
                    rng.shuffle(groups)
                    if rest and rng.random() < 0.5:
                        groups.append(sorted(rng.sample(rest, rng.randint(1, len(rest)))))
                    mode = rng.choice(['none', 'rest', 'any'])
                    pool = rest if mode == 'rest' else (list(range(n)) if mode == 'any' else [])
                    d['groups'] = groups
                    d['crvs'] = sorted(rng.sample(pool, rng.randint(1, min(2, len(pool))))) if pool else []
                    d['k'] = rng.randint(1, len(groups)) if name == 'cohesion' else 0
                    d['shape'] = shape
                    yield d

    def rand_case(self, rng):
        n = rng.randint(2, 5)
        d = gen.rand_dist_case(rng, nmin=n, nmax=n, amax=2 if n >= 4 else 3, bases=['linear'], allow_space=False,
                               max_support=10)
        name = rng.choice(MEASURES)
        groups, crvs = self.rand_shape(rng, n, name)
        if name == 'caekl_mutual_information' and rng.random() < 0.6:
            # four or five groups, where the optimal partition may be an intermediate one
            n = rng.choice([4, 4, 5])
            d = gen.rand_dist_case(rng, nmin=n, nmax=n, amax=2, bases=['linear'], allow_space=False, max_support=10)
            if rng.random() < 0.5:
                # structured: some variables are functions (xor / copies) of two fair bits
                outs = []
                fns = [rng.choice(['a', 'b', 'x', 'x', 'c']) for _ in range(n)]
                for a in (0, 1):
                    for b in (0, 1):
                        outs.append([{'a': a, 'b': b, 'x': a ^ b, 'c': 0}[f] for f in fns])
                uniq = []
                for o in outs:
                    if o not in uniq:
                        uniq.append(o)
                d.update({'outs': uniq, 'pmf': [str(Fraction(1, len(uniq)))] * len(uniq),
                          'alphabets': [[0, 1]] * n, 'klass': 'tuple', 'names': None, 'space': None})
            groups, crvs = [[i] for i in range(n)], []
        d['measure'] = name
        d['groups'] = groups
        d['crvs'] = crvs
        d['k'] = rng.choice([rng.randint(1, len(groups)), max(1, len(groups) - 1)]) if name == 'cohesion' else 0
        d['byname'] = bool(d['names']) and rng.random() < 0.5
        return d

    # ------------------------------------------------------------------ argument shapes and representations
    # The stream above always passes rvs, crvs and rv_mode explicitly and keeps the table linear.  The stream below
    # exercises what `normalize_rvs` does with the arguments left out (rvs=None: every variable its own group, read as
    # indices; crvs=None: no conditioning; rv_mode=None: the distribution's own mode, names once names are set) and
    # the same measures on tables kept in a log base (values then come out in base-b units: value * log2(b) bits;
    # CAEKL has a branch of its own for bases below 1).
    #
    # rvs left out together with a non-empty `crvs` given BY NAME (rv_mode 'names' or left out on a named
    # distribution) used to raise ditException in every measure (normalize_rvs forced rv_mode to indices); repaired in
    # /repo 1c68f16, generated and judged like every other shape since.
    OVERLAP_OK = ('coinformation', 'interaction_information', 'entropy', 'cohesion')

    def apply_options(self, rng, d, rvs_default=None, crvs_default=None, implicit=None, base=None, keep_crvs=None):
        """Turn an explicit linear case into one with defaulted arguments / a log base.  `None` = draw."""
        name, n = d['measure'], d['n']
        d['base'] = rng.choice(['linear', 'linear', 2, 'e', 10, 3.5, 0.5, 0.5]) if base is None else base
        if rvs_default is None:
            rvs_default = rng.choice([False, False, 'omit', 'none'])
        if rvs_default:
            d['groups'] = [[i] for i in range(n)]
            keep = (rng.random() < 0.5) if keep_crvs is None else keep_crvs
            if name in self.OVERLAP_OK and keep:
                # conditioning on variables that are also in the (default) groups: accepted by these measures
                if not d['crvs']:
                    d['crvs'] = sorted(rng.sample(range(n), rng.randint(1, min(2, n))))
            else:
                d['crvs'] = []
            if name == 'cohesion':
                d['k'] = rng.choice([rng.randint(1, n), max(1, n - 1)])
        d['rvs_default'] = rvs_default
        if crvs_default is None:
            crvs_default = rng.choice([False, 'omit', 'none']) if not d['crvs'] else False
        if crvs_default:
            d['crvs'] = []
        d['crvs_default'] = crvs_default
        # rv_mode left out: names mode when the distribution has names, indices otherwise
        can_implicit = d['byname'] or not d['names']
        if implicit is None:
            implicit = rng.random() < 0.4
        d['rvmode'] = 'implicit' if (implicit and can_implicit) else 'explicit'
        return d

    def gen_options(self, rng, tier):
        # every measure with each argument shape once, whatever the seed
        for name in MEASURES:
            for opt in ({'rvs_default': 'omit', 'crvs_default': 'omit', 'keep_crvs': False, 'base': 'linear'},
                        {'rvs_default': 'none', 'crvs_default': False, 'keep_crvs': True, 'base': 'linear'},
                        {'rvs_default': False, 'crvs_default': 'none', 'base': 'linear'},
                        {'rvs_default': False, 'crvs_default': False, 'base': 0.5},
                        {'rvs_default': 'omit', 'crvs_default': 'none', 'keep_crvs': False, 'base': rng.choice([2, 'e', 10, 3.5])}):
                d = self.rand_case(rng)
                while d['measure'] != name:
                    d = self.rand_case(rng)
                yield self.apply_options(rng, d, **opt)
        # CAEKL in a base below 1 on the structured tables, where the candidates differ (max of the base-b numbers
        # is the minimum of the information)
        for _ in range(6 if tier == 'quick' else 200):
            d = self.rand_case(rng)
            while d['measure'] != 'caekl_mutual_information' or len(d['groups']) < 3:
                d = self.rand_case(rng)
            yield self.apply_options(rng, d, rvs_default=rng.choice([False, 'omit']), base=0.5)
        for _ in range(120 if tier == 'quick' else 6000):
            yield self.apply_options(rng, self.rand_case(rng))
        # default grouping with the conditioning variables given by name (rv_mode 'names' / left out), every seed
        for name in self.OVERLAP_OK:
            for implicit in (True, False) * (1 if tier == 'quick' else 25):
                d = self.rand_case(rng)
                while d['measure'] != name:
                    d = self.rand_case(rng)
                d['names'] = rng.choice([list('XYZWV'), list('WZYXA')])[:d['n']]
                d['byname'] = True
                yield self.apply_options(rng, d, rvs_default=rng.choice(['omit', 'none']), crvs_default=False,
                                         implicit=implicit, keep_crvs=True)

    def rand_shape(self, rng, n, name):
        vars_ = list(range(n))
        # every measure but CAEKL and entropy (which reject a variable named twice) also takes groups that share variables, repeat
        # or contain one another, and conditioning variables that are also in the groups: the defining combination is
        # the same expression in the entropies of the unions
        if name in DISJOINT and not (name in OVERLAP_TOO and rng.random() < 0.5):
            rng.shuffle(vars_)
            ng = rng.randint(1 if name == 'entropy' else 2, min(n, 4)) if n >= 2 else 1
            cut = sorted(rng.sample(range(1, n), ng - 1)) if ng > 1 else []
            parts = [vars_[a:b] for a, b in zip([0] + cut, cut + [n])]
            # leave some variables for conditioning / unused
            groups = []
            rest = []
            for p in parts:
                if len(groups) < (1 if name == 'entropy' else 2) or rng.random() < 0.5:   # the rest is conditioned on or left out
                    groups.append(sorted(p))
                else:
                    rest += p
            crvs = sorted(rng.sample(rest, rng.randint(0, len(rest)))) if rest else []
        else:
            ng = rng.randint(1, 4) if name not in DISJOINT else rng.randint(2, 4)
            groups = [sorted(rng.sample(vars_, rng.randint(1, min(3, n)))) for _ in range(ng)]
            crvs = sorted(rng.sample(vars_, rng.randint(0, min(2, n))))
        return groups, crvs

    def exhaustive_shapes(self, rng):
        """All lists of <= 3 groups (non-empty subsets) and all conditioning sets, n <= 4 (symbolic leg)."""
        for n in (2, 3, 4):
            subsets = [list(s) for r in range(1, n + 1) for s in itertools.combinations(range(n), r)]
            base = gen.rand_dist_case(rng, nmin=n, nmax=n, amax=2, bases=['linear'], allow_space=False, max_support=8,
                                      allow_names=False)
            for ng in (1, 2, 3):
                for groups in itertools.combinations(subsets, ng):
                    groups = [list(g) for g in groups]
                    used = set(itertools.chain(*groups))
                    disjoint = sum(len(g) for g in groups) == len(used)
                    for r in range(0, n + 1):
                        for crvs in itertools.combinations(range(n), r):
                            for name in MEASURES:
                                if name in DISJOINT and (not disjoint or (ng < 2 and name != 'entropy') or set(crvs) & used):
                                    continue
                                if n == 4 and ng == 3 and name not in ('coinformation', 'caekl_mutual_information', 'dual_total_correlation'):
                                    continue
                                c = dict(base)
                                c.update({'measure': name, 'groups': groups, 'crvs': list(crvs),
                                          'k': 1 + (len(crvs) % ng) if name == 'cohesion' else 0, 'byname': False})
                                yield c

    def shrink(self, case):
        if case.get('kind') == 'partitions':
            if len(case['items']) > 1:
                yield dict(case, items=case['items'][:-1], n=len(case['items']) - 1)
            return
        outs, pmf = case['outs'], [Fraction(p) for p in case['pmf']]
        if len(outs) > 1:
            for i in range(len(outs)):
                rest = [p for j, p in enumerate(pmf) if j != i]
                tot = sum(rest)
                if tot <= 0:
                    continue
                c = dict(case)
                c['outs'] = [o for j, o in enumerate(outs) if j != i]
                c['pmf'] = [str(p / tot) for p in rest]
                yield c
        if case['crvs']:
            c = dict(case)
            c['crvs'] = case['crvs'][1:]
            yield c
        if len(case['groups']) > 2:
            c = dict(case)
            c['groups'] = case['groups'][1:]
            c['k'] = min(case['k'], len(c['groups']))
            yield c

    # ------------------------------------------------------------------
    def run(self, case, drv):
        if case.get('kind') == 'partitions':
            return self.run_partitions(case, drv)
        dit = import_dit()
        r = core.Result()
        name = case['measure']
        r.site = 'dit.multivariate.' + name
        groups, crvs, k = case['groups'], case['crvs'], case['k']
        # arguments left out (cases of the plain stream and of the corpus pass everything explicitly)
        rvs_default, crvs_default = case.get('rvs_default') or False, case.get('crvs_default') or False
        # rv_mode may be left out only where the addressing is the distribution's own mode (names once names are set)
        implicit = case.get('rvmode') == 'implicit' and (case['byname'] or not case.get('names'))
        base = case.get('base', 'linear')
        if rvs_default:
            # documented meaning of rvs=None: every variable is a group of its own
            groups = [[i] for i in range(case['n'])]
            k = min(k, len(groups))
        if crvs_default:
            crvs = []      # documented meaning of crvs=None: nothing is conditioned on
        # a table kept in base b yields base-b units: value * log2(b) is the amount in bits
        unit = 1.0 if base == 'linear' else math.log2(gen.base_num(base))
        r.features = ['measure=%s' % name, 'n=%d' % case['n'], 'groups=%d' % len(groups), 'crvs=%d' % len(crvs),
                      'byname=%s' % case['byname'], 'zeros=%s' % any(Fraction(p) == 0 for p in case['pmf']),
                      'rvs=%s' % (rvs_default or 'given'), 'crvs=%s' % (crvs_default or 'given'),
                      'rv_mode=%s' % ('left out' if implicit else 'given'), 'base=%s' % base]
        # how the groups relate: sharing variables / two different sub-lists of groups with the same union
        gsets = [frozenset(g) for g in groups]
        share = sum(len(g) for g in gsets) != len(frozenset().union(*gsets)) if gsets else False
        coincide = any(len(set(frozenset().union(*s) for s in itertools.combinations(gsets, kk)))
                       < math.comb(len(gsets), kk) for kk in range(1, len(gsets)))
        r.features += ['groups-share=%s' % share, 'unions-coincide=%s' % coincide,
                       'crvs-in-groups=%s' % bool(gsets and set(crvs) & frozenset().union(*gsets))]
        d = gen.build(case)
        names = case.get('names')
        f = get_func(dit, name)

        def nm(idx):
            return [names[i] for i in idx] if case['byname'] else list(idx)
        kw = dict(rvs=[nm(g) for g in groups], crvs=nm(crvs), rv_mode='names' if case['byname'] else 'indices')
        if rvs_default == 'omit':
            del kw['rvs']
        elif rvs_default:
            kw['rvs'] = None
        if crvs_default == 'omit':
            del kw['crvs']
        elif crvs_default:
            kw['crvs'] = None
        if implicit:
            del kw['rv_mode']
        args = (k,) if name == 'cohesion' else ()

        # ---------------- numeric, real code
        try:
            val = float(f(d, *args, **kw)) * unit
        except Exception as e:  # noqa
            r.oracle_fail = '%s raised %s: %s' % (name, type(e).__name__, str(e)[:150])
            return r
        # ---------------- symbolic, real code
        try:
            sym, raw = symtrace.trace(dit, f, d, *args, **kw)
        except Exception as e:  # noqa
            sym, raw = None, None
            r.features.append('trace-failed:%s' % type(e).__name__)

        # ---------------- model
        mcombs = drv.call('comb', [name, k, groups, crvs])
        mcanon = [[(s, unq(c)) for c, s in comb] for comb in mcombs]
        for comb in mcanon:
            comb.sort(key=lambda t: t[0])
        ftab = [[o, f2bits(gen.lin_of(v, base))] for o, v in zip([gen.from_py(o, case['klass']) for o in d.outcomes], d.pmf)]
        mval = bits2f(drv.call('combf', [name, k, groups, crvs, ftab]))
        r.nontrivial = len(groups) >= 2 and max(len(c) for c in mcanon) >= 3

        # ---------------- correspondence
        if sym is not None:
            if name == 'interaction_information' and raw is not None and not isinstance(raw, symtrace.Lin):
                pass   # snapped to exactly 0.0 by the code's isclose guard
            elif [(s, c) for s, c in sym] not in [[(s, c) for s, c in comb] for comb in mcanon]:
                r.mismatch = 'coefficient vector: impl %s; model candidates %s' % (
                    [(s, str(c)) for s, c in sym], [[(s, str(c)) for s, c in comb] for comb in mcanon][:3])
        if not r.mismatch and not (abs(val - mval) <= 1e-9):
            if not (name == 'interaction_information' and abs(mval) <= 1e-8 and val == 0.0):
                r.mismatch = 'value: impl %r model %r' % (val, mval)
        witness_fail = None
        if r.mismatch and r.mismatch.startswith('coefficient vector'):
            # the coefficient vectors are distribution-independent; look for a distribution on which the difference shows
            import random as _r
            wr = _r.Random(hash(json.dumps([name, groups, crvs, k])) & 0xffffffff)
            n_ = case['n']
            outs_w = [list(o) for o in itertools.product([0, 1], repeat=n_)]
            for _ in range(6):
                w = [wr.random() + 0.05 for _o in outs_w]
                tw = sum(w)
                wc = dict(case)
                wc.update({'outs': outs_w, 'pmf': [repr(x / tw) for x in w], 'alphabets': [[0, 1]] * n_, 'space': None,
                           'sparse': True, 'trim': True})
                dw = dit.Distribution([gen.to_py(o, case['klass']) for o in outs_w], [x / tw for x in w])
                if names:
                    dw.set_rv_names(names)
                try:
                    vw = float(f(dw, *args, **kw))
                    rows_w = [(o, x / tw) for o, x in zip(outs_w, w)]
                    refw = self.reference(name, groups, crvs, k, self.entropies_of_rows(rows_w))
                    if abs(vw - refw) > 1e-8:
                        witness_fail = ('%s = %r but its defining entropy combination gives %r on the full-support witness %s'
                                        % (name, vw, refw, [round(x / tw, 6) for x in w]))
                        break
                except Exception:
                    pass

        # ---------------- oracle: definition from fibre sums, signs, two-group coincidence
        H = self.entropies(d, case)
        ref = self.reference(name, groups, crvs, k, H)
        fails = None
        if not math.isfinite(val):
            fails = '%s is not finite: %r' % (name, val)
        elif abs(val - ref) > 1e-8:
            fails = '%s = %r but its defining entropy combination gives %r' % (name, val, ref)
        elif (name in ('total_correlation', 'dual_total_correlation', 'caekl_mutual_information') and val < -1e-9
              and not (name == 'dual_total_correlation' and share)):
            # (the binding information of groups that share variables is not a sum of conditional mutual informations
            # and may be negative - e.g. [[0,1,2],[0],[1,2]] gives H(0) + H(1,2) - 2 H(0,1,2); the statement's sign
            # claim is about proper groupings.  Total correlation stays >= 0 by subadditivity whatever the groups.)
            fails = '%s is negative: %r' % (name, val)
        elif len(groups) == 2 and name in ('coinformation', 'total_correlation', 'dual_total_correlation', 'caekl_mutual_information'):
            X, Y, Z = set(groups[0]), set(groups[1]), set(crvs)
            if name == 'coinformation' or not (X & Y or (X | Y) & Z):
                cmi = H(X | Z) + H(Y | Z) - H(X | Y | Z) - H(Z)
                if abs(val - cmi) > 1e-8:
                    fails = '%s of two groups = %r but I(X:Y|Z) = %r' % (name, val, cmi)
                elif cmi < -1e-9:
                    fails = 'I(X:Y|Z) negative: %r' % cmi
        if not fails and len(d.outcomes) >= 2:
            # evaluate again after an in-place change of the same object (a stale cache would show here)
            o1, o2 = d.outcomes[0], d.outcomes[-1]
            p1, p2 = d[o1], d[o2]
            if p1 != p2:
                d[o1], d[o2] = p2, p1
                try:
                    val2 = float(f(d, *args, **kw)) * unit
                    ref2 = self.reference(name, groups, crvs, k, self.entropies(d, case))
                    if abs(val2 - ref2) > 1e-8:
                        fails = ('after swapping two probabilities in place, %s = %r but its defining combination gives %r'
                                 % (name, val2, ref2))
                except Exception as e:  # noqa
                    fails = '%s raised %s after an in-place change' % (name, type(e).__name__)
        r.oracle_fail = fails or witness_fail
        r.detail = {'impl': val, 'model': mval, 'reference': ref,
                    'impl_coeffs': None if sym is None else [(s, str(c)) for s, c in sym]}
        return r

    # reference semantics, straight from the definitions --------------------------------
    def entropies(self, d, case):
        base = d.get_base()
        rows = [(gen.from_py(o, case['klass']), gen.lin_of(v, base)) for o, v in zip(d.outcomes, d.pmf)]
        return self.entropies_of_rows(rows)

    @staticmethod
    def entropies_of_rows(rows):
        cache = {}

        def H(S):
            S = tuple(sorted(S))
            if S not in cache:
                m = {}
                for o, p in rows:
                    key = tuple(o[i] for i in S)
                    m[key] = m.get(key, 0.0) + p
                cache[S] = -sum(p * math.log2(p) for p in m.values() if p > 0)
            return cache[S]
        return H

    def reference(self, name, groups, crvs, k, H):
        Z = set(crvs)
        G = [set(g) for g in groups]
        U = set().union(*G)

        def Hc(X, W=None):
            W = Z if W is None else W
            X = set(X)
            return H(X | W) - H(W)
        n = len(G)
        if name == 'entropy':
            return Hc(U)
        if name in ('coinformation', 'interaction_information'):
            I = 0.0
            for r in range(1, n + 1):
                for sub in itertools.combinations(G, r):
                    I += (-1) ** (r + 1) * Hc(set().union(*sub))
            return I if name == 'coinformation' else (-1) ** n * I
        if name == 'total_correlation':
            return sum(Hc(g) for g in G) - Hc(U)
        if name == 'residual_entropy':
            return sum(Hc(g, (U - g) | Z) for g in G)
        if name == 'dual_total_correlation':
            return Hc(U) - sum(Hc(g, (U - g) | Z) for g in G)
        if name == 'o_information':
            return (sum(Hc(g) for g in G) - Hc(U)) - (Hc(U) - sum(Hc(g, (U - g) | Z) for g in G))
        if name == 'tse_complexity':
            tot = 0.0
            for kk in range(1, n):
                subs = list(itertools.combinations(G, kk))
                tot += sum(Hc(set().union(*s)) for s in subs) / len(subs) - kk / n * Hc(U)
            return tot
        if name == 'cohesion':
            return sum(Hc(set().union(*s)) for s in itertools.combinations(G, k)) - math.comb(n - 1, k - 1) * Hc(U)
        if name == 'caekl_mutual_information':
            best = None
            for P in self.partitions(list(range(n))):
                if len(P) < 2:
                    continue
                v = (sum(Hc(set().union(*[G[i] for i in blk])) for blk in P) - Hc(U)) / (len(P) - 1)
                best = v if best is None else min(best, v)
            return best
        raise ValueError(name)

    @staticmethod
    def partitions(items):
        if not items:
            yield []
            return
        first, rest = items[0], items[1:]
        for p in C05.partitions(rest):
            yield [[first]] + p
            for i in range(len(p)):
                yield p[:i] + [[first] + p[i]] + p[i + 1:]


PROP = C05()
