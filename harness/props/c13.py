"""
C13 — Blahut-Arimoto results (capacity, rate-distortion, IB) are certified optima.
"""
import math
import os
import pickle
import random
from fractions import Fraction

import numpy as np

import core
import covtrace
import gen
from canon import f2bits, bits2f
from env import import_dit


def fm(M):
    return [[f2bits(float(v)) for v in row] for row in M]


def fv(v):
    return [f2bits(float(x)) for x in v]


class core_rd_result(object):
    """(rate, distortion) as reported by a call made in another process."""

    def __init__(self, rate, distortion):
        self.rate, self.distortion = rate, distortion


def H2(x):
    return 0.0 if x <= 0 or x >= 1 else -x * math.log2(x) - (1 - x) * math.log2(1 - x)


IB_GAP_TOL = 5e-4


class C13(object):
    id = 'C13'
    rule = ("channel_capacity / channel_capacity_joint on row-stochastic matrices 1-4 x 1-4 with zeros, duplicate rows, "
            "non-square, and the four closed-form families (BSC, BEC, noiseless, useless); blahut_arimoto on sources over "
            "2-3 letters, beta in [0, 8], Hamming distortion (and residual-entropy distortion for consistency only), "
            "Bernoulli sources against R(D) = H(p) - H(D), monotonicity along 3-5 increasing beta; blahut_arimoto_ib on "
            "2x2, 2x3, 3x2 joints. Each output is certified by the duality gaps evaluated by the model in Float. "
            "Argument shapes of channel_capacity: conditionals as an array or as a list of Distributions (trimmed or not), "
            "with or without the optional `marginal` (uniform, positive, with exact zeros, a point mass, entries of 1e-11 / "
            "1e-14; trim=False so that every input letter is present), rtol / atol left to the defaults or passed. "
            "Sequences of 1-5 blahut_arimoto calls in one process (rd-seq) on sources over 2-4 letters that may contain "
            "letters of probability exactly 0 (Hamming and residual-entropy distortion), every call of "
            "the sequence certified on its own. "
            "channel_capacity_joint through its options (joint-call): the joint built from a channel and an input law "
            "(uniform, positive, with impossible letters), input / output letters spread over one or two variables, an "
            "optional further variable, the variables in any positions and listed in any order, tuple or string outcomes, "
            "indices / names with rv_mode left out or given, sparse or dense, marginal=True / False / left out, linear or "
            "log base. blahut_arimoto / blahut_arimoto_ib with "
            "`restarts`, `max_iters`, `distortion` / `divergence` left to the library defaults or passed (rd-opt, ib-opt; "
            "restarts 1, 2, 3, 5, 40). "
            "Non-trivial = at least 2 inputs and 2 outputs with a non-degenerate channel")
    tolerances = {'reported value = definition on the returned input / joint': '1e-7',
                  'capacity duality gap': '<= 1e-3 max(1, C) (the code stops when successive values agree to rtol 1e-7 / atol 1e-9, which does not bound the gap tighter)',
                  'rate-distortion duality gap': '<= 2e-2 (the code stops on np.isclose of successive distortions, rtol 1e-5, or after 100 iterations; at beta <= 1 the unchanged code leaves gaps up to 1.2e-2 with 12 restarts)',
                  'input marginal': '1e-9'}
    exhaustive = {}
    modelled = ("floating-point iteration of the real code is not modelled; what is proved is that any output passing the "
                "certificate is within the gap of every competitor")

    def gen(self, rng, tier):
        for c in self.gen_base(rng, tier):
            yield c
        # Entry-point shapes and call sequences. Drawn from a generator of their own (seeded from `rng` after the cases
        # above), so that the cases above are the same for a given seed whatever is added here.
        rng2 = random.Random(rng.getrandbits(64))
        for _ in range(70 if tier == 'quick' else 3000):
            if rng2.random() < 0.55:
                yield self.gen_capacity_call(rng2)
            else:
                yield self.gen_rd_seq(rng2)
        # Options of the public entry points that the cases above leave at one value. Again a generator of its own.
        rng3 = random.Random(rng.getrandbits(64))
        for _ in range(60 if tier == 'quick' else 2500):
            u = rng3.random()
            if u < 0.5:
                yield self.gen_joint_call(rng3)
            elif u < 0.85:
                yield self.gen_rd_opt(rng3)
            else:
                yield self.gen_ib_opt(rng3, tier)

    # -- channel_capacity through every documented argument shape ---------------------------------------------------
    @staticmethod
    def rand_channel(rng):
        n, m = rng.randint(1, 4), rng.randint(1, 4)
        rows = []
        for _ in range(n):
            pv, _ = gen.rand_prob_vector(rng, m, rng.choice(['small', 'dyadic', 'uneven']))
            rows.append([str(p) for p in pv])
        if n >= 2 and rng.random() < 0.3:
            rows[-1] = rows[0]
        if m >= 2 and rng.random() < 0.4:
            rows = []
            for i in range(n):
                pv, _ = gen.rand_prob_vector(rng, m - 1, rng.choice(['dyadic', 'uneven']))
                while any(p == 0 for p in pv):
                    pv, _ = gen.rand_prob_vector(rng, m - 1, 'uneven')
                z = (i + rng.randint(0, 1)) % m
                rows.append([str(p) for p in pv[:z]] + ['0'] + [str(p) for p in pv[z:]])
        return rows

    @staticmethod
    def rand_marginal(rng, n):
        """A P(X) over the n input letters to hand to channel_capacity: the capacity does not depend on it."""
        style = rng.choice(['uniform', 'positive', 'zeros', 'zeros', 'point', 'point', 'tiny', 'tiny'])
        if n == 1:
            return 'point', ['1']
        if style == 'uniform':
            w = [Fraction(1, n)] * n
        elif style == 'positive':
            w, _ = gen.rand_prob_vector(rng, n, 'uneven')
        elif style == 'point':
            k = rng.randrange(n)
            w = [Fraction(int(i == k)) for i in range(n)]
        elif style == 'zeros':
            supp = sorted(rng.sample(range(n), rng.randint(1, n - 1)))
            pv, _ = gen.rand_prob_vector(rng, len(supp), 'uneven')
            w = [Fraction(0)] * n
            for i, p in zip(supp, pv):
                w[i] = p
        else:
            # far below dit's null tolerance 1e-8 (never near it), kept by trim=False
            eps = Fraction(1, 10 ** rng.choice([11, 14]))
            k = rng.randrange(n)
            small = [i for i in range(n) if i != k and rng.random() < 0.7] or [(k + 1) % n]
            rest = [i for i in range(n) if i != k and i not in small]
            w = [Fraction(0)] * n
            for i in small:
                w[i] = eps
            for i in rest:
                w[i] = Fraction(1, 5)
            w[k] = 1 - sum(w)
        return style, [str(p) for p in w]

    def gen_capacity_call(self, rng):
        call = {'cdists': rng.choice(['array', 'array', 'dists', 'dists-trim']), 'tol': rng.random() < 0.25}
        if rng.random() < 0.3:
            fam = rng.choice(['bsc', 'bec', 'noiseless', 'useless'])
            case = {'kind': 'closed', 'family': fam,
                    'e': str(rng.choice([Fraction(0), Fraction(1, 10), Fraction(1, 4), Fraction(1, 2), Fraction(9, 10)])),
                    'n': rng.randint(2, 4)}
            n = case['n'] if fam in ('noiseless', 'useless') else 2
        else:
            case = {'kind': 'capacity', 'P': self.rand_channel(rng)}
            n = len(case['P'])
        if rng.random() < 0.8:
            call['marginal_style'], call['marginal'] = self.rand_marginal(rng, n)
        else:
            call['marginal_style'], call['marginal'] = 'none', None
        case['call'] = call
        return case

    # -- several blahut_arimoto calls in one process; sources with impossible letters ---------------------------------
    @staticmethod
    def rand_source(rng, n, allow_zero):
        style = rng.choice(['positive', 'positive', 'zeros', 'zeros', 'point']) if allow_zero else 'positive'
        if style == 'positive':
            pv, _ = gen.rand_prob_vector(rng, n, rng.choice(['small', 'uneven']))
            while any(p == 0 for p in pv):
                pv, _ = gen.rand_prob_vector(rng, n, 'uneven')
        elif style == 'point':
            k = rng.randrange(n)
            pv = [Fraction(int(i == k)) for i in range(n)]
        else:
            supp = sorted(rng.sample(range(n), rng.randint(1, n - 1)))
            sv, _ = gen.rand_prob_vector(rng, len(supp), 'uneven')
            pv = [Fraction(0)] * n
            for i, p in zip(supp, sv):
                pv[i] = p
        return [str(p) for p in pv]

    def gen_rd_seq(self, rng):
        n = rng.randint(2, 4)
        steps = []
        for _ in range(rng.randint(1, 5)):
            ni = n if rng.random() < 0.85 else rng.randint(2, 4)
            # (the residual-entropy distortion is -log of conditional probabilities of the joint: on a source with an
            # impossible letter the code used to report nan - repaired, see KNOWN_FINDINGS - so it gets such sources too)
            dist = rng.choice(['hamming', 'hamming', 'hamming', 'residual', 'residual'])
            steps.append({'p': self.rand_source(rng, ni, dist == 'hamming' or rng.random() < 0.5), 'dist': dist,
                          'beta': rng.choice([0.0, 0.5, 1.0, 2.0, 3.5, 5.0, 8.0]),
                          'max_iters': rng.choice([100, 100, 100, 3])})
        return {'kind': 'rd-seq', 'steps': steps}

    # -- channel_capacity_joint through every option -------------------------------------------------------------------
    def gen_joint_call(self, rng):
        P = self.rand_channel(rng)
        n, m = len(P), len(P[0])
        style, w = self.rand_marginal(rng, n)
        while style == 'tiny' or (style == 'point' and n > 1 and rng.random() < 0.75):
            # (joint cells at 1e-11 are below dit's null tolerance and would be trimmed: a different channel)
            style, w = self.rand_marginal(rng, n)
        call = {'w_style': style, 'w': w,
                'xsplit': n >= 3 and rng.random() < 0.5, 'ysplit': m >= 3 and rng.random() < 0.5,
                'extra': rng.choice([None, None, 'coin', 'parity']),
                'klass': rng.choice(['tuple', 'str']),
                'names': rng.random() < 0.5,
                'listed': rng.choice(['sorted', 'reversed']),
                'marginal': rng.choice([False, 'default']),
                'base': rng.choice([None, None, 2, 'e', 10, 0.5]),
                'dense': rng.random() < 0.3}
        roles = ['x0'] + (['x1'] if call['xsplit'] else []) + ['y0'] + (['y1'] if call['ysplit'] else [])
        if call['extra']:
            roles.append('z')
        rng.shuffle(roles)
        call['roles'] = roles
        call['rv_mode'] = rng.choice([None, 'names', 'indices'] if call['names'] else [None, 'indices'])
        pool = list('ABCDE')
        rng.shuffle(pool)
        call['rv_names'] = pool[:len(roles)]
        return {'kind': 'capacity-joint', 'P': P, 'call': call}

    # -- blahut_arimoto / blahut_arimoto_ib with their options left out or passed -----------------------------------
    def gen_rd_opt(self, rng):
        n = rng.randint(2, 4)
        dist = rng.choice(['default', 'default', 'hamming', 'residual'])
        return {'kind': 'rd-opt', 'p': self.rand_source(rng, n, rng.random() < 0.3), 'dist': dist,
                'beta': rng.choice([0.0, 0.5, 1.0, 2.0, 3.5, 5.0, 8.0]),
                'restarts': rng.choice([None, None, 1, 2, 3, 5, 40]),
                'max_iters': rng.choice([None, None, 100, 3, 250])}

    def gen_ib_opt(self, rng, tier):
        shape = rng.choice([(2, 2), (2, 3), (3, 2)])
        pv, _ = gen.rand_prob_vector(rng, shape[0] * shape[1], 'small')
        while any(p == 0 for p in pv):
            pv, _ = gen.rand_prob_vector(rng, shape[0] * shape[1], 'uneven')
        # (the library default of 250 restarts takes seconds: on the smaller shapes and seldom)
        restarts = rng.choice([None, 1, 1, 2, 2, 3, 5, 40] if shape[0] == 2 else [1, 1, 2, 2, 3, 5, 40])
        return {'kind': 'ib-opt', 'shape': list(shape), 'pxy': [str(p) for p in pv],
                'beta': rng.choice([0.5, 2.0, 5.0, 8.0, 12.0, 20.0]),
                'restarts': restarts, 'max_iters': rng.choice([None, None, 100, 3, 250]),
                'divergence': rng.choice(['default', 'relative_entropy'])}

    def gen_base(self, rng, tier):
        n_cases = 100 if tier == 'quick' else 6000
        for _ in range(n_cases):
            kind = rng.choice(['capacity', 'capacity', 'closed', 'rd', 'rd', 'rd-mono', 'ib', 'ib', 'capacity-joint', 'capacity-joint'])
            if rng.random() < 0.2:
                # the iteration itself: _blahut_arimoto from a given initial channel, cut after k sweeps
                dist = rng.choice(['hamming', 'hamming', 'residual', 'ib', 'ib'])
                n = rng.randint(2, 3)
                m = n if dist != 'ib' else rng.randint(2, 3)
                ny = rng.randint(2, 3)
                pv, _ = gen.rand_prob_vector(rng, n * ny, 'uneven')
                while any(p == 0 for p in pv):
                    pv, _ = gen.rand_prob_vector(rng, n * ny, 'uneven')
                W0 = []
                for _i in range(n):
                    wv, _ = gen.rand_prob_vector(rng, m, 'uneven')
                    while any(p == 0 for p in wv):
                        wv, _ = gen.rand_prob_vector(rng, m, 'uneven')
                    W0.append([str(p) for p in wv])
                if rng.random() < 0.25:
                    W0 = [[str(Fraction(1, m))] * m for _i in range(n)]
                yield {'kind': 'ba-iter', 'dist': dist, 'pxy': [str(p) for p in pv], 'shape': [n, ny], 'W0': W0,
                       'beta': rng.choice([0.0, 0.5, 1.0, 2.0, 3.5, 5.0, 8.0]), 'k': rng.choice([0, 1, 2, 3, 5, 8, 100])}
                continue
            if kind in ('capacity', 'capacity-joint'):
                n, m = rng.randint(1, 4), rng.randint(1, 4)
                rows = []
                for _ in range(n):
                    pv, _ = gen.rand_prob_vector(rng, m, rng.choice(['small', 'dyadic', 'uneven']))
                    rows.append([str(p) for p in pv])
                if n >= 2 and rng.random() < 0.3:
                    rows[-1] = rows[0]
                if m >= 2 and rng.random() < 0.5:
                    # structural zeros: supports of equal size at different places (erasure-like channels)
                    rows = []
                    for i in range(n):
                        pv, _ = gen.rand_prob_vector(rng, m - 1, rng.choice(['dyadic', 'uneven']))
                        while any(p == 0 for p in pv):
                            pv, _ = gen.rand_prob_vector(rng, m - 1, 'uneven')
                        z = (i + rng.randint(0, 1)) % m
                        rows.append([str(p) for p in pv[:z]] + ['0'] + [str(p) for p in pv[z:]])
                yield {'kind': kind, 'P': rows}
            elif kind == 'closed':
                yield {'kind': 'closed', 'family': rng.choice(['bsc', 'bec', 'noiseless', 'useless']),
                       'e': str(rng.choice([Fraction(0), Fraction(1, 10), Fraction(1, 4), Fraction(1, 2), Fraction(9, 10)])),
                       'n': rng.randint(2, 4)}
            elif kind in ('rd', 'rd-mono'):
                n = rng.randint(2, 3)
                pv, _ = gen.rand_prob_vector(rng, n, rng.choice(['small', 'uneven']))
                while any(p == 0 for p in pv):
                    pv, _ = gen.rand_prob_vector(rng, n, 'uneven')
                betas = sorted(rng.sample([0.0, 0.5, 1.0, 2.0, 3.0, 4.0, 6.0, 8.0], rng.randint(3, 5)))
                yield {'kind': kind, 'p': [str(p) for p in pv], 'beta': rng.choice([0.0, 0.5, 1.0, 2.0, 3.5, 5.0, 8.0]),
                       'betas': betas, 'dist': rng.choice(['hamming', 'hamming', 'residual']),
                       'max_iters': rng.choice([100, 100, 2, 3, 6]) if kind == 'rd' else 100}
            else:
                shape = rng.choice([(2, 2), (2, 3), (3, 2)])
                pv, _ = gen.rand_prob_vector(rng, shape[0] * shape[1], 'small')
                while any(p == 0 for p in pv):
                    pv, _ = gen.rand_prob_vector(rng, shape[0] * shape[1], 'uneven')
                yield {'kind': 'ib', 'shape': list(shape), 'pxy': [str(p) for p in pv], 'beta': rng.choice([0.5, 2.0, 5.0, 8.0, 12.0, 20.0]),
                       'max_iters': rng.choice([100, 100, 100, 2, 3, 6])}

    def shrink(self, case):
        return []

    def run(self, case, drv):
        r = core.Result()
        r.site = 'C13.' + case['kind']
        r.features = ['kind=%s' % case['kind']]
        try:
            getattr(self, 'run_' + case['kind'].replace('-', '_'))(case, drv, r)
        except core.DriverError:
            raise
        except Exception as e:  # noqa
            import traceback
            r.oracle_fail = '%s raised %s: %s' % (case['kind'], type(e).__name__, str(e)[:160])
            r.detail = {'traceback': traceback.format_exc()[-700:]}
        return r

    # ------------------------------------------------------------------ capacity
    def certify_capacity(self, drv, P, cc, pmf, r):
        P = np.array(P, dtype=float)
        pmf = np.array(pmf, dtype=float)
        mi = bits2f(drv.call('chanf', ['mi', fv(pmf), fm(P), []]))
        gap = bits2f(drv.call('chanf', ['gap', fv(pmf), fm(P), []]))
        r.detail = {'cc': cc, 'pmf': list(pmf), 'model_mi': mi, 'model_gap': gap}
        q = pmf @ P
        with np.errstate(all='ignore'):
            kls = [float(np.nansum(np.where(row > 0, row * np.log2(row / q), 0.0))) for row in P]
        ref_mi = float(sum(p * k for p, k in zip(pmf, kls)))
        if pmf.shape != (P.shape[0],) or not np.isfinite(pmf).all() or not math.isfinite(cc):
            r.oracle_fail = ('channel_capacity returned the value %r and the input %s: not a number / not a distribution '
                             'over the %d input letters' % (cc, list(pmf), P.shape[0]))
        elif abs(pmf.sum() - 1) > 1e-9 or (pmf < -1e-12).any():
            r.oracle_fail = 'returned input distribution %s is not a distribution' % list(pmf)
        elif abs(cc - ref_mi) > 1e-7:
            r.oracle_fail = 'capacity value %r but the returned input achieves I = %r' % (cc, ref_mi)
        elif max(kls) > cc + 1e-3 * max(1.0, cc):
            r.oracle_fail = 'input letter divergence %r exceeds the value %r: the input is not optimal' % (max(kls), cc)
        if abs(cc - mi) > 1e-7 and not r.oracle_fail:
            r.mismatch = 'capacity value: impl %r, model I(pmf;P) = %r' % (cc, mi)
        elif not (-1e-9 <= gap <= 1e-3 * max(1.0, cc)) and not r.oracle_fail:
            r.mismatch = 'duality gap of the returned input is %r' % gap

    def run_capacity(self, case, drv, r):
        from dit.algorithms.channelcapacity import channel_capacity
        P = [[float(Fraction(v)) for v in row] for row in case['P']]
        r.nontrivial = len(P) >= 2 and len(P[0]) >= 2 and len(set(map(tuple, P))) >= 2
        cc, pmf = self.call_capacity(P, case.get('call'), r)
        if r.bad():
            return
        self.certify_capacity(drv, P, float(cc), pmf, r)
        if not r.bad() and (case.get('call') or {}).get('marginal') is None:
            # (the optional marginal is documented as the carrier of the returned law only; the model of the iteration
            # starts from the uniform input, and a start that reaches the same optimum would not be a violation)
            self.compare_capacity_loop(drv, P, float(cc), pmf, r)

    def call_capacity(self, P, call, r):
        """channel_capacity(cdists, marginal, rtol, atol) in the argument shape the case names; returns the value and the
        input law as a list aligned with the rows of P. The capacity is a function of the channel alone: whatever P(X)
        comes with the conditionals, the certificate of certify_capacity has to hold."""
        from dit.algorithms.channelcapacity import channel_capacity
        dit = import_dit()
        P = np.array(P, dtype=float)
        n, m = P.shape
        call = call or {}
        shape = call.get('cdists', 'array')
        if shape == 'array':
            cdists = P.copy()
        else:
            outs = [str(j) for j in range(m)]
            cdists = [dit.Distribution(outs, [float(v) for v in row], trim=(shape == 'dists-trim')) for row in P]
        kw = {}
        if call.get('tol'):
            kw = {'rtol': dit.ditParams['rtol'], 'atol': dit.ditParams['atol']}   # the documented defaults, passed
        mg = call.get('marginal')
        r.features += ['cdists=%s' % shape, 'marginal=%s' % call.get('marginal_style', 'none' if mg is None else 'given'),
                       'tol=%s' % ('passed' if kw else 'default')]
        if mg is None:
            cc, pmf = channel_capacity(cdists, **kw)
            return cc, np.array(pmf, dtype=float)
        letters = [str(i) for i in range(n)]
        w = [float(Fraction(v)) for v in mg]
        md = dit.Distribution(letters, w, trim=False)
        # the marginal may be held in any base (derived from the case, so that a case stays a plain record): the
        # returned input distribution must then be a valid distribution in that base
        mbase = [None, None, None, 2, 'e', 10, 0.5][int(sum(Fraction(v).numerator for v in mg) + n + m) % 7]
        if mbase is not None and all(v > 0 for v in w):
            md.set_base(mbase)
            r.features.append('marginal-base=%s' % mbase)
        cc, mo = channel_capacity(cdists, md, **kw)
        if mo.get_base() != md.get_base() or set(mo.outcomes) - set(letters):
            r.oracle_fail = ('channel_capacity returned an input distribution over %r in base %r for a marginal over %r in base %r'
                             % (list(mo.outcomes), mo.get_base(), letters, md.get_base()))
            return cc, np.full(n, np.nan)
        try:
            mo.validate()
        except Exception as e:  # noqa
            r.oracle_fail = ('the input distribution returned by channel_capacity (base %r, stored values %s) is not a valid '
                             'distribution: %s' % (mo.get_base(), [float(v) for v in mo.pmf], type(e).__name__))
            return cc, np.full(n, np.nan)
        ml = mo.copy(base='linear')
        got = dict(zip(ml.outcomes, [float(v) for v in ml.pmf]))
        return cc, np.array([got.get(l, 0.0) for l in letters])

    def compare_capacity_loop(self, drv, P, cc, pmf, r):
        """The code's own iteration (uniform start, q/r sweeps, stopping rule) against Core/CapLoop.lean. The stopping
        index is taken from the model; when a 0.1 % change of the tolerances moves it, the case is not compared."""
        dit = import_dit()
        rtol, atol = dit.ditParams['rtol'], dit.ditParams['atol']
        outs = [drv.call('capf', [fm(P), f2bits(rtol * s_), f2bits(atol * s_), 200000]) for s_ in (1.0, 1.001, 0.999)]
        its = [o[2] for o in outs]
        r.detail = dict(r.detail or {}, model_passes=its[0])
        if len(set(its)) != 1 or its[0] >= 200000:
            r.features.append('capacity-loop-not-compared')
            return
        mcc, mr = bits2f(outs[0][0]), [bits2f(v) for v in outs[0][1]]
        dev = max([abs(mcc - cc)] + [abs(a - float(b)) for a, b in zip(mr, pmf)])
        r.detail['loop_dev'] = dev
        if not (dev <= 1e-9):
            r.mismatch = ('channel_capacity: value / input law differ from the model of its iteration by %r after %d passes'
                          % (dev, its[0]))

    def run_capacity_joint(self, case, drv, r):
        dit = import_dit()
        from dit.algorithms.channelcapacity import channel_capacity_joint
        if case.get('call'):
            return self.run_capacity_joint_call(case, drv, r)
        P = [[Fraction(v) for v in row] for row in case['P']]
        n, m = len(P), len(P[0])
        outs, pmf = [], []
        for i in range(n):
            for j in range(m):
                if P[i][j] > 0:
                    outs.append((i, j))
                    pmf.append(float(P[i][j]) / n)
        d = dit.Distribution(outs, pmf)
        r.nontrivial = n >= 2 and m >= 2
        cc, marg = channel_capacity_joint(d, [0], [1], marginal=True)
        used = [j for j in range(m) if any(P[i][j] > 0 for i in range(n))]
        Pm = [[float(P[i][j]) for j in used] for i in range(n)]
        self.certify_capacity(drv, Pm, float(cc), [float(v) for v in marg.pmf], r)

    def run_capacity_joint_call(self, case, drv, r):
        """channel_capacity_joint(dist, input_, output, marginal, rv_mode) on the joint w(x) P(y|x), in the presentation the
        case names. Whatever the input law w, the positions and the number of the variables carrying x and y, a further
        variable, names / indices, the order in which the variables are listed, sparse / dense storage and the base, the
        value is the capacity of P restricted to the input letters that can occur, and with marginal=True the second
        value is a distribution over those letters that achieves it. With marginal=False (or left out) a single number
        comes back: it is certified with the input returned by the marginal=True call on the same arguments."""
        dit = import_dit()
        from dit.algorithms.channelcapacity import channel_capacity_joint
        call = case['call']
        P = [[Fraction(v) for v in row] for row in case['P']]
        n, m = len(P), len(P[0])
        w = [Fraction(v) for v in call['w']]
        roles = call['roles']
        xs, ys = bool(call['xsplit']), bool(call['ysplit'])
        as_str = call['klass'] == 'str'
        cells = {}
        for i in range(n):
            for j in range(m):
                pij = w[i] * P[i][j]
                if pij == 0 and not call['dense']:
                    continue
                if call['extra'] == 'coin':
                    zs = [(0, Fraction(1, 4)), (1, Fraction(3, 4))]
                elif call['extra'] == 'parity':
                    zs = [((i + j) % 2, Fraction(1))]
                else:
                    zs = [(None, Fraction(1))]
                for z, pz in zs:
                    val = {'x0': i // 2 if xs else i, 'x1': i % 2, 'y0': j // 2 if ys else j, 'y1': j % 2, 'z': z}
                    o = tuple(val[ro] for ro in roles)
                    o = ''.join(str(v) for v in o) if as_str else o
                    cells[o] = cells.get(o, Fraction(0)) + pij * pz
        outs = sorted(cells)
        d = dit.Distribution(outs, [float(cells[o]) for o in outs], trim=False)
        if call['dense']:
            d.make_dense()
        if call['names']:
            d.set_rv_names(call['rv_names'])
        xpos = [k for k, ro in enumerate(roles) if ro[0] == 'x']
        ypos = [k for k, ro in enumerate(roles) if ro[0] == 'y']
        by_name = call['names'] and call['rv_mode'] != 'indices'
        ref = (lambda ks: [call['rv_names'][k] for k in ks]) if by_name else (lambda ks: list(ks))
        inp, out = ref(xpos), ref(ypos)
        if call['listed'] == 'reversed':
            inp, out = inp[::-1], out[::-1]
        kw = {} if call['rv_mode'] is None else {'rv_mode': call['rv_mode']}
        r.features += ['input-law=%s' % call['w_style'], 'x-vars=%d' % len(xpos), 'y-vars=%d' % len(ypos),
                       'extra=%s' % call['extra'], 'outcomes=%s' % call['klass'],
                       'addressed-by=%s' % ('names' if by_name else 'indices'), 'rv_mode=%s' % call['rv_mode'],
                       'listed=%s' % call['listed'], 'dense=%s' % call['dense'], 'marginal-arg=%s' % call['marginal'],
                       'base=%s' % call['base'], 'first-x-before-first-y=%s' % (xpos[0] < ypos[0])]
        rows = [i for i in range(n) if w[i] > 0]
        used = [j for j in range(m) if any(P[i][j] > 0 for i in rows)]
        Pm = [[float(P[i][j]) for j in used] for i in rows]
        r.nontrivial = len(rows) >= 2 and len(used) >= 2 and len(set(map(tuple, Pm))) >= 2

        # (1) marginal=True: value and input distribution, on the linear joint and on its copy in a log base (the
        # distribution that comes back is in the base of the joint; log-base joints used to get the linear optimum stored
        # in a log-base distribution - repaired in 55253e2, judged since)
        targets = [('linear', d)]
        if call['base'] is not None:
            targets.append(('base %s' % call['base'], d.copy(base=call['base'])))
        pmf = None
        for label, dd in targets:
            got = channel_capacity_joint(dd, inp, out, marginal=True, **kw)
            what = 'channel_capacity_joint(%s joint, marginal=True)' % label
            if not (isinstance(got, tuple) and len(got) == 2 and hasattr(got[1], 'outcomes')):
                r.oracle_fail = '%s returned %r, not (value, distribution)' % (what, got)
                return
            cc1, marg = got
            try:
                if marg.get_base() != dd.get_base():
                    raise ValueError('base %r for a joint in base %r' % (marg.get_base(), dd.get_base()))
                marg.validate()
                mlin = marg.copy(base='linear')
            except Exception as e:  # noqa
                r.oracle_fail = ('the input distribution returned by %s (base %r, stored values %s) is not a valid '
                                 'distribution in the base of the joint: %s: %s'
                                 % (what, marg.get_base(), [float(v) for v in marg.pmf], type(e).__name__, str(e)[:80]))
                return
            pm = dict((i, 0.0) for i in rows)
            for o, pv in zip(mlin.outcomes, mlin.pmf):
                sy = [int(c) for c in o]      # the symbols of the variables of x, by increasing position
                i = None
                if len(sy) == len(xpos):
                    digit = dict(zip([roles[k] for k in xpos], sy))
                    i = 2 * digit['x0'] + digit['x1'] if xs else digit['x0']
                if i not in pm:
                    r.oracle_fail = ('%s returned an input distribution over %r: %r is not an input letter that can occur'
                                     % (what, list(mlin.outcomes), o))
                    return
                pm[i] += float(pv)
            pm = [pm[i] for i in rows]
            self.certify_capacity(drv, Pm, float(cc1), pm, r)
            if r.bad():
                if r.oracle_fail:
                    r.oracle_fail = '%s: %s' % (what, r.oracle_fail)
                else:
                    r.mismatch = '%s: %s' % (what, r.mismatch)
                return
            if pmf is None:
                pmf, cc_lin = pm, float(cc1)     # (the linear joint's: the reference input for (2))

        # (2) marginal=False / left out: a single number, the same capacity. On the linear joint, and on its copy in a
        # log base.
        mkw = dict(kw) if call['marginal'] == 'default' else dict(kw, marginal=False)
        for label, dd in targets:
            v = channel_capacity_joint(dd, inp, out, **mkw)
            what = 'channel_capacity_joint(%s joint, marginal %s)' % (label, 'left out' if call['marginal'] == 'default' else '= False')
            if isinstance(v, (tuple, list)) or np.ndim(v) != 0:
                r.oracle_fail = '%s returned %r, not a single value' % (what, v)
                return
            self.certify_capacity(drv, Pm, float(v), pmf, r)
            if r.bad():
                if r.oracle_fail:
                    r.oracle_fail = '%s, judged with the input returned for marginal=True (value %r): %s' % (what, cc_lin, r.oracle_fail)
                else:
                    r.mismatch = '%s: %s' % (what, r.mismatch)
                return

    def run_closed(self, case, drv, r):
        from dit.algorithms.channelcapacity import channel_capacity
        fam = case['family']
        e = float(Fraction(case['e']))
        n = case['n']
        if fam == 'bsc':
            P, want = [[1 - e, e], [e, 1 - e]], 1 - H2(e)
        elif fam == 'bec':
            P, want = [[1 - e, e, 0.0], [0.0, e, 1 - e]], 1 - e
        elif fam == 'noiseless':
            P, want = np.eye(n).tolist(), math.log2(n)
        else:
            row = [1.0 / n] * n
            P, want = [row] * n, 0.0
        r.features.append('family=%s' % fam)
        r.nontrivial = True
        cc, pmf = self.call_capacity(P, case.get('call'), r)
        if r.bad():
            return
        if abs(float(cc) - want) > 1e-6:
            r.oracle_fail = 'capacity of the %s channel (e=%s, n=%d) is %r, closed form %r' % (fam, case['e'], n, float(cc), want)
            return
        self.certify_capacity(drv, P, float(cc), pmf, r)

    # ------------------------------------------------------------------ rate distortion
    def ba(self, p, beta, dist, max_iters=100, restarts=12):
        """blahut_arimoto(p, beta, distortion, max_iters, restarts); dist 'default' / max_iters None / restarts None leave
        the argument out (the documented defaults: Hamming distortion, 100 sweeps, 100 restarts)."""
        from dit.rate_distortion.blahut_arimoto import blahut_arimoto
        from dit.rate_distortion.distortions import hamming_distortion, residual_entropy_distortion
        kw = {}
        if dist != 'default':
            kw['distortion'] = hamming_distortion if dist == 'hamming' else residual_entropy_distortion
        if restarts is not None:
            kw['restarts'] = restarts
        if max_iters is not None:
            kw['max_iters'] = max_iters
        np.random.seed(12345)
        import dit.math
        dit.math.prng.seed(12345)
        return blahut_arimoto(np.array(p, dtype=float), beta, **kw)

    def certify_rd(self, drv, p, beta, dist, res, q, r, converged=True):
        from dit.rate_distortion.distortions import residual_entropy_distortion
        q = np.array(q, dtype=float)
        n = len(p)
        if dist == 'default':
            dist = 'hamming'   # the documented default of `distortion`
        if dist == 'hamming':
            d = 1 - np.eye(n)
        else:
            with np.errstate(all='ignore'):
                # the conditional of an impossible input letter is undefined and carries no weight: any row will do
                rows = q.sum(axis=1, keepdims=True)
                cond = np.where(rows > 0, q / np.where(rows > 0, rows, 1.0), 1.0 / q.shape[1])
                d = residual_entropy_distortion(np.array(p), cond)
                d = np.where(np.isfinite(d), d, 0.0)
                d[np.array(p) == 0] = 0.0
            if not (np.isfinite(q).all() and math.isfinite(float(res.rate)) and math.isfinite(float(res.distortion))):
                r.oracle_fail = 'rate %r, distortion %r, joint %s: not numbers' % (float(res.rate), float(res.distortion), q.tolist())
                return None
        rate, dval = float(res.rate), float(res.distortion)
        mi = bits2f(drv.call('chanf', ['jointmi', [], fm(q), []]))
        ed = bits2f(drv.call('chanf', ['expdist', [], fm(q), fm(d)]))
        r.detail = {'rate': rate, 'distortion': dval, 'model_mi': mi, 'model_expdist': ed, 'q': q.tolist()}
        if np.abs(q.sum(axis=1) - np.array(p)).max() > 1e-9 or (q < -1e-12).any():
            r.oracle_fail = 'input marginal of the returned joint %s is not the source %s' % (q.sum(axis=1).tolist(), p)
            return None
        if dist == 'hamming' and not (np.isfinite(q).all() and math.isfinite(rate) and math.isfinite(dval)):
            r.oracle_fail = 'rate %r, distortion %r, joint %s: not numbers' % (rate, dval, q.tolist())
            return None
        if abs(rate - mi) > 1e-7:
            r.oracle_fail = 'reported rate %r but the returned joint has I = %r' % (rate, mi)
            return None
        if abs(dval - ed) > 1e-7:
            r.oracle_fail = 'reported distortion %r but the returned joint has E[d] = %r' % (dval, ed)
            return None
        if dist == 'hamming' and converged:
            lb = bits2f(drv.call('chanf', ['rdbound', fv([beta]), fm(q), fm(d)]))
            gap = rate + beta * dval - lb
            r.detail['lower_bound'] = lb
            r.detail['gap'] = gap
            if not (gap >= -1e-7):
                r.mismatch = 'model: dual lower bound %r exceeds the achieved R + beta D = %r' % (lb, rate + beta * dval)
            elif gap > 2e-2:
                # The dual bound evaluated at the returned joint is only tight when that joint is optimal; before
                # calling the result sub-optimal, evaluate the same (always valid) bound at a long-run iterate.
                qy = np.ones(n) / n
                pa = np.array(p, dtype=float)
                for _ in range(3000):
                    A = qy * np.exp2(-beta * d)
                    A /= A.sum(axis=1, keepdims=True)
                    qy = np.maximum(pa @ A, 1e-300)
                lb2 = bits2f(drv.call('chanf', ['rdbound', fv([beta]), fm(pa[:, None] * A), fm(d)]))
                r.detail['lower_bound_at_long_run_iterate'] = lb2
                gap = rate + beta * dval - max(lb, lb2)
                r.detail['gap'] = gap
            if gap > 2e-2 and not r.mismatch:
                lb = max(lb, r.detail.get('lower_bound_at_long_run_iterate', lb))
                r.oracle_fail = ('R + beta D = %r but some test channel achieves at most %r + tolerance: the returned '
                                 'joint is not optimal (gap %r)' % (rate + beta * dval, lb, gap))
        return rate, dval

    def run_rd(self, case, drv, r):
        p = [float(Fraction(v)) for v in case['p']]
        beta, dist = case['beta'], case['dist']
        r.features += ['dist=%s' % dist, 'beta=%s' % beta]
        r.nontrivial = beta > 0
        mi_ = case.get('max_iters', 100)
        rs_ = case.get('restarts', 12)
        r.features.append('max_iters=%s' % ('default' if mi_ is None else mi_))
        if 'restarts' in case:
            r.features.append('restarts=%s' % ('default' if rs_ is None else rs_))
        full = mi_ is None or mi_ >= 100
        # a run cut short by max_iters still has to report the rate and distortion OF THE JOINT IT RETURNS
        res, q = self.ba(p, beta, dist, mi_, rs_)
        out = self.certify_rd(drv, p, beta, dist, res, q, r, converged=full)
        if out and dist in ('hamming', 'default') and len(p) == 2 and not r.bad() and full:
            self.bernoulli_closed_form(p, out, r)

    def run_rd_opt(self, case, drv, r):
        """blahut_arimoto with `distortion`, `max_iters`, `restarts` left to their defaults or passed (any number of
        restarts from 1: the first start is the uniform channel, the second the constant one, the others random); the
        same clauses as for every other call."""
        p = [float(Fraction(v)) for v in case['p']]
        beta, dist, mi_, rs_ = case['beta'], case['dist'], case['max_iters'], case['restarts']
        r.features += ['dist=%s' % dist, 'beta=%s' % beta, 'max_iters=%s' % ('default' if mi_ is None else mi_),
                       'restarts=%s' % ('default' if rs_ is None else rs_)]
        if any(v == 0 for v in p):
            r.features.append('source-with-zero')
        r.nontrivial = beta > 0
        full = mi_ is None or mi_ >= 100

        def one_call():
            res, q = self.ba(p, beta, dist, mi_, rs_)
            return (float(res.rate), float(res.distortion)), np.array(q, dtype=float)
        # (in a process of its own, like the sequences: sources with impossible letters are among these)
        pair, q = self.in_child(one_call)
        out = self.certify_rd(drv, p, beta, dist, core_rd_result(*pair), q, r, converged=full)
        if out and dist in ('hamming', 'default') and len(p) == 2 and not r.bad() and full:
            self.bernoulli_closed_form(p, out, r)

    @staticmethod
    def bernoulli_closed_form(p, out, r):
        rate, D = out
        pm = min(p)
        if 1e-6 < D < pm - 1e-6:
            want = H2(pm) - H2(D)
            if abs(rate - want) > 1e-2:
                r.oracle_fail = 'Bernoulli(%r) source at distortion %r: rate %r, R(D) = H(p) - H(D) = %r' % (pm, D, rate, want)

    @staticmethod
    def in_child(fn):
        """fn() evaluated in a forked copy of this process; its (picklable) value is returned. Whatever the calls leave
        behind in the library's module state ends with the child: the sequence of a case is judged on its own calls, it
        replays alone, and it cannot disturb the cases that follow it in this worker."""
        rfd, wfd = os.pipe()
        pid = os.fork()
        if pid == 0:
            try:
                os.close(rfd)
                try:
                    payload = ('ok', fn(), covtrace.snapshot())
                except BaseException as e:   # noqa
                    payload = ('exc', '%s: %s' % (type(e).__name__, str(e)[:300]), None)
                with os.fdopen(wfd, 'wb') as f:
                    pickle.dump(payload, f)
            finally:
                os._exit(0)
        os.close(wfd)
        with os.fdopen(rfd, 'rb') as f:
            data = f.read()
        os.waitpid(pid, 0)
        if not data:
            raise RuntimeError('the process running the calls ended without a result')
        tag, val, hits = pickle.loads(data)
        if tag != 'ok':
            raise RuntimeError(val)
        covtrace.merge(hits)
        return val

    def run_rd_seq(self, case, drv, r):
        """Several blahut_arimoto calls one after the other in this process; the statement holds for every one of them,
        whatever was computed before (sources may have letters of probability exactly 0)."""
        steps = case['steps']
        r.features.append('steps=%d' % len(steps))
        r.nontrivial = len(steps) >= 2 and any(st['beta'] > 0 for st in steps)
        seen_zero = set()
        srcs = [[float(Fraction(v)) for v in st['p']] for st in steps]

        def calls():
            out = []
            for p, st in zip(srcs, steps):
                res, q = self.ba(p, st['beta'], st['dist'], st.get('max_iters', 100))
                out.append(((float(res.rate), float(res.distortion)), np.array(q, dtype=float)))
            return out
        results = self.in_child(calls)
        for i, st in enumerate(steps):
            p = srcs[i]
            beta, dist, mi_ = st['beta'], st['dist'], st.get('max_iters', 100)
            if any(v == 0 for v in p):
                r.features.append('step-source-with-zero')
            elif len(p) in seen_zero and dist == 'hamming':
                r.features.append('positive-source-after-zero-source-of-same-size')
            res, q = core_rd_result(*results[i][0]), results[i][1]
            out = self.certify_rd(drv, p, beta, dist, res, q, r, converged=mi_ >= 100)
            if out and dist == 'hamming' and len(p) == 2 and not r.bad() and mi_ >= 100:
                self.bernoulli_closed_form(p, out, r)
            if r.bad():
                where = 'call %d of %d (%s, source %s, beta %s, max_iters %s), after calls on the sources %s: ' % (
                    i + 1, len(steps), dist, st['p'], beta, mi_, [s_['p'] for s_ in steps[:i]])
                if r.oracle_fail:
                    r.oracle_fail = where + r.oracle_fail
                else:
                    r.mismatch = where + r.mismatch
                r.detail = dict(r.detail or {}, step=i)
                return
            if any(v == 0 for v in p):
                seen_zero.add(len(p))

    def run_rd_mono(self, case, drv, r):
        p = [float(Fraction(v)) for v in case['p']]
        r.nontrivial = True
        prev = None
        for beta in case['betas']:
            res, q = self.ba(p, beta, 'hamming')
            out = self.certify_rd(drv, p, beta, 'hamming', res, q, r)
            if out is None or r.bad():
                return
            if prev is not None:
                if out[0] < prev[0] - 1e-2 or out[1] > prev[1] + 1e-2:
                    r.oracle_fail = ('along increasing beta the rate fell or the distortion rose: (R, D) = %s at beta %s '
                                     'after %s' % (out, beta, prev))
                    return
            prev = out

    def run_ba_iter(self, case, drv, r):
        """Correspondence on the iteration itself: the real `_blahut_arimoto`, started from a given channel and cut after
        k sweeps, against the model's `baIterates` (Core/BA.lean) with the code's stopping rule applied to the model's
        own distortion sequence."""
        from dit.rate_distortion.blahut_arimoto import _blahut_arimoto
        from dit.rate_distortion.distortions import hamming_distortion, residual_entropy_distortion
        n, ny = case['shape']
        pxy = np.array([float(Fraction(v)) for v in case['pxy']]).reshape(n, ny)
        p = pxy.sum(axis=1)
        W0 = np.array([[float(Fraction(v)) for v in row] for row in case['W0']])
        beta, k, dist = case['beta'], case['k'], case['dist']
        r.features += ['dist=%s' % dist, 'k=%s' % k, 'beta=%s' % beta]
        r.nontrivial = k >= 1 and beta > 0
        if dist == 'hamming':
            f = hamming_distortion
        elif dist == 'residual':
            f = residual_entropy_distortion
        else:
            pyx = pxy / p[:, None]

            def f(p_x, q_t_x):
                q = q_t_x[:, None, :] * pxy[:, :, None]
                qty = q.sum(axis=0).T
                with np.errstate(all='ignore'):
                    qyt = qty / qty.sum(axis=1, keepdims=True)
                qyt[np.isnan(qyt)] = 1
                with np.errstate(all='ignore'):
                    return np.array([[float(np.sum(np.where(a > 0, a * np.log2(a / b), 0.0))) for b in qyt] for a in pyx])
            if case.get('via') != 'own':
                # take the distortion function the library itself builds inside blahut_arimoto_ib
                f = self.ib_distortion_of_library(pxy) or f
        with np.errstate(all='ignore'):
            res, q = _blahut_arimoto(p_x=p, beta=beta, q_y_x=W0.copy(), distortion=f, max_iters=k)
        q = np.array(q, dtype=float)
        kk = min(k, 100)
        its = drv.call('baf', [dist, f2bits(beta), fv(p), fm(W0), kk, fm(pxy)])
        Ws = [np.array([[bits2f(v) for v in row] for row in W]) for W, _ in its]
        ds = [bits2f(dv) for _, dv in its]
        # the code's loop: prev_d = 0; while not isclose(prev_d, d) and iters < max_iters
        prev, it, ambiguous = 0.0, 0, False
        while it < kk:
            gapv = abs(prev - ds[it]) - (1e-8 + 1e-5 * abs(ds[it]))
            if abs(gapv) < 1e-12:
                ambiguous = True
            if gapv <= 0:
                break
            prev, it = ds[it], it + 1
        r.detail = {'iterations_model': it, 'd_sequence': ds[:it + 1], 'reported': [float(res.rate), float(res.distortion)]}
        if ambiguous or not np.all(np.isfinite(Ws[it])):
            r.features.append('ba-iter-not-compared')
            return
        want = p[:, None] * Ws[it]
        dev = float(np.abs(want - q).max())
        r.detail['max_dev'] = dev
        if dev > 1e-9:
            r.mismatch = '_blahut_arimoto after %d sweeps: returned joint differs from the model iterate by %r' % (it, dev)
        elif abs(float(res.distortion) - ds[it]) > 1e-9:
            r.mismatch = '_blahut_arimoto reports distortion %r, the model iterate has %r' % (float(res.distortion), ds[it])
        # oracle on the real output, whatever the number of sweeps
        if np.abs(q.sum(axis=1) - p).max() > 1e-9:
            r.oracle_fail = 'the input marginal of the returned joint is not the source'
            return
        mi = bits2f(drv.call('chanf', ['jointmi', [], fm(q), []]))
        if abs(float(res.rate) - mi) > 1e-7:
            r.oracle_fail = 'reported rate %r but the returned joint has I = %r' % (float(res.rate), mi)
            return
        with np.errstate(all='ignore'):
            dm = np.array(f(p, q / q.sum(axis=1, keepdims=True)), dtype=float)
        if np.all(np.isfinite(dm)):
            ed = bits2f(drv.call('chanf', ['expdist', [], fm(q), fm(dm)]))
            if abs(float(res.distortion) - ed) > 1e-7:
                r.oracle_fail = 'reported distortion %r but the returned joint has E[d] = %r' % (float(res.distortion), ed)

    @staticmethod
    def ib_distortion_of_library(pxy):
        """The closure `distortion` that blahut_arimoto_ib hands to blahut_arimoto (captured, not copied)."""
        import dit.rate_distortion.blahut_arimoto as B
        captured = {}
        orig = B.blahut_arimoto

        def spy(p_x, beta, distortion, max_iters=100, restarts=100):
            captured['f'] = distortion
            n = len(p_x)
            return orig(p_x=p_x, beta=beta, distortion=distortion, max_iters=1, restarts=1)
        B.blahut_arimoto = spy
        try:
            with np.errstate(all='ignore'):
                B.blahut_arimoto_ib(pxy, 1.0, max_iters=1, restarts=1)
        except Exception:
            pass
        finally:
            B.blahut_arimoto = orig
        return captured.get('f')

    def run_ib(self, case, drv, r):
        r.features.append('max_iters=%s' % case.get('max_iters', 100))
        r.nontrivial = True
        # the restarts draw from NumPy's global generator: three different sets of restarts per problem, few and many
        for sd, restarts in ((4321, 12), (7, 3), (99, 6)):
            self.run_ib_once(case, drv, r, sd, restarts)
            if r.bad():
                r.detail = dict(r.detail or {}, numpy_seed=sd, restarts=restarts)
                return

    def run_ib_opt(self, case, drv, r):
        """blahut_arimoto_ib with `restarts`, `max_iters`, `divergence` left to their defaults or passed; one call, judged
        by the same clauses as every other one."""
        r.features += ['restarts=%s' % ('default' if case['restarts'] is None else case['restarts']),
                       'max_iters=%s' % ('default' if case['max_iters'] is None else case['max_iters']),
                       'divergence=%s' % case.get('divergence', 'default')]
        r.nontrivial = True
        self.run_ib_once(case, drv, r, 4321, case['restarts'])
        if r.bad():
            r.detail = dict(r.detail or {}, numpy_seed=4321, restarts=case['restarts'])

    def run_ib_once(self, case, drv, r, sd, restarts):
        from dit.rate_distortion.blahut_arimoto import blahut_arimoto_ib
        nx, ny = case['shape']
        pxy = np.array([float(Fraction(v)) for v in case['pxy']]).reshape(nx, ny)
        beta = case['beta']
        import dit.math
        dit.math.prng.seed(sd)
        np.random.seed(sd)
        mi_ = case.get('max_iters', 100)
        kw = {}
        if restarts is not None:
            kw['restarts'] = restarts        # (None: the documented default, 250)
        if mi_ is not None:
            kw['max_iters'] = mi_            # (None: the documented default, 100)
        if case.get('divergence', 'default') != 'default':
            from dit.divergences.pmf import relative_entropy
            kw['divergence'] = relative_entropy   # the documented default, passed
        res, q = blahut_arimoto_ib(pxy, beta, **kw)
        q = np.array(q)
        if np.abs(q.sum(axis=2) - pxy).max() > 1e-9 or (q < -1e-12).any():
            r.oracle_fail = 'the (x, y) marginal of the returned joint is not the input'
            return
        qxt = q.sum(axis=1)
        mi = bits2f(drv.call('chanf', ['jointmi', [], fm(qxt), []]))
        if abs(float(res.rate) - mi) > 1e-7:
            r.oracle_fail = 'reported rate %r, I(X;T) of the returned joint %r' % (float(res.rate), mi)
            return
        # Markov chain T - X - Y: q(x,y,t) p(x) = p(x,y) q(x,t)
        px = pxy.sum(axis=1)
        lhs = q * px[:, None, None]
        rhs = pxy[:, :, None] * qxt[:, None, :]
        if np.abs(lhs - rhs).max() > 1e-9:
            r.oracle_fail = 'the bottleneck variable does not depend on x alone'
            return
        ixy = bits2f(drv.call('chanf', ['jointmi', [], fm(pxy), []]))
        ity = bits2f(drv.call('chanf', ['jointmi', [], fm(q.sum(axis=0).T), []]))
        if abs(float(res.distortion) - (ixy - ity)) > 1e-6:
            r.oracle_fail = 'reported distortion %r, E[KL(p(y|x)||q(y|t))] = I(X;Y) - I(T;Y) = %r' % (float(res.distortion), ixy - ity)
            return
        if mi_ is None or mi_ >= 100:
            # optimality for the distortion matrix of the returned joint, held fixed: d(x,t) = KL(p(y|x) || q(y|t))
            qty = q.sum(axis=0).T
            used = [t for t in range(qty.shape[0]) if qty[t].sum() > 1e-12]
            pyx = pxy / px[:, None]
            with np.errstate(all='ignore'):
                dm = np.array([[float(np.sum(np.where(pyx[x] > 0, pyx[x] * np.log2(pyx[x] / (qty[t] / qty[t].sum())), 0.0)))
                                for t in used] for x in range(nx)])
            if np.isfinite(dm).all():
                qx = qxt[:, used]
                lb = bits2f(drv.call('chanf', ['rdbound', fv([beta]), fm(qx), fm(dm)]))
                ach = mi + beta * bits2f(drv.call('chanf', ['expdist', [], fm(qx), fm(dm)]))
                if ach - lb > IB_GAP_TOL:
                    # the bound is tight only at the optimum: evaluate it also at a long-run iterate for this matrix
                    qt = np.ones(len(used)) / len(used)
                    for _ in range(3000):
                        A = qt * np.exp2(-beta * (dm - dm.min(axis=1, keepdims=True)))
                        A /= A.sum(axis=1, keepdims=True)
                        qt = np.maximum(px @ A, 1e-300)
                    lb = max(lb, bits2f(drv.call('chanf', ['rdbound', fv([beta]), fm(px[:, None] * A), fm(dm)])))
                # stationarity (first-order condition of R + beta D for this matrix): q(t|x) is proportional to q(t) 2^(-beta d(x,t))
                cond = qx / px[:, None]
                Afp = qx.sum(axis=0) * np.exp2(-beta * (dm - dm.min(axis=1, keepdims=True)))
                Afp /= Afp.sum(axis=1, keepdims=True)
                resid = float(np.abs(Afp - cond).max())
                r.detail = dict(r.detail or {}, ib_stationarity_residual=resid)
                if resid > 1.5e-3:
                    # Recorded, not judged: stationarity of the channel itself is stricter than the statement. Along flat
                    # directions of the objective the code's stopping rule (successive distortions np.isclose) leaves a
                    # channel residual of 4.3e-3 at an objective gap of 8.2e-5 (pxy = 1/15, 1/3, 4/15, 1/3, beta 12, three
                    # restarts). The statement's clause is the objective-level one below, with IB_GAP_TOL as before.
                    tag = 'ib-stationarity>1.5e-3'
                    if tag not in r.features:
                        r.features.append(tag)
                r.detail = dict(r.detail or {}, ib_gap=ach - lb)
                if ach - lb > IB_GAP_TOL:
                    r.oracle_fail = ('IB: R + beta D = %r for the distortion matrix of the returned joint, but some test channel '
                                     'achieves at most %r + tolerance (gap %r)' % (ach, lb, ach - lb))


PROP = C13()
