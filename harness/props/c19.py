"""
C19 — Distributions and entropies inferred from data are the empirical frequencies.
"""
import json
import math
import os
from fractions import Fraction

import numpy as np

import core
import covtrace
from driver import q, unq, DriverError
import gen
from env import import_dit


class C19(object):
    id = 'C19'
    rule = ("symbol sequences of length 1-40 over 1-4 symbols (scalar observations, or vector observations of width 2), "
            "all word lengths L up to min(len, 5), history/future splits, bases linear/2/e, trim on/off; estimators "
            "entropy_0/1/2; binned() with 1-6 bins, both styles, data with ties; non-trivial = at least two distinct "
            "words, one of them repeated. Wide observations: 1-6 variables, 1-8 (sometimes up to 40) time steps, so that "
            "there may be fewer time steps than variables; given to dist_from_timeseries as an array, a list of tuples or a "
            "list of lists. Sessions: 2-5 calls (distribution_from_data, dist_from_timeseries, counts_from_data, the three "
            "estimators) one after the other in one fresh process on equal data, mostly with the same word length, every "
            "call judged exactly like a single call; non-trivial = a non-trivial call preceded by one with the same L. "
            "distribution_from_data with base=None or no base at all: the base is then dit.ditParams['base'], left at its "
            "default or set (linear, 2, e, 10, 0.5) for the call and restored. binned() on 2-d input: 1-4 series of 2-40 "
            "samples as the columns of an array, a list of lists or a list of tuples, each series with a range and offset "
            "of its own, judged series by series exactly like a 1-d call; bins / style sometimes left to their defaults. "
            "Containers: 1-4 calls in one fresh process on equal samples given as a list, a tuple, an array or (scalar "
            "symbols, estimators only) a string, mostly the same container throughout; an estimator call evaluates 1-5 of "
            "entropy_0/1/2 and get_counts in any order, with repeats, each value judged against its formula on the window "
            "counts (get_counts: against the window counts themselves)")
    tolerances = {'counts and frequencies': 'exact (count / windows, one float division)', 'entropies': 'rtol 1e-9'}
    exhaustive = {'thorough': True}
    modelled = ("digamma comes from SciPy on both sides; binning is decided by the oracle (range, monotonicity, threshold "
                "formula, balance) - there is no Lean model of np.percentile")

    def gen(self, rng, tier):
        n = 200 if tier == 'quick' else 25000
        if tier == 'thorough':
            import itertools
            for L in range(1, 11):
                for seq in itertools.product([0, 1], repeat=L):
                    yield {'kind': 'dist', 'data': [[x] for x in seq], 'vector': False, 'L': 1 + (sum(seq) + L) % min(L, 4),
                           'base': 'linear', 'trim': True, 'h': 0}
        for _ in range(n):
            k = rng.randint(1, 4)
            ln = rng.randint(1, 40)
            vector = rng.random() < 0.3
            if vector:
                data = [[rng.randrange(k), rng.randrange(2)] for _ in range(ln)]
            else:
                if rng.random() < 0.3:
                    # markov-ish with repeats
                    data = [[0]]
                    for _ in range(ln - 1):
                        data.append([data[-1][0] if rng.random() < 0.6 else rng.randrange(k)])
                else:
                    data = [[rng.randrange(k)] for _ in range(ln)]
            L = rng.randint(1, min(ln, 5))
            kind = rng.choice(['dist', 'dist', 'cond', 'timeseries', 'entropy', 'binning'])
            if kind == 'timeseries' and vector and ln < 2:
                kind = 'dist'     # a single vector observation is read as two scalar observations by np.atleast_2d
            c = {'kind': kind, 'data': data, 'vector': vector, 'L': L, 'base': rng.choice(['linear', 2, 'e']),
                 'trim': rng.random() < 0.7, 'h': rng.randint(0, L)}
            if kind == 'cond':
                syms = sorted(set(tuple(x) for x in data))
                hint = rng.choice(['none', 'none', 'subset', 'superset', 'exact'])
                if hint == 'subset':
                    c['alphabet'] = [list(s) for s in syms[:max(1, len(syms) - 1)]]
                elif hint == 'superset':
                    c['alphabet'] = [list(s) for s in syms] + [[7] * len(data[0])]
                elif hint == 'exact':
                    c['alphabet'] = [list(s) for s in syms]
            if kind == 'entropy' and rng.random() < 0.06:
                # a long, skewed sequence: some word occurs thousands of times
                m = rng.choice([1500, 3000, 6000])
                c['data'] = [[0] if rng.random() < 0.8 else [rng.randrange(k)] for _ in range(m)]
                c['vector'] = False
                c['L'] = rng.randint(1, 2)
            if kind == 'binning':
                m = rng.choice([rng.randint(2, 30), rng.randint(2, 30), rng.randint(100, 320)])
                style = rng.choice(['maxent', 'uniform'])
                ties = rng.random() < 0.4
                if ties:
                    ts = [float(rng.randint(0, 5)) for _ in range(m)]
                else:
                    ts = rng.sample([i / 8.0 for i in range(-80, 81)] if m <= 160 else [i / 8.0 for i in range(-400, 401)], m)
                # ranges from 1e-3 to 1e7: the slack 1e-12 in uniform_binning's denominator is absorbed for big ranges
                scale = rng.choice([1.0, 1.0, 2.0 ** -10, 1024.0, 2.0 ** 20])
                ts = [x * scale for x in ts]
                c.update({'ts': ts, 'bins': rng.randint(1, 9), 'style': style, 'ties': ties, 'scale': scale})
            yield c
        # (the two streams below draw after the one above, which therefore yields the same cases as before they existed)
        # --- wide observations: 1-6 variables per observation and few time steps, so both 'more steps than variables' and
        #     'fewer steps than variables' occur; dist_from_timeseries gets the observations in each documented form
        for _ in range(n // 4):
            w = rng.randint(1, 6)
            ln = rng.choice([rng.randint(1, 8), rng.randint(1, 8), rng.randint(1, 40)])
            k = rng.randint(1, 3)
            data = []
            for _i in range(ln):
                if data and rng.random() < 0.45:
                    data.append(list(rng.choice(data)))      # repeated observations, so that words repeat
                else:
                    data.append([rng.randrange(k) for _j in range(w)])
            L = rng.randint(1, min(ln, 5))
            kind = rng.choice(['dist', 'cond', 'timeseries', 'timeseries', 'entropy'])
            if kind == 'timeseries' and ln < 2:
                kind = 'dist'     # see above: one observation row is a flat series
            h = rng.randint(0, L)
            nsym = len(set(tuple(x) for x in data))
            while kind == 'cond' and nsym ** (L - h) > 20000:
                h += 1            # counts_from_data is dense in the futures: alphabet ** fLength columns
            yield {'kind': kind, 'data': data, 'vector': True, 'L': L, 'base': rng.choice(['linear', 2, 'e']),
                   'trim': rng.random() < 0.7, 'h': h, 'form': rng.choice(['array', 'tuples', 'lists'])}
        # --- sessions: several calls in one process on equal data
        for _ in range(n // 3):
            k = rng.randint(1, 4)
            ln = rng.randint(2, 30)
            vector = rng.random() < 0.4
            if vector:
                w = rng.randint(2, 3)
                data = [[rng.randrange(min(k, 2)) for _j in range(w)] for _i in range(ln)]
            else:
                data = [[0]]
                for _i in range(ln - 1):
                    data.append([data[-1][0] if rng.random() < 0.3 else rng.randrange(k)])
            L0 = rng.randint(1, min(ln, 4))
            steps = []
            for _i in range(rng.randint(2, 5)):
                Ls = L0 if rng.random() < 0.75 else rng.randint(1, min(ln, 4))
                steps.append({'kind': rng.choice(['dist', 'timeseries', 'entropy', 'cond']), 'L': Ls,
                              'base': rng.choice(['linear', 2, 'e']), 'trim': rng.random() < 0.7,
                              'h': Ls if rng.random() < 0.4 else rng.randint(0, Ls),
                              'form': rng.choice(['array', 'tuples', 'lists'])})
            yield {'kind': 'session', 'data': data, 'vector': vector, 'L': max(s['L'] for s in steps), 'base': 'linear',
                   'trim': True, 'h': 0, 'steps': steps}
        # --- distribution_from_data without a base: the base is dit.ditParams['base'] (default, or set for the call)
        for _ in range(n // 8):
            k = rng.randint(1, 4)
            ln = rng.randint(1, 30)
            vector = rng.random() < 0.3
            if vector:
                data = [[rng.randrange(k), rng.randrange(2)] for _i in range(ln)]
            else:
                data = [[0]]
                for _i in range(ln - 1):
                    data.append([data[-1][0] if rng.random() < 0.4 else rng.randrange(k)])
            L = rng.randint(1, min(ln, 4))
            yield {'kind': 'dist', 'data': data, 'vector': vector, 'L': L, 'base': None, 'trim': rng.random() < 0.7, 'h': 0,
                   'base_arg': rng.choice(['omitted', 'none']),
                   'params_base': rng.choice(['default', 'default', 'linear', 2, 'e', 10, 0.5])}
        # --- binned() on 2-d input: every column is a series of its own
        for _ in range(n // 6):
            ncols = rng.randint(1, 4)
            m = rng.choice([rng.randint(2, 12), rng.randint(2, 40)])
            cols, ties = [], []
            for _j in range(ncols):
                tie = rng.random() < 0.4
                if tie:
                    ts = [float(rng.randint(0, 5)) for _i in range(m)]
                else:
                    ts = rng.sample([i / 8.0 for i in range(-80, 81)], m)
                scale = rng.choice([1.0, 1.0, 2.0 ** -10, 1024.0, 2.0 ** 20])
                shift = rng.choice([0.0, 0.0, 64.0, -1024.0])
                cols.append([x * scale + shift for x in ts])
                ties.append(tie)
            c = {'kind': 'binning', 'data': [[0]], 'vector': False, 'L': 1, 'base': 'linear', 'trim': True, 'h': 0,
                 'cols': cols, 'ties': ties, 'bins': rng.randint(1, 9), 'style': rng.choice(['maxent', 'uniform']),
                 'form': rng.choice(['array', 'array', 'lists', 'tuples']), 'defaults': False}
            if rng.random() < 0.15:
                c.update({'bins': 2, 'style': 'maxent', 'defaults': True})    # binned(ts): bins=2, style='maxent'
            yield c
        # --- the samples in every container the functions accept (list, tuple, string, array), the estimators and
        #     get_counts in any order and repeated, one call or several calls in one process on equal data
        for _ in range(n // 3):
            k = rng.randint(1, 4)
            ln = rng.randint(2, 30)
            vector = rng.random() < 0.3
            if vector:
                w = rng.randint(2, 3)
                data = [[rng.randrange(min(k, 2)) for _j in range(w)] for _i in range(ln)]
            else:
                data = [[0]]
                for _i in range(ln - 1):
                    data.append([data[-1][0] if rng.random() < 0.3 else rng.randrange(k)])
            conts = ['list', 'tuple', 'array'] + ([] if vector else ['str'])
            cont0 = rng.choice(conts)
            L0 = rng.randint(1, min(ln, 4))
            steps = []
            for _i in range(rng.randint(1, 4)):
                Ls = L0 if rng.random() < 0.8 else rng.randint(1, min(ln, 4))
                kd = rng.choice(['entropy', 'entropy', 'entropy', 'dist', 'cond'])
                cont = cont0 if rng.random() < 0.75 else rng.choice(conts)
                if kd != 'entropy' and cont == 'str':
                    cont = 'tuple'     # (the words of a string are not compared for dist / cond; see `in_container`)
                st = {'kind': kd, 'L': Ls, 'base': rng.choice(['linear', 2, 'e']), 'trim': rng.random() < 0.7,
                      'h': Ls if rng.random() < 0.4 else rng.randint(0, Ls), 'container': cont}
                if kd == 'entropy':
                    if rng.random() < 0.3:
                        st['order'] = list(self.ESTIMATORS)
                    else:
                        st['order'] = [rng.choice(self.ESTIMATORS + ('get_counts',)) for _j in range(rng.randint(1, 5))]
                steps.append(st)
            yield {'kind': 'session', 'data': data, 'vector': vector, 'L': max(s['L'] for s in steps), 'base': 'linear',
                   'trim': True, 'h': 0, 'steps': steps}

    ESTIMATORS = ('entropy_0', 'entropy_1', 'entropy_2')

    @staticmethod
    def in_container(pydata, vector, cont):
        """The same samples in another of the containers the inference functions accept."""
        if cont == 'tuple' or (cont == 'str' and vector):
            return tuple(pydata)
        if cont == 'str':
            return ''.join('abcdefghij'[x] for x in pydata)      # order of the letters = order of the symbols
        if cont == 'array':
            return np.array([list(x) for x in pydata]) if vector else np.array(pydata)
        return list(pydata)

    def shrink(self, case):
        data = case['data']
        if case['kind'] == 'session':
            for c in self.shrink_session(case):
                yield c
            return
        # (a single vector-valued observation is a flat series for dist_from_timeseries: never shrink down to it)
        minlen = max(case['L'], 2 if case['kind'] == 'timeseries' and case['vector'] else 1)
        if len(data) > minlen:
            for i in range(len(data)):
                c = dict(case)
                c['data'] = data[:i] + data[i + 1:]
                yield c
        if case['L'] > 1:
            c = dict(case)
            c['L'] = case['L'] - 1
            c['h'] = min(case['h'], c['L'])
            yield c
        if case['vector'] and data and len(data[0]) > 2 and 'form' in case:
            for j in range(len(data[0])):
                c = dict(case)
                c['data'] = [x[:j] + x[j + 1:] for x in data]
                yield c

    def shrink_session(self, case):
        data, steps = case['data'], case['steps']
        if len(steps) == 1:
            c = {k: v for k, v in case.items() if k != 'steps'}
            c.update(steps[0])
            yield c
            return
        for i in range(len(steps)):
            c = dict(case)
            c['steps'] = steps[:i] + steps[i + 1:]
            c['L'] = max(s['L'] for s in c['steps'])
            yield c
        minlen = max(max(s['L'] for s in steps), 2 if case['vector'] and any(s['kind'] == 'timeseries' for s in steps) else 1)
        if len(data) > minlen:
            for i in range(len(data)):
                c = dict(case)
                c['data'] = data[:i] + data[i + 1:]
                yield c
        if len(set(s['L'] for s in steps)) == 1 and steps[0]['L'] > 1:
            c = dict(case)
            c['steps'] = [dict(s, L=s['L'] - 1, h=min(s['h'], s['L'] - 1)) for s in steps]
            c['L'] = steps[0]['L'] - 1
            yield c

    def run_session(self, case, drv):
        """Several calls, one after the other, on equal data.  They are made in a forked child process: whatever the calls
        leave behind in dit's modules can then reach neither another case, nor a shrink of this one, nor its replay - each
        of these starts from the state of the parent, which never executes a session itself."""
        if not hasattr(os, 'fork'):
            return self.session_calls(case, drv)
        rd, wr = os.pipe()
        pid = os.fork()
        if pid == 0:
            try:
                os.close(rd)
                before = set(covtrace.snapshot())
                try:
                    res = self.session_calls(case, drv)
                    msg = {'result': res.__dict__, 'cov': [h for h in covtrace.snapshot() if h not in before]}
                except DriverError as e:
                    msg = {'driver': str(e)}
                except BaseException as e:  # noqa
                    msg = {'error': '%s: %s' % (type(e).__name__, str(e)[:300])}
                with os.fdopen(wr, 'w') as f:
                    json.dump(msg, f, default=str)
            finally:
                os._exit(0)
        os.close(wr)
        with os.fdopen(rd) as f:
            raw = f.read()
        os.waitpid(pid, 0)
        msg = json.loads(raw) if raw else {'error': 'the process making the calls died'}
        if 'driver' in msg:
            raise DriverError(msg['driver'])
        if 'error' in msg:
            raise RuntimeError(msg['error'])
        covtrace.merge([tuple(h) for h in msg['cov']])
        r = core.Result()
        r.__dict__.update(msg['result'])
        return r

    def session_calls(self, case, drv):
        r = core.Result()
        steps = case['steps']
        r.site = 'sequence of calls'
        r.features = ['kind=session', 'vector=%s' % case['vector'], 'len=%d' % len(case['data']), 'calls=%d' % len(steps)]
        r.features += sorted(set('then=%s>%s%s' % (a['kind'], b['kind'], '' if a['L'] == b['L'] else '(other L)')
                                 for a, b in zip(steps, steps[1:])))
        if any('container' in s for s in steps):
            r.features.append('containers=%s' % '+'.join(sorted(set(s.get('container', 'list') for s in steps))))
        said = []
        for i, st in enumerate(steps):
            sub = {k: v for k, v in case.items() if k != 'steps'}
            sub.update(st)
            ri = core.safe_run(self, sub, drv)
            if ri.nontrivial and any(s['L'] == st['L'] for s in steps[:i]):
                r.nontrivial = True
            what = '%s L=%d%s' % (st['kind'], st['L'], ' h=%d' % st['h'] if st['kind'] == 'cond' else '')
            if ri.bad():
                where = 'call %d of %d on equal data [%s], after [%s]: ' % (i + 1, len(steps), what, '; '.join(said))
                r.oracle_fail = where + ri.oracle_fail if ri.oracle_fail else None
                r.mismatch = where + ri.mismatch if ri.mismatch else None
                r.site = '%s within a sequence of calls' % ri.site
                r.detail = {'failing_call': i + 1, 'call': st, 'detail': ri.detail}
                return r
            said.append(what)
        r.detail = {'calls': said}
        return r

    def run(self, case, drv):
        dit = import_dit()
        from dit.inference.counts import counts_from_data, distribution_from_data
        from dit.inference import entropy_0, entropy_1, entropy_2, dist_from_timeseries, binned
        from scipy.special import digamma
        r = core.Result()
        kind = case['kind']
        if kind == 'session':
            return self.run_session(case, drv)
        r.site = {'dist': 'distribution_from_data', 'cond': 'counts_from_data', 'timeseries': 'dist_from_timeseries',
                  'entropy': 'entropy_0/1/2', 'binning': 'binned'}[kind]
        data = case['data']
        L = case['L']
        vector = case['vector']
        pydata = [tuple(x) for x in data] if vector else [x[0] for x in data]
        r.features = ['kind=%s' % kind, 'vector=%s' % vector, 'L=%d' % L, 'len=%d' % len(data), 'base=%s' % case['base']]
        if vector and 'form' in case:
            width = len(data[0])
            r.features += ['width=%d' % width, 'steps-vs-variables=%s' % ('fewer' if len(data) < width else
                                                                           'equal' if len(data) == width else 'more')]

        if kind == 'binning':
            return self.run_binning(case, r, binned, drv)
        cont = case.get('container', 'list')
        arg = pydata            # what the functions are given; the oracle keeps reading the list `pydata`
        if 'container' in case:
            if cont == 'str' and (vector or kind != 'entropy'):
                cont = 'tuple'
            r.features.append('container=%s' % cont)
            arg = self.in_container(pydata, vector, cont)

        words, nwin = drv.call('counts', [L, data])
        mcounts = {tuple(tuple(s) for s in w): c for w, c in words}
        r.nontrivial = len(mcounts) >= 2 and max(mcounts.values()) >= 2

        def pyword(w):
            # model word (tuple of symbol-lists) -> python word
            return tuple(tuple(s) for s in w) if vector else tuple(s[0] for s in w)

        expected = {pyword(w): Fraction(c, nwin) for w, c in mcounts.items()}

        if kind == 'dist':
            base = case['base']
            if base is None:
                # no base given: the documented fallback is dit.ditParams['base'], whatever it is at the time of the call
                pb = case.get('params_base', 'default')
                kw = {} if case.get('base_arg') == 'omitted' else {'base': None}
                r.features += ['base-arg=%s' % case.get('base_arg', 'none'), 'ditParams-base=%s' % pb]
                saved = dit.ditParams['base']
                try:
                    if pb != 'default':
                        dit.ditParams['base'] = pb
                    base = dit.ditParams['base']
                    d = distribution_from_data(arg, L, trim=case['trim'], **kw)
                finally:
                    dit.ditParams['base'] = saved
            else:
                d = distribution_from_data(arg, L, trim=case['trim'], base=base)
            got = {}
            for o, v in zip(d.outcomes, d.pmf):
                key = o if (L > 1 or isinstance(o, tuple) and vector is False and False) else o
                got[key] = gen.lin_of(v, base)
            # L == 1: outcomes are the symbols themselves (modify_outcomes o -> o[0]) when that works
            norm = {}
            for k, v in got.items():
                if L == 1 and not (isinstance(k, tuple) and len(k) == 1 and (not vector or isinstance(k[0], tuple))):
                    k = (k,)
                norm[k] = v
            want = {k: float(v) for k, v in expected.items()}
            r.detail = {'impl': {str(k): v for k, v in norm.items()}, 'model': {str(k): str(v) for k, v in expected.items()}}
            if d.get_base() != base:
                r.oracle_fail = ('base of the inferred distribution is %r, requested %r' % (d.get_base(), base)
                                 if case['base'] is not None else
                                 "base of the inferred distribution is %r; none was requested and dit.ditParams['base'] is %r"
                                 % (d.get_base(), base))
            pos = {k: v for k, v in norm.items() if v != 0}
            if set(pos) != set(want):
                r.mismatch = 'words: impl %s model %s' % (sorted(map(str, pos)), sorted(map(str, want)))
                r.oracle_fail = r.oracle_fail or self.direct_freq(pydata, L, norm)
            else:
                for k in want:
                    tol = 0 if base == 'linear' else 1e-9
                    if abs(pos[k] - want[k]) > tol * want[k]:
                        r.mismatch = 'P(%s): impl %r model %s' % (k, pos[k], expected[k])
                        r.oracle_fail = r.oracle_fail or self.direct_freq(pydata, L, norm)
                        break
            return r

        if kind == 'cond':
            h = case['h']
            f = L - h
            hint = case.get('alphabet')
            if hint is not None and not vector:
                # observations are scalars (or tuples for vector data): a hint lists symbols of observations
                pyhint = [s[0] for s in hint]
            elif hint is not None:
                pyhint = None    # for vector observations the alphabet is over observation tuples' own elements
            else:
                pyhint = None
            r.features.append('alphabet-hint=%s' % (pyhint is not None))
            hist, cC, hC, alphabet = counts_from_data(arg, h, f, alphabet=pyhint)
            mc, mh = drv.call('condcounts', [h, f, data])
            import itertools
            futures = list(itertools.product(alphabet, repeat=f))
            impl_c = {}
            for i, hh in enumerate(hist):
                for j, ff in enumerate(futures):
                    if cC[i, j] != 0:
                        impl_c[(tuple(hh), tuple(ff))] = int(cC[i, j])
            impl_h = {tuple(hh): int(c) for hh, c in zip(hist, hC)}

            def pw(w):
                return tuple(tuple(s) for s in w) if vector else tuple(s[0] for s in w)
            model_c = {(pw(a), pw(b)): c for a, b, c in mc}
            model_h = {pw(a): c for a, c in mh}
            r.detail = {'impl_hist': str(impl_h), 'model_hist': str(model_h)}
            # oracle: counts are whole numbers; rows add up to the history counts; history counts are the window counts
            frac = [(tuple(hh), float(c)) for hh, c in zip(hist, hC) if not (math.isfinite(c) and c == int(c))]
            frac += [(tuple(hh), float(c)) for hh, row in zip(hist, cC) for c in row if not (math.isfinite(c) and c == int(c))]
            if frac:
                r.oracle_fail = 'the count reported for history %s is %r: not a whole number of windows' % frac[0]
            elif any(abs(cC[i].sum() - hC[i]) > 0 for i in range(len(hist))):
                r.oracle_fail = 'conditional counts do not add up to the history counts'
            else:
                direct = {}
                for i in range(len(pydata) - L + 1):
                    w = tuple(pydata[i:i + L])
                    direct[w[:h]] = direct.get(w[:h], 0) + 1
                if impl_h != direct:
                    r.oracle_fail = 'history counts %s are not the window counts %s' % (impl_h, direct)
            if impl_c != model_c:
                r.mismatch = 'conditional counts: impl %s model %s' % (impl_c, model_c)
            elif impl_h != model_h:
                r.mismatch = 'history counts: impl %s model %s' % (impl_h, model_h)
            return r

        if kind == 'timeseries':
            hl = L - 1
            form = case.get('form', 'array')
            r.features.append('observations-as=%s' % form)
            if vector:
                obs = {'array': np.array([list(x) for x in data]), 'tuples': [tuple(x) for x in data],
                       'lists': [list(x) for x in data]}[form]
            else:
                obs = {'array': np.array([x[0] for x in data]), 'tuples': [(x[0],) for x in data],
                       'lists': [x[0] for x in data]}[form]
            d = dist_from_timeseries(obs, history_length=hl, base=case['base'])
            num_ts = len(data[0])
            want = {}
            for w, p in mcounts.items():
                if hl > 0:
                    pasts = tuple(tuple(o[i] for o in w[:-1]) for i in range(num_ts))
                    key = pasts + tuple(w[-1])
                else:
                    key = tuple(w[0])
                want[key] = want.get(key, 0) + Fraction(p, nwin)
            got = {}
            for o, v in zip(d.outcomes, d.pmf):
                lv = gen.lin_of(v, case['base'])
                if lv != 0:
                    k = tuple(tuple(int(z) for z in x) if isinstance(x, tuple) else int(x) for x in o)
                    got[k] = lv
            r.detail = {'impl': str(got), 'model': str(want)}
            if set(got) != set(want):
                r.mismatch = 'outcomes: impl %s model %s' % (sorted(map(str, got)), sorted(map(str, want)))
                r.oracle_fail = 'dist_from_timeseries outcomes are not the regrouped (history, present) words'
            else:
                for k in want:
                    if abs(got[k] - float(want[k])) > 1e-9 * float(want[k]):
                        r.mismatch = 'P(%s): impl %r model %s' % (k, got[k], want[k])
                        r.oracle_fail = 'probability of %s is %r, window frequency %s' % (k, got[k], want[k])
                        break
            return r

        if kind == 'entropy':
            cs = list(mcounts.values())
            N = sum(cs)
            ref0 = -sum(c / N * math.log2(c / N) for c in cs)
            ref1 = math.log2(math.e) * sum(c / N * (digamma(N) - digamma(c)) for c in cs)
            ref2 = math.log2(math.e) * sum(c / N * (digamma(N) - digamma(c) + math.log(2)
                                                     + sum((-1) ** j / j for j in range(1, c))) for c in cs)
            from dit.inference import get_counts
            fns = {'entropy_0': (entropy_0, ref0), 'entropy_1': (entropy_1, ref1), 'entropy_2': (entropy_2, ref2)}
            order = case.get('order', list(self.ESTIMATORS))
            if 'order' in case:
                r.features += ['estimators=%s' % ('0>1>2' if order == list(self.ESTIMATORS) else
                                                   'no entropy_0' if 'entropy_0' not in order else
                                                   'entropy_0 last' if order.index('entropy_0') == len(order) - 1 else
                                                   'entropy_0 then others'),
                               'get_counts=%s' % ('get_counts' in order), 'evaluations=%d' % len(order)]
            vals = {}
            done = []
            for name in order:
                ctx = ''
                if 'order' in case or 'container' in case:
                    ctx = ' (samples given as %s%s)' % ({'list': 'a list', 'tuple': 'a tuple', 'str': 'a string',
                                                         'array': 'an array'}[cont],
                                                        ', after %s on the same samples' % ', '.join(done) if done else '')
                if name == 'get_counts':
                    # the counts every estimator starts from: one entry per distinct word, its number of windows
                    try:
                        got = sorted(float(x) for x in np.asarray(get_counts(arg, L)).ravel())
                    except Exception as e:  # noqa
                        r.oracle_fail = 'get_counts raised %s: %s%s' % (type(e).__name__, str(e)[:100], ctx)
                        return r
                    vals['%d:get_counts' % len(done)] = got
                    if got != sorted(float(c) for c in cs):
                        r.mismatch = 'get_counts: impl %s, model counts %s' % (got, sorted(cs))
                        r.oracle_fail = ('get_counts(data, %d) = %s%s, but the distinct windows of length %d occur %s times'
                                         % (L, got, ctx, L, sorted(cs)))
                        break
                    done.append(name)
                    continue
                fn, ref = fns[name]
                try:
                    v = float(fn(arg, L))
                except Exception as e:  # noqa
                    r.oracle_fail = '%s raised %s: %s%s' % (name, type(e).__name__, str(e)[:100], ctx)
                    return r
                vals[name if 'order' not in case else '%d:%s' % (len(done), name)] = v
                if not (abs(v - ref) <= 1e-9 * max(1.0, abs(ref))):
                    r.mismatch = '%s: impl %r, formula on the model counts %r' % (name, v, float(ref))
                    r.oracle_fail = ('%s = %r%s, but its defining formula on the window counts gives %r'
                                     % (name, v, ctx, float(ref)))
                    break
                done.append(name)
            r.detail = {'impl': vals, 'counts': cs}
            return r
        return r

    @staticmethod
    def direct_freq(pydata, L, norm):
        n = len(pydata) - L + 1
        cnt = {}
        for i in range(n):
            w = tuple(pydata[i:i + L])
            cnt[w] = cnt.get(w, 0) + 1
        for w, c in cnt.items():
            if abs(norm.get(w, 0.0) - c / n) > 1e-9:
                return 'word %s occurs in %d of %d windows but has probability %r' % (w, c, n, norm.get(w, 0.0))
        for w, p in norm.items():
            if p != 0 and w not in cnt:
                return 'word %s never occurs but has probability %r' % (w, p)
        return None

    def run_binning(self, case, r, binned, drv):
        if 'cols' in case:
            return self.run_binning_2d(case, r, binned, drv)
        ts = np.array(case['ts'])
        bins = case['bins']
        style = case['style']
        r.features += ['style=%s' % style, 'bins=%d' % bins, 'ties=%s' % case['ties']]
        r.nontrivial = bins >= 2 and len(set(case['ts'])) >= 2
        try:
            lab = binned(ts, bins=bins, style=style)
        except Exception as e:  # noqa
            r.oracle_fail = 'binned raised %s: %s' % (type(e).__name__, str(e)[:100])
            return r
        lab = [int(x) for x in lab]
        r.detail = {'ts': case['ts'], 'labels': lab}
        self.judge_series(ts, lab, bins, style, case['ties'], r, drv)
        return r

    def run_binning_2d(self, case, r, binned, drv):
        """binned() on 2-d input (rows = samples, columns = series): every column is discretised on its own, so each
        column of the result is judged exactly like the result of a 1-d call on that series."""
        ts2 = np.array(case['cols'], dtype=float).T
        nsamp, ncols = ts2.shape
        bins, style, form = case['bins'], case['style'], case.get('form', 'array')
        arg = {'array': ts2, 'lists': ts2.tolist(), 'tuples': [tuple(row) for row in ts2.tolist()]}[form]
        r.features += ['style=%s' % style, 'bins=%d' % bins, 'series=%d' % ncols, 'samples-as=%s' % form,
                       'bins/style=%s' % ('defaults' if case.get('defaults') else 'passed'),
                       'series-with-ties=%d' % sum(bool(t) for t in case['ties'])]
        r.nontrivial = bins >= 2 and ncols >= 2 and any(len(set(c)) >= 2 for c in case['cols'])
        try:
            lab2 = binned(arg) if case.get('defaults') else binned(arg, bins=bins, style=style)
        except Exception as e:  # noqa
            r.oracle_fail = 'binned raised %s: %s' % (type(e).__name__, str(e)[:100])
            return r
        lab2 = np.asarray(lab2)
        r.detail = {'ts': ts2.tolist(), 'labels': lab2.tolist()}
        if lab2.shape != ts2.shape:
            r.oracle_fail = ('binned returned an array of shape %s for %d series of %d samples (input shape %s): not one '
                             'label per sample' % (lab2.shape, ncols, nsamp, ts2.shape))
            return r
        for j in range(ncols):
            self.judge_series(ts2[:, j], [int(x) for x in lab2[:, j]], bins, style, case['ties'][j], r, drv)
            if r.bad():
                where = 'series %d of %d (column %d of the input): ' % (j + 1, ncols, j)
                if r.oracle_fail:
                    r.oracle_fail = where + r.oracle_fail
                if r.mismatch:
                    r.mismatch = where + r.mismatch
                break
        return r

    def judge_series(self, ts, lab, bins, style, ties, r, drv):
        """The clauses of the statement for one series `ts` and the labels `lab` binned() gave to its samples."""
        if len(lab) != len(ts):
            r.oracle_fail = 'not every sample was assigned a bin'
        elif any(x < 0 or x >= bins for x in lab):
            r.oracle_fail = 'label outside range(bins): %s' % lab
        elif any(a < b and la > lb for a, la in zip(ts, lab) for b, lb in zip(ts, lab)):
            r.oracle_fail = 'binning is not monotone'
        elif style == 'uniform':
            lo, hi = ts.min(), ts.max()
            for x, l in zip(ts, lab):
                want = min(int(bins * (x - lo) / (hi - lo + 1e-12)), bins - 1)   # equal-width bins; the maximum is in the last one
                if l != want:
                    r.oracle_fail = 'uniform bin of %r is %d, threshold formula gives %d' % (x, l, want)
                    break
            # correspondence with Core/Examples.lean `uniformBin` on exact rationals (samples are dyadic). The model gets
            # the denominator the code actually divides by (max - min + 1e-12 as rounded by the float addition); samples
            # whose exact quotient is within 1e-9 of an integer without being one are not compared (float division).
            flo, fhi = Fraction(float(lo)), Fraction(float(hi))
            den = Fraction(float(hi - lo + 1e-12))
            mo = drv.call('ubin', [bins, q(flo), q(fhi - flo), q(den - (fhi - flo)), [q(Fraction(float(x))) for x in ts]])
            for x, l, ml in zip(ts, lab, mo):
                quo = bins * (Fraction(float(x)) - flo) / den
                near = abs(quo - round(quo)) < Fraction(1, 10 ** 9) and quo != round(quo)
                if int(ml) != l and not near:
                    r.mismatch = 'uniform bin of %r: impl %d, model %d' % (x, l, int(ml))
                    break
        if style == 'maxent' and not r.oracle_fail:
            # correspondence with Core/Binning.lean `maxentBinning` (exact percentiles); a sample within 1e-9 (relative to
            # the data range) of an interior threshold may fall on either side in floating point and is not compared
            mlab, ths = drv.call('mbin', [bins, [q(Fraction(float(x))) for x in ts]])
            ths = [unq(t) for t in ths]
            span = max(Fraction(float(ts.max())) - Fraction(float(ts.min())), Fraction(1, 10 ** 6))
            for x, l, ml in zip(ts, lab, mlab):
                fx = Fraction(float(x))
                near = any(abs(fx - t) <= span / 10 ** 9 for t in ths[1:-1])
                if ml is None or (int(ml) != l and not near):
                    r.mismatch = 'maxent bin of %r: impl %d, model %s' % (x, l, ml)
                    break
        if style == 'maxent' and not ties and not r.oracle_fail:
            cnt = [lab.count(i) for i in range(bins)]
            n = len(lab)
            # percentile thresholds (linear interpolation) put each bin within one sample of n/bins
            if min(cnt) < n // bins - 1 or max(cnt) > -(-n // bins) + 1:
                r.oracle_fail = 'maxent bins are not equally populated: %s' % cnt
        return r


PROP = C19()
