"""
C15 — Optimisation-based measures are feasible, self-consistent and within bounds.
"""
import itertools
import math
import random
from fractions import Fraction
from types import MethodType

import numpy as np

import core
import gen
from canon import f2bits, bits2f
from env import import_dit

CLASSES = ['ITC', 'IDTC', 'ICAEKL', 'IB', 'RDH', 'OWSKAR', 'SC', 'DW-TC', 'DW-CAEKL', 'DW-CO', 'DW-DTC', 'MIN-ITC',
           'WYNER', 'EXACT']


# kinds of parameter vectors a sweep can continue with ('optimum' = the vector returned by a short optimize() run on
# the same optimiser object: the object has then been through a whole search before it is asked again)
OPTIMUM_MAX_SIZE = 12
SWEEP_KINDS = ['random', 'uniform', 'copy', 'constant', 'zero-rows', 'random', 'optimum']


def H(t):
    t = np.asarray(t, dtype=float)
    t = t[t > 0]
    return float(-(t * np.log2(t)).sum())


def Hax(j, keep):
    drop = tuple(i for i in range(j.ndim) if i not in keep)
    return H(j.sum(axis=drop)) if drop else H(j)


def cmi(j, X, Y, Z):
    X, Y, Z = set(X), set(Y), set(Z)
    return Hax(j, X | Z) + Hax(j, Y | Z) - Hax(j, X | Y | Z) - Hax(j, Z)


class C15(object):
    id = 'C15'
    rule = ("joint distributions of 3 small variables (2-3 symbols, zeros) x optimiser classes (intrinsic TC / DTC / "
            "CAEKL, minimal intrinsic TC, information bottleneck, rate-distortion Hamming, one-way SKAR, secrecy "
            "capacity, four DeWeese measures, Wyner and exact common information) x parameter vectors from the whole "
            "box (random, uniform, copy, constant, random with zeroed rows): construct_joint(x) against the model's "
            "constructJoint in Float (every entry), properness, restriction to the original variables = input, each "
            "auxiliary variable conditionally independent of its non-parents given its declared parents, "
            "objective / rate / distortion / complexity / relevance = the named quantity recomputed from the joint, "
            "construct_distribution(x); the functional wrappers against their bounds (few in the quick tier). "
            "Every case is a sweep: the same optimiser object is then evaluated at 0-3 further vectors (the same kinds, "
            "and, for at most %d parameters, the optimum returned by a short optimize() run on that object), either through fresh arrays or "
            "through ONE parameter buffer refilled in place and handed to every entry point, and every clause is "
            "required at every point of the sweep (what a vector yields does not depend on what was evaluated before "
            "or on which array object carries it). At every point construct_full_joint(x) summed over the original "
            "variables = construct_joint(x); for the Markov-variable optimisers constraint_match_joint(x) = "
            "100 |restriction - input|^2 with the input tabulated from the case, and the objective = the named "
            "quantity evaluated on construct_distribution(x). "
            "Non-trivial = an auxiliary alphabet of size >= 2 and a non-constant channel") % OPTIMUM_MAX_SIZE
    tolerances = {'joint entries': '1e-12', 'objective = definition': '1e-9', 'bounds on optimised values': '1e-4',
                  'construct_full_joint marginal = construct_joint': '1e-12',
                  'constraint_match_joint = 100 |restriction - input|^2': '1e-9'}
    exhaustive = {}
    case_timeout = 40
    modelled = ("the Markov-variable optimisers (Wyner, exact common information) are compared with the same model construction "
                "followed by their axis permutation; the optimisers' searches are not modelled")

    def gen_trivial(self, rng, tier):
        """The trivial bounds of dit.multivariate.secret_key_agreement.trivial_bounds against their formulas evaluated by the
        model (Props/C15Bounds.lean proves that every channel Z -> W obeys them)."""
        for _ in range(24 if tier == 'quick' else 1500):
            n = rng.choice([3, 3, 4])
            c = gen.rand_dist_case(rng, nmin=n, nmax=n, amax=2 if rng.random() < 0.7 else 3, bases=['linear'],
                                   allow_space=False, allow_names=True, max_support=8, klasses=('str', 'tuple'))
            gen.avoid_subnull(c)
            if c.get('names') and any(len(str(x)) > 1 for x in c['names']):
                # names longer than one character are split by dit.utils.flatten (known finding of C04 / C05): single letters
                c['names'] = rng.sample(list('abcdXYZW'), n)
            perm = list(range(n))
            rng.shuffle(perm)
            k = rng.choice([2, 2, 3]) if n == 4 else 2
            c['kind'] = 'trivial'
            c['groups'] = [[v] for v in perm[:k]]
            c['crvs'] = [perm[k]]
            # how the variables are addressed: indices (rv_mode left to the distribution or passed), or names
            c['address'] = rng.choice(['indices', 'indices-explicit', 'names', 'names-explicit'])
            c['cls'] = 'TRIVIAL'
            c['xkind'] = 'none'
            yield c

    def run_trivial(self, case, drv, r):
        dit = import_dit()
        from canon import f2bits, bits2f
        from dit.multivariate.secret_key_agreement import trivial_bounds as tb
        d = gen.build(case)
        names = case.get('names')
        addr = case['address']
        if names is None and addr.startswith('names'):
            addr = 'indices' + addr[5:]
        r.features += ['address=%s' % addr, 'groups=%d' % len(case['groups']), 'named=%s' % (names is not None)]
        nm = (lambda g: [names[i] for i in g]) if addr.startswith('names') else (lambda g: list(g))
        kw = {}
        if addr.endswith('explicit'):
            kw['rv_mode'] = 'names' if addr.startswith('names') else 'indices'
        elif names is not None and addr == 'indices':
            # a named distribution reads bare arguments as names: indices need the explicit mode
            kw['rv_mode'] = 'indices'
        groups, crvs = case['groups'], case['crvs']
        rows = [(o, float(Fraction(p))) for o, p in zip(case['outs'], case['pmf']) if Fraction(p) > 0]
        ftab = [[list(o), f2bits(v)] for o, v in rows]
        M = lambda name, g, z: bits2f(drv.call('combf', [name, 0, [sorted(x) for x in g], sorted(z), ftab]))
        r.nontrivial = len(rows) >= 3
        G, Z = [nm(g) for g in groups], nm(crvs)
        checks = []
        for name, f in (('total_correlation', tb.upper_intrinsic_total_correlation),
                        ('dual_total_correlation', tb.upper_intrinsic_dual_total_correlation),
                        ('caekl_mutual_information', tb.upper_intrinsic_caekl_mutual_information)):
            checks.append(('upper_intrinsic_' + name, float(f(d, G, Z, **kw)), min(M(name, groups, []), M(name, groups, crvs))))
        if len(groups) == 2:
            X, Y = groups
            ixy = M('cmi', [X, Y], [])
            lo = max(0.0, ixy - M('cmi', [X, crvs], []), ixy - M('cmi', [Y, crvs], []))
            checks.append(('lower_intrinsic_mutual_information', float(tb.lower_intrinsic_mutual_information(d, G, Z, **kw)), lo))
            up = min(ixy, M('cmi', [X, Y], crvs))
            # the statement: the trivial bounds bracket every feasible value, in particular each other
            if lo > up + 1e-9:
                r.oracle_fail = 'the trivial lower bound %r exceeds the trivial upper bound %r' % (lo, up)
                return
        for name, got, want in checks:
            r.detail = dict(r.detail or {}, **{name: [got, want]})
            if not abs(got - want) <= 1e-9:
                r.oracle_fail = '%s%s|%s (%s) = %r, its defining formula gives %r' % (name, groups, crvs, addr, got, want)
                return

    def gen(self, rng, tier):
        for c in self.gen_trivial(random.Random(rng.getrandbits(32) ^ 0x7B1A), tier):
            yield c
        n_cases = 70 if tier == 'quick' else 4000
        # the quick tier ends with one round through all optimiser classes in which every class is swept through a
        # reused parameter buffer (among 70 random cases some class would otherwise miss that combination)
        n_round = len(CLASSES) if tier == 'quick' else 0
        for i in range(n_cases + n_round):
            c = gen.rand_dist_case(rng, nmin=3, nmax=3, amax=2 if rng.random() < 0.7 else 3, bases=['linear'],
                                   allow_space=False, allow_names=False, max_support=8, klasses=('str', 'tuple'))
            gen.avoid_subnull(c)
            pv = [Fraction(p) for p in c['pmf']]
            if any(0 < p < Fraction(1, 100) for p in pv):
                pv2, _ = gen.rand_prob_vector(rng, len(pv), 'small')
                c['pmf'] = [str(p) for p in pv2]
            c['cls'] = CLASSES[i % len(CLASSES)] if rng.random() < 0.8 else rng.choice(CLASSES[:7])
            c['xkind'] = rng.choice(['random', 'uniform', 'copy', 'constant', 'zero-rows', 'random'])
            c['seed'] = rng.randrange(2 ** 31)
            c['beta'] = rng.choice([0.0, 0.5, 1.0, 3.0])
            c['bounds'] = (tier == 'thorough' and rng.random() < 0.15) or (tier == 'quick' and i % 23 == 0)
            # which variables play X, Y and the conditioning / eavesdropper role (not always in ascending order)
            c['assign'] = [0, 1, 2] if (c['bounds'] or rng.random() < 0.4) else rng.choice(
                [[1, 0, 2], [2, 0, 1], [0, 2, 1], [2, 1, 0], [1, 2, 0]])
            # a sweep: further parameter vectors evaluated on the SAME optimiser object, handed over either as fresh
            # arrays or through one preallocated buffer that is refilled in place (x[:] = next point)
            # (drawn from a generator of its own, so that the population of first points is what it was without sweeps)
            r2 = random.Random(c['seed'] ^ 0x5EEB)
            c['sweep'] = [r2.choice(SWEEP_KINDS) for _ in range(r2.choice([0, 1, 1, 2, 2, 3]))]
            c['reuse'] = r2.choice(['buffer', 'buffer', 'fresh'])
            if i >= n_cases:
                c['cls'] = CLASSES[i - n_cases]
                c['reuse'] = 'buffer'
                c['sweep'] = [r2.choice(['random', 'zero-rows'])] + c['sweep'][:2]
            yield c

    def shrink(self, case):
        return []

    # ------------------------------------------------------------------
    def make(self, case, d):
        dit = import_dit()
        from dit.multivariate.secret_key_agreement import intrinsic_mutual_informations as imi
        from dit.multivariate.secret_key_agreement import minimal_intrinsic_mutual_informations as mimi
        from dit.multivariate.secret_key_agreement.one_way_skar import OneWaySKAR
        from dit.multivariate.secret_key_agreement.secrecy_capacity import SecrecyCapacity
        from dit.rate_distortion.rate_distortion import RateDistortionHamming
        from dit.rate_distortion.information_bottleneck import InformationBottleneck
        from dit.multivariate import deweese
        from dit.multivariate.common_informations.wyner_common_information import WynerCommonInformation
        from dit.multivariate.common_informations.exact_common_information import ExactCommonInformation
        k = case['cls']
        a, b, c = case.get('assign', [0, 1, 2])
        if k == 'ITC':
            return imi.IntrinsicTotalCorrelation(d, [[a], [b]], [c])
        if k == 'IDTC':
            return imi.IntrinsicDualTotalCorrelation(d, [[a], [b]], [c])
        if k == 'ICAEKL':
            return imi.IntrinsicCAEKLMutualInformation(d, [[a], [b]], [c])
        if k == 'MIN-ITC':
            return mimi.MinimalIntrinsicTotalCorrelation(d, [[a], [b]], [c])
        if k == 'IB':
            return InformationBottleneck(d, beta=case['beta'], rvs=[[a], [b]], crvs=[c] if case['seed'] % 2 else None)
        if k == 'RDH':
            return RateDistortionHamming(d.marginal([0, 1]), beta=case['beta'])
        if k == 'OWSKAR':
            return OneWaySKAR(d, [a], [b], [c])
        if k == 'SC':
            return SecrecyCapacity(d, [a], [b], [c])
        if k.startswith('DW-'):
            name = {'DW-TC': 'DeWeeseTotalCorrelation', 'DW-CAEKL': 'DeWeeseCAEKLMutualInformation',
                    'DW-CO': 'DeWeeseCoInformation', 'DW-DTC': 'DeWeeseDualTotalCorrelation'}[k]
            return getattr(deweese, name)(d, [[a], [b]], [c])
        if k == 'WYNER':
            return WynerCommonInformation(d, [[a], [b]], [c] if case['seed'] % 2 else None)
        if k == 'EXACT':
            return ExactCommonInformation(d, [[a], [b]])
        raise ValueError(k)

    def vector(self, case, opt, rs, kind=None):
        kind = case['xkind'] if kind is None else kind
        if kind == 'optimum' and opt._optvec_size > OPTIMUM_MAX_SIZE:
            kind = 'random'     # a search over that many parameters costs seconds: a random point instead
        if kind == 'optimum':
            # the returned optimum of a short search on this very object (any vector it returns lies in the box, so
            # every clause applies to it; the quality of the search is not judged)
            state = np.random.get_state()
            np.random.seed(case['seed'] % (2 ** 32))
            try:
                opt.optimize(niter=1, maxiter=20)
            except import_dit().exceptions.OptimizationException:
                return None     # the short search returned nothing: there is no such point (searches are not judged)
            finally:
                np.random.set_state(state)
            return np.clip(np.array(opt._optima, dtype=float), 0.0, 1.0)
        if kind == 'uniform':
            return opt.construct_uniform_initial()
        if kind == 'copy':
            return opt.construct_copy_initial()
        if kind == 'constant':
            return opt.construct_constant_initial()
        x = rs.rand(opt._optvec_size)
        if kind == 'zero-rows':
            # zero out whole rows (blocks of the last axis) of the first auxiliary variable
            b = opt._aux_vars[0].bound
            for r0 in range(0, opt._aux_vars[0].size, b):
                if rs.rand() < 0.4:
                    x[r0:r0 + b] = 0.0
        return x

    def run(self, case, drv):
        r = core.Result()
        r.site = 'C15.' + case['cls']
        r.features = ['cls=%s' % case['cls'], 'x=%s' % case['xkind']]
        try:
            if case.get('kind') == 'trivial':
                self.run_trivial(case, drv, r)
            else:
                self.run_inner(case, drv, r)
        except core.DriverError:
            raise
        except Exception as e:  # noqa
            import traceback
            r.oracle_fail = '%s raised %s: %s' % (case['cls'], type(e).__name__, str(e)[:160])
            r.detail = {'traceback': traceback.format_exc()[-800:]}
        return r

    def run_inner(self, case, drv, r):
        dit = import_dit()
        d = gen.build(case)
        opt = self.make(case, d)
        if not hasattr(opt, 'objective') or not callable(getattr(opt, 'objective', None)):
            opt.objective = MethodType(opt._objective(), opt)
        rs = np.random.RandomState(case['seed'])
        avs = [(sorted(int(b) for b in a.bases), int(a.bound)) for a in opt._aux_vars]
        r.nontrivial = any(b >= 2 for _, b in avs) and case['xkind'] not in ('constant',)
        r.detail = {'aux': avs}
        # ---- the sweep: the case's vector, then further vectors, all on this one optimiser object.  With
        # reuse = 'buffer' every entry point receives the SAME array object, refilled in place for each point (a
        # preallocated parameter buffer); with 'fresh' every call receives a new array.  What a vector yields may depend
        # neither on the vectors evaluated before it nor on the array object that carries it.
        sweep = list(case.get('sweep') or [])
        reuse = case.get('reuse', 'fresh')
        r.features += ['sweep=%d' % len(sweep), 'reuse=%s' % reuse] + ['sweep-x=%s' % k for k in sorted(set(sweep))]
        buf = None
        for pi, kind in enumerate([case['xkind']] + sweep):
            x = self.vector(case, opt, rs, kind)
            if x is None:
                r.features.append('optimum-none')
                continue
            x = np.asarray(x, dtype=float)
            if kind == 'optimum' and opt._optvec_size <= OPTIMUM_MAX_SIZE:
                r.features.append('optimum-evaluated')
            if reuse == 'buffer':
                if buf is None:
                    buf = np.empty_like(x)
                buf[:] = x
                arg = (lambda: buf)
            else:
                arg = (lambda x=x: x.copy())
            det = r.detail if pi == 0 else {}
            self.check_point(case, d, opt, x, arg, avs, drv, r, det)
            if pi > 0:
                r.detail.setdefault('sweep', []).append(dict(det, kind=kind))
                where = 'point #%d (%s) of a sweep on one optimiser object, vectors passed %s: ' % (
                    pi + 1, kind, 'through one buffer refilled in place' if reuse == 'buffer' else 'as fresh arrays')
                if r.oracle_fail and not r.oracle_fail.startswith('point #'):
                    r.oracle_fail = where + r.oracle_fail
                if r.mismatch and not r.mismatch.startswith('point #'):
                    r.mismatch = where + r.mismatch
            if r.bad():
                return
        # ---- functional wrappers against their bounds
        if case['bounds']:
            self.check_bounds(case, d, r)

    def check_point(self, case, d, opt, x, arg, avs, drv, r, det):
        """Every clause at one parameter vector x; arg() is the array object handed to the real code."""
        joint = np.asarray(opt.construct_joint(arg()), dtype=float)
        markov = case['cls'] in ('WYNER', 'EXACT')
        det['shape'] = list(joint.shape)
        # ---- properness
        if not np.all(np.isfinite(joint)) or abs(joint.sum() - 1) > 1e-9 or joint.min() < -1e-12:
            r.oracle_fail = 'construct_joint(x) is not a proper joint distribution (sum %r, min %r)' % (joint.sum(), joint.min())
            return
        pmf = np.asarray(opt._pmf, dtype=float)
        n0 = pmf.ndim if not markov else None
        if markov:
            # Markov-variable optimisers keep (X0, Z) as the base, add W with parents (X0, Z) and one auxiliary variable per
            # remaining group with parents (Z, W), then move the Z and W axes to the end: the same model construction
            # followed by that axis permutation
            sizes = list(pmf.shape)
            ftab = [[list(map(int, idx)), f2bits(v)] for idx, v in np.ndenumerate(pmf)]
            mj = drv.call('auxjoint', [sizes, ftab, [[b, k] for b, k in avs], [f2bits(v) for v in x]])
            shape0 = sizes + [k for _, k in avs]
            model = np.zeros(shape0)
            for idx, v in mj:
                model[tuple(idx)] = bits2f(v)
            model = np.moveaxis(np.moveaxis(model, 1, -1), 1, -1)
            if model.shape != joint.shape:
                r.mismatch = 'construct_joint(x) has shape %s, the model %s' % (list(joint.shape), list(model.shape))
            else:
                dev = float(np.abs(model - joint).max())
                det['max_dev'] = dev
                if dev > 1e-12:
                    r.mismatch = 'construct_joint(x) differs from the model by %r' % dev
        if not markov:
            # ---- model: same input tensor, same auxiliary structure, same parameter vector
            sizes = list(pmf.shape)
            ftab = [[list(map(int, idx)), f2bits(v)] for idx, v in np.ndenumerate(pmf)]
            mj = drv.call('auxjoint', [sizes, ftab, [[b, k] for b, k in avs], [f2bits(v) for v in x]])
            model = np.zeros(joint.shape)
            for idx, v in mj:
                model[tuple(idx)] = bits2f(v)
            dev = float(np.abs(model - joint).max())
            det['max_dev'] = dev
            if dev > 1e-12:
                r.mismatch = 'construct_joint(x) differs from the model by %r' % dev
            # ---- restriction to the original variables is the input
            rest = joint.sum(axis=tuple(range(n0, joint.ndim)))
            if np.abs(rest - pmf).max() > 1e-12:
                r.oracle_fail = 'the restriction of the joint to the original variables differs from the input by %r' % float(np.abs(rest - pmf).max())
                return
            # ---- each auxiliary variable depends only on its declared parents
            for i, (bases, bound) in enumerate(avs):
                ax = n0 + i
                upto = joint.sum(axis=tuple(range(ax + 1, joint.ndim))) if ax + 1 < joint.ndim else joint
                prev = upto.sum(axis=ax, keepdims=True)
                with np.errstate(all='ignore'):
                    cond = np.where(prev > 0, upto / prev, np.nan)
                others = [a for a in range(ax) if a not in bases]
                if others:
                    spread = np.nanmax(cond, axis=tuple(others), keepdims=True) - np.nanmin(cond, axis=tuple(others), keepdims=True)
                    if np.nanmax(spread) > 1e-9:
                        r.oracle_fail = ('auxiliary variable #%d depends on a variable outside its declared parents %s '
                                         '(conditional spread %r)' % (i, bases, float(np.nanmax(spread))))
                        return
        # ---- the optimiser's second construction of the joint of the same vector (the one construct_distribution is
        # built from) is the same distribution: summed over the original variables it is construct_joint(x)
        full = np.asarray(opt.construct_full_joint(arg()), dtype=float)
        nvar = full.ndim - joint.ndim
        if nvar != len(self.built_on(case)) or full.shape[nvar:] != joint.shape:
            r.mismatch = 'construct_full_joint(x) has shape %s, construct_joint(x) %s, %d original variables' % (
                list(full.shape), list(joint.shape), len(self.built_on(case)))
            return
        if not np.all(np.isfinite(full)) or abs(full.sum() - 1) > 1e-9 or full.min() < -1e-12:
            r.oracle_fail = 'construct_full_joint(x) is not a proper joint distribution (sum %r, min %r)' % (full.sum(), full.min())
            return
        fdev = float(np.abs(full.sum(axis=tuple(range(nvar))) - joint).max())
        det['full_dev'] = fdev
        if fdev > 1e-12:
            r.oracle_fail = ('construct_full_joint(x) summed over the original variables differs from construct_joint(x) '
                             'by %r: the two joints the optimiser builds from one vector are different distributions' % fdev)
            return
        if markov:
            # ---- admissibility of a vector is constraint_match_joint(x) = 0: it has to be the actual mismatch
            # 100 |restriction of the joint to (X0, X1, Z) - input|^2, the input tabulated here from the case
            target = self.markov_target(case, d, opt, joint.shape[:-1])
            want = float((100 * (joint.sum(axis=-1) - target) ** 2).sum())
            got = float(opt.constraint_match_joint(arg()))
            det['constraint'] = got
            if not (abs(got - want) <= 1e-9 * max(1.0, abs(want))):
                r.oracle_fail = ('constraint_match_joint(x) = %r but 100 |restriction of construct_joint(x) to the original '
                                 'variables - input|^2 = %r' % (got, want))
                return
        # ---- objective and named quantities, recomputed from the joint
        self.check_objective(case, opt, x, joint, r, arg, det)
        if r.bad():
            return
        if markov:
            self.check_markov_distribution(case, opt, full, arg, r, det)
            if r.bad():
                return
        # ---- construct_distribution
        if not markov and case['cls'] in ('ITC', 'IDTC', 'ICAEKL', 'IB', 'OWSKAR'):
            cd = opt.construct_distribution(arg(), cutoff=1e-9)
            m = cd.marginal(list(range(3)))
            src = {tuple(o): float(Fraction(p)) for o, p in zip(case['outs'], case['pmf']) if Fraction(p) > 0}
            # the conditioning variable comes back as the optimiser's compressed index (a relabelling of its
            # symbols); the other variables carry their original symbols
            u = gen.UNIVERSE[case['klass']]
            inv = {s_: i for i, s_ in enumerate(u)}
            got = {}
            pa, pb, pc = case.get('assign', [0, 1, 2])
            for o, v in zip(m.outcomes, m.pmf):
                if v > 0:
                    key = [None, None, None]
                    key[pa], key[pb], key[pc] = inv[o[pa]], inv[o[pb]], o[pc]
                    got[tuple(key)] = float(v)

            def slices(tab):
                out = {}
                for key, p in tab.items():
                    out.setdefault(key[pc], {})[(key[pa], key[pb])] = p
                return out
            sa, sb = slices(src), slices(got)
            ok = len(sa) == len(sb)
            used = set()
            for z, ta in sa.items():
                match = [z2 for z2, tb in sb.items() if z2 not in used and set(tb) == set(ta)
                         and all(abs(tb[k_] - ta[k_]) <= 1e-7 for k_ in ta)]
                if not match:
                    ok = False
                    break
                used.add(match[0])
            if not ok:
                r.oracle_fail = 'construct_distribution(x): the marginal on the original variables is not the input (up to relabelling the conditioning variable)'
                return

    def built_on(self, case):
        """Positions of the variables of the distribution the optimiser was built on."""
        return [0, 1] if case['cls'] == 'RDH' else [0, 1, 2]

    def markov_crvs(self, case):
        a, b, c = case.get('assign', [0, 1, 2])
        return [c] if (case['cls'] == 'WYNER' and case['seed'] % 2) else []

    def markov_target(self, case, d, opt, shape):
        """The input of a Markov-variable optimiser as a table over (X0, X1, Z), from the case's own outcomes and
        probabilities; only the numbering of each variable's symbols is the optimiser's (a relabelling)."""
        a, b, c = case.get('assign', [0, 1, 2])
        groups = [[a], [b], self.markov_crvs(case)]
        maps = [u.mapping for u in opt._unqs]
        target = np.zeros(shape)
        for o, p in zip(d.outcomes, d.pmf):
            p = float(p)
            if p == 0:
                continue
            idx = tuple(maps[g][tuple(o[i] for i in grp)] for g, grp in enumerate(groups))
            target[idx] += p
        return target

    def check_markov_distribution(self, case, opt, full, arg, r, det):
        """Wyner / exact common information: the objective is the named quantity evaluated by definition on the
        distribution construct_distribution(x) returns for the same vector (variables at their original positions,
        W appended)."""
        pos = full[full > 0]
        if pos.size and pos.min() <= 1e-7:
            # an entry near dit's null tolerance (1e-8) may be trimmed on the way to a Distribution: not judged
            return
        cd = opt.construct_distribution(arg(), cutoff=0.0)
        nv = cd.outcome_length()
        if nv != 4:
            r.mismatch = 'construct_distribution(x) has %d variables (3 original positions and W expected)' % nv
            return
        syms = [{} for _ in range(nv)]
        rows = []
        for o, v in zip(cd.outcomes, cd.pmf):
            rows.append((tuple(syms[i].setdefault(o[i], len(syms[i])) for i in range(nv)), float(v)))
        T = np.zeros([max(1, len(m)) for m in syms])
        for idx, v in rows:
            T[idx] += v
        a, b, c = case.get('assign', [0, 1, 2])
        crvs = self.markov_crvs(case)
        obj = float(opt.objective(arg()))
        if case['cls'] == 'WYNER':
            name, want = 'I[X0,X1 : W | Z]', cmi(T, [a, b], [3], crvs)
        else:
            name, want = 'H[W | Z]', Hax(T, set([3] + crvs)) - (Hax(T, set(crvs)) if crvs else 0.0)
        det['objective_on_distribution'] = want
        if not (abs(obj - want) <= 1e-9 * max(1.0, abs(want))):
            r.oracle_fail = ('objective(x) = %r but %s evaluated by definition on construct_distribution(x) is %r'
                             % (obj, name, want))

    def check_objective(self, case, opt, x, joint, r, arg=None, det=None):
        k = case['cls']
        arg = arg or (lambda: x.copy())
        det = r.detail if det is None else det
        obj = float(opt.objective(arg()))
        X, Y, Z, W = [0], [1], [2], [3]

        def expect(name, got, want, tol=1e-9):
            if not (abs(got - want) <= tol * max(1.0, abs(want))):
                r.oracle_fail = '%s(x) = %r but the definition evaluated on construct_joint(x) gives %r' % (name, got, want)
                return False
            return True
        if k in ('ITC', 'MIN-ITC'):
            aux = list(range(3, joint.ndim))
            want = Hax(joint, set(X + aux)) + Hax(joint, set(Y + aux)) - Hax(joint, set(X + Y + aux)) - Hax(joint, set(aux))
            if k == 'ITC':
                expect('objective = T[X:Y|W]', obj, want)
        elif k == 'IDTC':
            want = cmi(joint, X, Y, W)       # two groups: B = I(X:Y|W)
            expect('objective = B[X:Y|W]', obj, want)
        elif k == 'ICAEKL':
            expect('objective = J[X:Y|W]', obj, cmi(joint, X, Y, W))
        elif k == 'IB':
            comp = float(opt.complexity(joint))
            rel = float(opt.relevance(joint))
            if expect('complexity = I[X:T|Z]', comp, cmi(joint, X, W, Z)) and expect('relevance = I[Y:T|Z]', rel, cmi(joint, Y, W, Z)):
                # complexity <= H(X|Z), relevance <= I(X:Y|Z) for every feasible point
                dist_ = float(opt.distortion(joint))
                if not expect('distortion = I[X:Y|Z] - I[Y:T|Z]', dist_, cmi(joint, X, Y, Z) - cmi(joint, Y, W, Z)):
                    return
                if not expect('objective = I[X:T|Z] + beta (I[X:Y|Z] - I[Y:T|Z])', obj,
                              cmi(joint, X, W, Z) + case['beta'] * (cmi(joint, X, Y, Z) - cmi(joint, Y, W, Z))):
                    return
                if comp > Hax(joint, {0, 2}) - Hax(joint, {2}) + 1e-9:
                    r.oracle_fail = 'complexity %r exceeds H(X|Z)' % comp
                elif rel > cmi(joint, X, Y, Z) + 1e-9:
                    r.oracle_fail = 'relevance %r exceeds I(X:Y|Z) = %r' % (rel, cmi(joint, X, Y, Z))
        elif k == 'RDH':
            rate = float(opt.rate(joint))
            dist = float(opt.distortion(joint))
            n = joint.shape[0]
            pxt = joint.sum(axis=1)
            ham = 1 - np.eye(n, pxt.shape[1])
            if expect('rate = I[X:T]', rate, cmi(joint, [0], [2], [1])):
                expect('distortion = E[hamming]', dist, float((pxt * ham).sum()))
        elif k == 'WYNER':
            # joint axes: X0, X1, Z, W
            nz = joint.ndim
            want = cmi(joint, [0, 1], [3], [2])
            if expect('objective = I[X0,X1 : W | Z]', obj, want):
                if abs(cmi(joint, [0], [1], [2, 3])) > 1e-9:
                    r.oracle_fail = 'X0 and X1 are not conditionally independent given (W, Z): I = %r' % cmi(joint, [0], [1], [2, 3])
        elif k == 'EXACT':
            want = Hax(joint, {2, 3}) - Hax(joint, {2})
            if expect('objective = H[W | Z]', obj, want):
                if abs(cmi(joint, [0], [1], [2, 3])) > 1e-9:
                    r.oracle_fail = 'X0 and X1 are not conditionally independent given (W, Z)'
        det['objective'] = obj

    def check_bounds(self, case, d, r):
        dit = import_dit()
        import dit.multivariate as mv
        from dit.shannon import mutual_information, conditional_entropy, entropy
        k = case['cls']
        ixy = float(mutual_information(d, [0], [1]))
        ixyz = float(mv.coinformation(d, [[0], [1]], [2]))
        if k in ('ITC', 'IDTC', 'ICAEKL', 'MIN-ITC'):
            f = {'ITC': mv.intrinsic_total_correlation, 'IDTC': mv.intrinsic_dual_total_correlation,
                 'ICAEKL': mv.intrinsic_caekl_mutual_information, 'MIN-ITC': mv.minimal_intrinsic_total_correlation}[k]
            v = float(f(d, [[0], [1]], [2], niter=2) if k != 'MIN-ITC' else f(d, [[0], [1]], [2], niter=2))
            r.features.append('bounds-checked')
            if v < -1e-4 or v > min(ixy, ixyz) + 1e-4:
                r.oracle_fail = 'intrinsic value %r outside [0, min(I(X:Y), I(X:Y|Z)) = %r]' % (v, min(ixy, ixyz))
        elif k == 'IB':
            from dit.rate_distortion.information_bottleneck import InformationBottleneck
            ib = InformationBottleneck(d, beta=case['beta'] or 1.0, rvs=[[0], [1]])
            ib.optimize(niter=2)
            j = ib.construct_joint(ib._optima)
            comp, rel = float(ib.complexity(j)), float(ib.relevance(j))
            r.features.append('bounds-checked')
            if rel > ixy + 1e-4 or comp > float(entropy(d, [0])) + 1e-4 or rel < -1e-6 or comp < -1e-6:
                r.oracle_fail = 'information bottleneck optimum: relevance %r (I(X:Y) = %r), complexity %r (H(X) = %r)' % (
                    rel, ixy, comp, float(entropy(d, [0])))


PROP = C15()
