"""
C15 — Optimisation-based measures are feasible, self-consistent and within bounds.
"""
import itertools
import math
import random
from fractions import Fraction
from types import MethodType

import numpy as np

import core
import gen
from canon import f2bits, bits2f
from env import import_dit

CLASSES = ['ITC', 'IDTC', 'ICAEKL', 'IB', 'RDH', 'OWSKAR', 'SC', 'DW-TC', 'DW-CAEKL', 'DW-CO', 'DW-DTC', 'MIN-ITC',
           'WYNER', 'EXACT']


# kinds of parameter vectors a sweep can continue with ('optimum' = the vector returned by a short optimize() run on
# the same optimiser object: the object has then been through a whole search before it is asked again)
OPTIMUM_MAX_SIZE = 12
SWEEP_KINDS = ['random', 'uniform', 'copy', 'constant', 'zero-rows', 'random', 'optimum']

# classes swept only by the second stream of cases (gen_extra): the rate-distortion optimisers with every distortion,
# every presentation of the source (rdform) and every alpha (standard / deterministic / generalised objective), the
# information bottleneck with alpha and an explicit bound, the hypercontractivity optimiser
RD_CLASSES = ('RDH', 'RDRE', 'RDMC')
EXTRA_CLASSES = ['RDH', 'RDRE', 'RDMC', 'IB', 'HC']
# classes whose functional wrapper is called in the 'wrapper' cases
WRAPPER_CLASSES = ['RDH', 'RDRE', 'RDMC', 'IB', 'IB', 'ITC', 'IDTC', 'ICAEKL', 'WYNER', 'EXACT', 'WYNER-COPY', 'EXACT-COPY', 'HCF',
                   'DW-CO', 'RDMC']


def H(t):
    t = np.asarray(t, dtype=float)
    t = t[t > 0]
    return float(-(t * np.log2(t)).sum())


def Hax(j, keep):
    drop = tuple(i for i in range(j.ndim) if i not in keep)
    return H(j.sum(axis=drop)) if drop else H(j)


def cmi(j, X, Y, Z):
    X, Y, Z = set(X), set(Y), set(Z)
    return Hax(j, X | Z) + Hax(j, Y | Z) - Hax(j, X | Y | Z) - Hax(j, Z)


def marg(j, keep):
    """Marginal of the tensor j on the axes `keep` (axes stay in ascending order)."""
    drop = tuple(i for i in range(j.ndim) if i not in set(keep))
    return j.sum(axis=drop) if drop else j


def maxcorr2_def(P):
    """The SQUARE of the (Hirschfeld-Gebelein-Renyi) maximal correlation of a two-dimensional table P, from its
    definition as the second largest eigenvalue of the symmetric operator B = Dx^-1/2 P Dy^-1 P^T Dx^-1/2 (the largest
    one is 1, belonging to the constant functions); symbols of probability zero are left out.  0 when a variable has a
    single symbol with positive probability."""
    P = np.asarray(P, dtype=float)
    P = P / P.sum()
    P = P[P.sum(axis=1) > 0][:, P.sum(axis=0) > 0]
    if min(P.shape) < 2:
        return 0.0
    px, py = P.sum(axis=1), P.sum(axis=0)
    A = P / np.sqrt(px)[:, None]
    B = (A / py[None, :]) @ A.T
    ev = np.sort(np.linalg.eigvalsh((B + B.T) / 2))[::-1]
    return float(max(ev[1], 0.0))


def close_maxcorr(got, want2, tol=1e-9):
    """got = a reported maximal correlation, want2 = the square given by the definition."""
    if not (np.isfinite(got) and abs(got * got - want2) <= tol):
        return False
    return want2 <= 1e-6 or abs(got - math.sqrt(want2)) <= tol


def hbin(p):
    return H([p, 1 - p])


class C15(object):
    id = 'C15'
    rule = ("joint distributions of 3 small variables (2-3 symbols, zeros) x optimiser classes (intrinsic TC / DTC / "
            "CAEKL, minimal intrinsic TC, information bottleneck, rate-distortion Hamming, one-way SKAR, secrecy "
            "capacity, four DeWeese measures, Wyner and exact common information) x parameter vectors from the whole "
            "box (random, uniform, copy, constant, random with zeroed rows): construct_joint(x) against the model's "
            "constructJoint in Float (every entry), properness, restriction to the original variables = input, each "
            "auxiliary variable conditionally independent of its non-parents given its declared parents, "
            "objective / rate / distortion / complexity / relevance = the named quantity recomputed from the joint, "
            "construct_distribution(x); the functional wrappers against their bounds (few in the quick tier). "
            "Every case is a sweep: the same optimiser object is then evaluated at 0-3 further vectors (the same kinds, "
            "and, for at most %d parameters, the optimum returned by a short optimize() run on that object), either through fresh arrays or "
            "through ONE parameter buffer refilled in place and handed to every entry point, and every clause is "
            "required at every point of the sweep (what a vector yields does not depend on what was evaluated before "
            "or on which array object carries it). At every point construct_full_joint(x) summed over the original "
            "variables = construct_joint(x); for the Markov-variable optimisers constraint_match_joint(x) = "
            "100 |restriction - input|^2 with the input tabulated from the case, and the objective = the named "
            "quantity evaluated on construct_distribution(x). "
            "Non-trivial = an auxiliary alphabet of size >= 2 and a non-constant channel. "
            "A second stream: (a) the same sweeps over the rate-distortion optimisers with every distortion (Hamming, residual "
            "entropy H[X|T,Z] + H[T|X,Z], 1 - maximal correlation) x every presentation of the source (all variables as X, one "
            "variable, one variable given Z) x alpha in {1, 0, 1/2} (standard, deterministic H[T|Z] + beta D, generalised "
            "H[T|Z] - alpha H[T|X,Z] + beta D objective; rate, distortion, entropy, other and the objective each against its "
            "definition on the joint), the information bottleneck with alpha and an explicit bound, the hypercontractivity "
            "optimiser (objective -I[U:Y]/I[U:X], +inf where I[U:X] = 0, within [-1, 0]); tuple outcomes of strings with a "
            "two-character symbol (construct_distribution keeps the tuples); construct_distribution() without a vector = "
            "construct_distribution(returned optimum); (b) kind `functional`: every tensor functional of BaseOptimizer "
            "(_entropy, _mutual_information, _conditional_mutual_information with empty / non-empty condition, _coinformation, "
            "_total_correlation, _dual_total_correlation, _caekl_mutual_information with crvs left out / given, "
            "_maximum_correlation, _conditional_maximum_correlation, _total_variation) built on a real optimiser and evaluated "
            "on a constructed joint or a free joint tensor, against its definition computed from the tensor and against the "
            "model's combf on the same table; (c) kind `wrapper`: Class.functional() of the rate-distortion, bottleneck, "
            "intrinsic and common-information optimisers and hypercontractivity_coefficient: the optimiser the wrapper builds "
            "is observed through a recording subclass, the returned values = the named quantities by definition on the joint "
            "of its optimum (on an optimiser built here from the same arguments), 0 <= rate <= H(X|Z), Fano's inequality for "
            "(rate, Hamming distortion), bottleneck and intrinsic bounds, the B = H short cut of the common informations = H. "
            "Shaped cases in every run: the maximum-correlation distortion 1 - max_z rho(X:T|Z=z) with a conditioning variable "
            "(2x3, 2x2, 3x2) and on a one-symbol source, the four DeWeese objectives -I[X0':X1'|Z] with a conditioning variable. "
            "Not judged (defect of the unchanged code, reported): construct_distribution on tuples of strings "
            "whose glued outcomes have equal length") % OPTIMUM_MAX_SIZE
    tolerances = {'joint entries': '1e-12', 'objective = definition': '1e-9', 'bounds on optimised values': '1e-4',
                  'construct_full_joint marginal = construct_joint': '1e-12',
                  'constraint_match_joint = 100 |restriction - input|^2': '1e-9',
                  'tensor functionals = definition / model': '1e-9',
                  'maximal correlation': '|rho^2 - second eigenvalue of the definition| <= 1e-9, and |rho - sqrt| <= 1e-9 where rho^2 > 1e-6',
                  'functional forms = definitions on the joint of their optimum': '1e-9',
                  'rate in [0, H(X|Z)], Fano': '1e-6'}
    exhaustive = {}
    case_timeout = 40
    modelled = ("the Markov-variable optimisers (Wyner, exact common information) are compared with the same model construction "
                "followed by their axis permutation; the optimisers' searches are not modelled")

    def gen_trivial(self, rng, tier):
        """The trivial bounds of dit.multivariate.secret_key_agreement.trivial_bounds against their formulas evaluated by the
        model (Props/C15Bounds.lean proves that every channel Z -> W obeys them)."""
        for _ in range(24 if tier == 'quick' else 1500):
            n = rng.choice([3, 3, 4])
            c = gen.rand_dist_case(rng, nmin=n, nmax=n, amax=2 if rng.random() < 0.7 else 3, bases=['linear'],
                                   allow_space=False, allow_names=True, max_support=8, klasses=('str', 'tuple'))
            gen.avoid_subnull(c)
            if c.get('names') and any(len(str(x)) > 1 for x in c['names']):
                # names longer than one character are split by dit.utils.flatten (known finding of C04 / C05): single letters
                c['names'] = rng.sample(list('abcdXYZW'), n)
            perm = list(range(n))
            rng.shuffle(perm)
            k = rng.choice([2, 2, 3]) if n == 4 else 2
            c['kind'] = 'trivial'
            c['groups'] = [[v] for v in perm[:k]]
            c['crvs'] = [perm[k]]
            # how the variables are addressed: indices (rv_mode left to the distribution or passed), or names
            c['address'] = rng.choice(['indices', 'indices-explicit', 'names', 'names-explicit'])
            c['cls'] = 'TRIVIAL'
            c['xkind'] = 'none'
            yield c

    def run_trivial(self, case, drv, r):
        dit = import_dit()
        from canon import f2bits, bits2f
        from dit.multivariate.secret_key_agreement import trivial_bounds as tb
        d = gen.build(case)
        names = case.get('names')
        addr = case['address']
        if names is None and addr.startswith('names'):
            addr = 'indices' + addr[5:]
        r.features += ['address=%s' % addr, 'groups=%d' % len(case['groups']), 'named=%s' % (names is not None)]
        nm = (lambda g: [names[i] for i in g]) if addr.startswith('names') else (lambda g: list(g))
        kw = {}
        if addr.endswith('explicit'):
            kw['rv_mode'] = 'names' if addr.startswith('names') else 'indices'
        elif names is not None and addr == 'indices':
            # a named distribution reads bare arguments as names: indices need the explicit mode
            kw['rv_mode'] = 'indices'
        groups, crvs = case['groups'], case['crvs']
        rows = [(o, float(Fraction(p))) for o, p in zip(case['outs'], case['pmf']) if Fraction(p) > 0]
        ftab = [[list(o), f2bits(v)] for o, v in rows]
        M = lambda name, g, z: bits2f(drv.call('combf', [name, 0, [sorted(x) for x in g], sorted(z), ftab]))
        r.nontrivial = len(rows) >= 3
        G, Z = [nm(g) for g in groups], nm(crvs)
        checks = []
        for name, f in (('total_correlation', tb.upper_intrinsic_total_correlation),
                        ('dual_total_correlation', tb.upper_intrinsic_dual_total_correlation),
                        ('caekl_mutual_information', tb.upper_intrinsic_caekl_mutual_information)):
            checks.append(('upper_intrinsic_' + name, float(f(d, G, Z, **kw)), min(M(name, groups, []), M(name, groups, crvs))))
        if len(groups) == 2:
            X, Y = groups
            ixy = M('cmi', [X, Y], [])
            lo = max(0.0, ixy - M('cmi', [X, crvs], []), ixy - M('cmi', [Y, crvs], []))
            checks.append(('lower_intrinsic_mutual_information', float(tb.lower_intrinsic_mutual_information(d, G, Z, **kw)), lo))
            up = min(ixy, M('cmi', [X, Y], crvs))
            # the statement: the trivial bounds bracket every feasible value, in particular each other
            if lo > up + 1e-9:
                r.oracle_fail = 'the trivial lower bound %r exceeds the trivial upper bound %r' % (lo, up)
                return
        for name, got, want in checks:
            r.detail = dict(r.detail or {}, **{name: [got, want]})
            if not abs(got - want) <= 1e-9:
                r.oracle_fail = '%s%s|%s (%s) = %r, its defining formula gives %r' % (name, groups, crvs, addr, got, want)
                return

    def gen(self, rng, tier):
        for c in self.gen_trivial(random.Random(rng.getrandbits(32) ^ 0x7B1A), tier):
            yield c
        n_cases = 70 if tier == 'quick' else 4000
        # the quick tier ends with one round through all optimiser classes in which every class is swept through a
        # reused parameter buffer (among 70 random cases some class would otherwise miss that combination)
        n_round = len(CLASSES) if tier == 'quick' else 0
        for i in range(n_cases + n_round):
            c = gen.rand_dist_case(rng, nmin=3, nmax=3, amax=2 if rng.random() < 0.7 else 3, bases=['linear'],
                                   allow_space=False, allow_names=False, max_support=8, klasses=('str', 'tuple'))
            gen.avoid_subnull(c)
            pv = [Fraction(p) for p in c['pmf']]
            if any(0 < p < Fraction(1, 100) for p in pv):
                pv2, _ = gen.rand_prob_vector(rng, len(pv), 'small')
                c['pmf'] = [str(p) for p in pv2]
            c['cls'] = CLASSES[i % len(CLASSES)] if rng.random() < 0.8 else rng.choice(CLASSES[:7])
            c['xkind'] = rng.choice(['random', 'uniform', 'copy', 'constant', 'zero-rows', 'random'])
            c['seed'] = rng.randrange(2 ** 31)
            c['beta'] = rng.choice([0.0, 0.5, 1.0, 3.0])
            c['bounds'] = (tier == 'thorough' and rng.random() < 0.15) or (tier == 'quick' and i % 23 == 0)
            # which variables play X, Y and the conditioning / eavesdropper role (not always in ascending order)
            c['assign'] = [0, 1, 2] if (c['bounds'] or rng.random() < 0.4) else rng.choice(
                [[1, 0, 2], [2, 0, 1], [0, 2, 1], [2, 1, 0], [1, 2, 0]])
            # a sweep: further parameter vectors evaluated on the SAME optimiser object, handed over either as fresh
            # arrays or through one preallocated buffer that is refilled in place (x[:] = next point)
            # (drawn from a generator of its own, so that the population of first points is what it was without sweeps)
            r2 = random.Random(c['seed'] ^ 0x5EEB)
            c['sweep'] = [r2.choice(SWEEP_KINDS) for _ in range(r2.choice([0, 1, 1, 2, 2, 3]))]
            c['reuse'] = r2.choice(['buffer', 'buffer', 'fresh'])
            if i >= n_cases:
                c['cls'] = CLASSES[i - n_cases]
                c['reuse'] = 'buffer'
                c['sweep'] = [r2.choice(['random', 'zero-rows'])] + c['sweep'][:2]
            yield c
        # a second stream (drawn after the first one and from a generator of its own, so that the first stream is what
        # it was without it)
        for c in self.gen_extra(random.Random(rng.getrandbits(32) ^ 0x0C15E), tier):
            yield c

    def base_case(self, rng, amax=None, n=3, klass=None):
        c = gen.rand_dist_case(rng, nmin=n, nmax=n, amax=amax or (2 if rng.random() < 0.7 else 3), bases=['linear'],
                               allow_space=False, allow_names=False, max_support=8,
                               klasses=(klass,) if klass else ('str', 'tuple'))
        gen.avoid_subnull(c)
        pv = [Fraction(p) for p in c['pmf']]
        if any(0 < p < Fraction(1, 100) for p in pv):
            pv2, _ = gen.rand_prob_vector(rng, len(pv), 'small')
            c['pmf'] = [str(p) for p in pv2]
        c['seed'] = rng.randrange(2 ** 31)
        c['beta'] = rng.choice([0.0, 0.5, 1.0, 3.0])
        c['bounds'] = False
        c['assign'] = rng.choice([[0, 1, 2], [0, 1, 2], [1, 0, 2], [2, 0, 1], [0, 2, 1], [2, 1, 0], [1, 2, 0]])
        return c

    def gen_extra(self, rng, tier):
        """(a) sweeps over the optimisers and options the first stream never builds: every rate-distortion optimiser
        (Hamming / residual entropy / maximum correlation) on every presentation of the source (all variables as X; one
        variable as X; one variable as X given a conditioning variable), the standard (alpha = 1), deterministic
        (alpha = 0) and generalised (0 < alpha < 1) objectives of rate distortion and of the information bottleneck,
        an explicit bound on the auxiliary alphabet, the hypercontractivity optimiser;
        (b) 'functional': the tensor information functionals of BaseOptimizer (the closures every objective is built
        from) called directly with every legal argument shape, on a constructed joint or on a free joint tensor;
        (c) 'wrapper': the functional forms (`Class.functional()`, hypercontractivity_coefficient)."""
        n_sweep, n_fun, n_wrap = (40, 40, len(WRAPPER_CLASSES)) if tier == 'quick' else (1500, 1500, 120)
        combos = []
        for k in EXTRA_CLASSES:
            for alpha in ([1.0, 0.0, 0.5] if k != 'HC' else [1.0]):
                for form in (['joint2', 'single', 'cond'] if k in RD_CLASSES else ['-']):
                    combos.append((k, alpha, form))
        rng.shuffle(combos)
        for i in range(n_sweep):
            c = self.base_case(rng)
            c['cls'], c['alpha'], c['rdform'] = combos[i % len(combos)]
            c['xkind'] = rng.choice(['random', 'random', 'uniform', 'copy', 'constant', 'zero-rows'])
            c['bound'] = rng.choice([None, None, 1, 2, 3]) if c['cls'] in ('IB', 'HC') else None
            c['cond'] = rng.random() < 0.5        # information bottleneck: with / without a conditioning variable
            c['sweep'] = [rng.choice(SWEEP_KINDS) for _ in range(rng.choice([0, 1, 2]))]
            c['reuse'] = rng.choice(['buffer', 'fresh'])
            yield c
        # tuple outcomes whose symbols are strings, one of them two characters long ('dd'): construct_distribution cannot
        # glue such outcomes into strings and has to hand them back as tuples
        for i in range(14 if tier == 'quick' else 300):
            for _ in range(40):
                c = self.base_case(rng, klass='mixed')
                if len(self.multichar_counts(c)) > 1 or rng.random() < 0.05:
                    break
            c['cls'] = ['ITC', 'IDTC', 'ICAEKL', 'IB', 'OWSKAR', 'WYNER', 'EXACT'][i % 7]
            c['alpha'], c['bound'], c['rdform'] = 1.0, None, '-'
            c['xkind'] = rng.choice(['random', 'random', 'copy', 'zero-rows'])
            c['sweep'] = [rng.choice(['random', 'uniform', 'zero-rows'])] if rng.random() < 0.5 else []
            c['reuse'] = rng.choice(['buffer', 'fresh'])
            yield c
        # input classes that used to fail and were repaired, in every run: the maximum-correlation distortion with a
        # conditioning variable (|X| x |Z| = 2 x 3, 2 x 2, 3 x 2), on a one-symbol source (with and without Z); the DeWeese
        # co-information (and its three sisters) with a conditioning variable of two or three symbols
        shaped = [('RDMC', 'cond', (2, 1, 3)), ('RDMC', 'cond', (2, 2, 2)), ('RDMC', 'cond', (3, 2, 2)),
                  ('RDMC', 'cond', (1, 2, 2)), ('RDMC', 'single', (1, 2, 2)), ('RDMC', 'joint2', (1, 1, 2)),
                  ('DW-CO', '-', (2, 2, 2)), ('DW-CO', '-', (2, 3, 3)), ('DW-TC', '-', (2, 2, 2)),
                  ('DW-DTC', '-', (2, 2, 3)), ('DW-CAEKL', '-', (3, 2, 2))]
        for i in range(len(shaped) if tier == 'quick' else 30 * len(shaped)):
            k, form, sizes = shaped[i % len(shaped)]
            c = self.base_case(rng)
            c['assign'] = [0, 1, 2]
            c['alphabets'] = [sorted(rng.sample(range(6), n_)) for n_ in sizes]
            full = [[x_, y_, z_] for x_ in c['alphabets'][0] for y_ in c['alphabets'][1] for z_ in c['alphabets'][2]]
            w = [rng.randint(1, 6) for _ in full]         # full support: the shape is what it is meant to be
            c['outs'], c['pmf'] = full, [str(Fraction(w_, sum(w))) for w_ in w]
            c['cls'], c['rdform'] = k, form
            c['alpha'] = rng.choice([1.0, 1.0, 0.0, 0.5]) if k == 'RDMC' else 1.0
            c['bound'] = None
            c['xkind'] = rng.choice(['random', 'random', 'copy', 'zero-rows'])
            c['sweep'] = [rng.choice(['random', 'uniform', 'zero-rows', 'optimum'])]
            c['reuse'] = rng.choice(['buffer', 'fresh'])
            yield c
        for i in range(n_fun):
            c = self.base_case(rng)
            c['kind'] = 'functional'
            c['cls'] = ['IB', 'ITC', 'OWSKAR', 'RDH', 'HC', 'DW-TC'][i % 6]
            c['alpha'], c['bound'], c['cond'] = 1.0, None, True
            c['rdform'] = 'cond'
            c['xkind'] = rng.choice(['random', 'random', 'zero-rows', 'free', 'free-zeros'])
            yield c
        for i in range(n_wrap):
            search = WRAPPER_CLASSES[i % len(WRAPPER_CLASSES)] in ('WYNER', 'EXACT')
            for _ in range(60 if search else 20):
                # (mostly) at least three outcomes and two symbols for the first two roles: a search worth its time; for
                # the common informations always three different (X0, X1) pairs with positive probability, so that
                # B < H and the functional form has to search
                c = self.base_case(rng, amax=2)
                a_, b_ = c['assign'][:2]
                pairs = set((o[a_], o[b_]) for o, p_ in zip(c['outs'], c['pmf']) if Fraction(p_) > 0)
                if len(c['outs']) >= 3 and all(len(set(o[v] for o in c['outs'])) >= 2 for v in (a_, b_)) and (
                        len(pairs) >= 3 or not search):
                    break
                if not search and rng.random() < 0.15:
                    break
            c['kind'] = 'wrapper'
            c['cls'] = WRAPPER_CLASSES[i % len(WRAPPER_CLASSES)]
            c['alpha'] = rng.choice([1.0, 1.0, 0.0, 0.5]) if c['cls'] == 'IB' else 1.0
            c['bound'] = rng.choice([None, 2]) if c['cls'] in ('IB', 'ITC', 'IDTC', 'ICAEKL') else None
            c['cond'] = rng.random() < 0.5
            c['rdform'] = rng.choice(['single', 'cond'])
            # the default search of the Wyner common information with a conditioning variable takes 20-60 s: thorough tier only
            c['mcond'] = None if (tier == 'thorough' and rng.random() < 0.3) else False
            c['beta'] = rng.choice([0.0, 0.5, 1.0, 3.0])
            c['xkind'] = 'none'
            if c['cls'].endswith('-COPY'):
                # X_b a copy of X_a: dual total correlation = joint entropy, the short cut of the common informations
                a, b, _ = c['assign']
                seen, outs, pmf = {}, [], []
                for o, p in zip(c['outs'], c['pmf']):
                    o = list(o)
                    o[b] = o[a]
                    if tuple(o) in seen:
                        pmf[seen[tuple(o)]] = str(Fraction(pmf[seen[tuple(o)]]) + Fraction(p))
                    else:
                        seen[tuple(o)] = len(outs)
                        outs.append(o)
                        pmf.append(p)
                c['outs'], c['pmf'] = outs, pmf
                c['alphabets'][b] = list(c['alphabets'][a])
            yield c

    def shrink(self, case):
        return []

    # ------------------------------------------------------------------
    def make(self, case, d):
        dit = import_dit()
        from dit.multivariate.secret_key_agreement import intrinsic_mutual_informations as imi
        from dit.multivariate.secret_key_agreement import minimal_intrinsic_mutual_informations as mimi
        from dit.multivariate.secret_key_agreement.one_way_skar import OneWaySKAR
        from dit.multivariate.secret_key_agreement.secrecy_capacity import SecrecyCapacity
        from dit.rate_distortion.rate_distortion import RateDistortionHamming
        from dit.rate_distortion.information_bottleneck import InformationBottleneck
        from dit.multivariate import deweese
        from dit.multivariate.common_informations.wyner_common_information import WynerCommonInformation
        from dit.multivariate.common_informations.exact_common_information import ExactCommonInformation
        k = case['cls']
        a, b, c = case.get('assign', [0, 1, 2])
        if k == 'ITC':
            return imi.IntrinsicTotalCorrelation(d, [[a], [b]], [c])
        if k == 'IDTC':
            return imi.IntrinsicDualTotalCorrelation(d, [[a], [b]], [c])
        if k == 'ICAEKL':
            return imi.IntrinsicCAEKLMutualInformation(d, [[a], [b]], [c])
        if k == 'MIN-ITC':
            return mimi.MinimalIntrinsicTotalCorrelation(d, [[a], [b]], [c])
        if k == 'IB':
            return InformationBottleneck(d, beta=case['beta'], alpha=case.get('alpha', 1.0), rvs=[[a], [b]],
                                         crvs=[c] if self.ib_crvs(case) else None, bound=case.get('bound'))
        if k in RD_CLASSES:
            from dit.rate_distortion import rate_distortion as rdmod
            rdcls = {'RDH': rdmod.RateDistortionHamming, 'RDRE': rdmod.RateDistortionResidualEntropy,
                     'RDMC': rdmod.RateDistortionMaximumCorrelation}[k]
            form = case.get('rdform', 'joint2')
            kw = {} if 'alpha' not in case else {'alpha': case['alpha']}
            if form == 'joint2':        # all variables of a two-variable distribution together as X
                return rdcls(d.marginal([0, 1]), beta=case['beta'], **kw)
            if form == 'single':        # one variable as X
                return rdcls(d, beta=case['beta'], rv=[a], **kw)
            return rdcls(d, beta=case['beta'], rv=[a], crvs=[c], **kw)      # one variable as X, given Z
        if k == 'HC':
            from dit.divergences.hypercontractivity_coefficient import HypercontractivityCoefficient
            return HypercontractivityCoefficient(d, [a], [b], bound=case.get('bound'))
        if k == 'OWSKAR':
            return OneWaySKAR(d, [a], [b], [c])
        if k == 'SC':
            return SecrecyCapacity(d, [a], [b], [c])
        if k.startswith('DW-'):
            name = {'DW-TC': 'DeWeeseTotalCorrelation', 'DW-CAEKL': 'DeWeeseCAEKLMutualInformation',
                    'DW-CO': 'DeWeeseCoInformation', 'DW-DTC': 'DeWeeseDualTotalCorrelation'}[k]
            return getattr(deweese, name)(d, [[a], [b]], [c])
        if k == 'WYNER':
            return WynerCommonInformation(d, [[a], [b]], self.markov_crvs(case) or None)
        if k == 'EXACT':
            return ExactCommonInformation(d, [[a], [b]])
        raise ValueError(k)

    def vector(self, case, opt, rs, kind=None):
        kind = case['xkind'] if kind is None else kind
        if kind == 'optimum' and opt._optvec_size > OPTIMUM_MAX_SIZE:
            kind = 'random'     # a search over that many parameters costs seconds: a random point instead
        if kind == 'optimum':
            # the returned optimum of a short search on this very object (any vector it returns lies in the box, so
            # every clause applies to it; the quality of the search is not judged)
            state = np.random.get_state()
            np.random.seed(case['seed'] % (2 ** 32))
            try:
                opt.optimize(niter=1, maxiter=20)
            except import_dit().exceptions.OptimizationException:
                return None     # the short search returned nothing: there is no such point (searches are not judged)
            finally:
                np.random.set_state(state)
            return np.clip(np.array(opt._optima, dtype=float), 0.0, 1.0)
        if kind == 'uniform':
            return opt.construct_uniform_initial()
        if kind == 'copy':
            return opt.construct_copy_initial()
        if kind == 'constant':
            return opt.construct_constant_initial()
        x = rs.rand(opt._optvec_size)
        if kind == 'zero-rows':
            # zero out whole rows (blocks of the last axis) of the first auxiliary variable
            b = opt._aux_vars[0].bound
            for r0 in range(0, opt._aux_vars[0].size, b):
                if rs.rand() < 0.4:
                    x[r0:r0 + b] = 0.0
        return x

    def run(self, case, drv):
        r = core.Result()
        r.site = 'C15.' + case['cls']
        r.features = ['cls=%s' % case['cls'], 'x=%s' % case['xkind']]
        if case.get('kind') in ('functional', 'wrapper'):
            r.site = 'C15.%s.%s' % (case['kind'], case['cls'])
            r.features.append('kind=%s' % case['kind'])
        for f_ in ('alpha', 'rdform', 'bound'):
            if case.get(f_) not in (None, '-') and case.get('kind') != 'functional':
                r.features.append('%s=%s' % (f_, case[f_]))
        try:
            if case.get('kind') == 'trivial':
                self.run_trivial(case, drv, r)
            elif case.get('kind') == 'functional':
                self.run_functional(case, drv, r)
            elif case.get('kind') == 'wrapper':
                self.run_wrapper(case, drv, r)
            else:
                self.run_inner(case, drv, r)
        except core.DriverError:
            raise
        except Exception as e:  # noqa
            import traceback
            r.oracle_fail = '%s raised %s: %s' % (case['cls'], type(e).__name__, str(e)[:160])
            r.detail = {'traceback': traceback.format_exc()[-800:]}
        return r

    def run_inner(self, case, drv, r):
        dit = import_dit()
        d = gen.build(case)
        opt = self.make(case, d)
        if not hasattr(opt, 'objective') or not callable(getattr(opt, 'objective', None)):
            opt.objective = MethodType(opt._objective(), opt)
        rs = np.random.RandomState(case['seed'])
        avs = [(sorted(int(b) for b in a.bases), int(a.bound)) for a in opt._aux_vars]
        r.nontrivial = any(b >= 2 for _, b in avs) and case['xkind'] not in ('constant',)
        r.detail = {'aux': avs}
        # ---- the sweep: the case's vector, then further vectors, all on this one optimiser object.  With
        # reuse = 'buffer' every entry point receives the SAME array object, refilled in place for each point (a
        # preallocated parameter buffer); with 'fresh' every call receives a new array.  What a vector yields may depend
        # neither on the vectors evaluated before it nor on the array object that carries it.
        sweep = list(case.get('sweep') or [])
        reuse = case.get('reuse', 'fresh')
        r.features += ['sweep=%d' % len(sweep), 'reuse=%s' % reuse] + ['sweep-x=%s' % k for k in sorted(set(sweep))]
        buf = None
        for pi, kind in enumerate([case['xkind']] + sweep):
            x = self.vector(case, opt, rs, kind)
            if x is None:
                r.features.append('optimum-none')
                continue
            x = np.asarray(x, dtype=float)
            if kind == 'optimum' and opt._optvec_size <= OPTIMUM_MAX_SIZE:
                r.features.append('optimum-evaluated')
            if reuse == 'buffer':
                if buf is None:
                    buf = np.empty_like(x)
                buf[:] = x
                arg = (lambda: buf)
            else:
                arg = (lambda x=x: x.copy())
            det = r.detail if pi == 0 else {}
            self.check_point(case, d, opt, x, arg, avs, drv, r, det)
            if kind == 'optimum' and not r.bad() and hasattr(opt, '_optima') and 'optimum-evaluated' in r.features:
                self.check_default_vector(case, opt, r)
            if pi > 0:
                r.detail.setdefault('sweep', []).append(dict(det, kind=kind))
                where = 'point #%d (%s) of a sweep on one optimiser object, vectors passed %s: ' % (
                    pi + 1, kind, 'through one buffer refilled in place' if reuse == 'buffer' else 'as fresh arrays')
                if r.oracle_fail and not r.oracle_fail.startswith('point #'):
                    r.oracle_fail = where + r.oracle_fail
                if r.mismatch and not r.mismatch.startswith('point #'):
                    r.mismatch = where + r.mismatch
            if r.bad():
                return
        # ---- functional wrappers against their bounds
        if case['bounds']:
            self.check_bounds(case, d, r)

    def check_point(self, case, d, opt, x, arg, avs, drv, r, det):
        """Every clause at one parameter vector x; arg() is the array object handed to the real code."""
        joint = np.asarray(opt.construct_joint(arg()), dtype=float)
        markov = case['cls'] in ('WYNER', 'EXACT')
        det['shape'] = list(joint.shape)
        # ---- properness
        if not np.all(np.isfinite(joint)) or abs(joint.sum() - 1) > 1e-9 or joint.min() < -1e-12:
            r.oracle_fail = 'construct_joint(x) is not a proper joint distribution (sum %r, min %r)' % (joint.sum(), joint.min())
            return
        pmf = np.asarray(opt._pmf, dtype=float)
        n0 = pmf.ndim if not markov else None
        if markov:
            # Markov-variable optimisers keep (X0, Z) as the base, add W with parents (X0, Z) and one auxiliary variable per
            # remaining group with parents (Z, W), then move the Z and W axes to the end: the same model construction
            # followed by that axis permutation
            sizes = list(pmf.shape)
            ftab = [[list(map(int, idx)), f2bits(v)] for idx, v in np.ndenumerate(pmf)]
            mj = drv.call('auxjoint', [sizes, ftab, [[b, k] for b, k in avs], [f2bits(v) for v in x]])
            shape0 = sizes + [k for _, k in avs]
            model = np.zeros(shape0)
            for idx, v in mj:
                model[tuple(idx)] = bits2f(v)
            model = np.moveaxis(np.moveaxis(model, 1, -1), 1, -1)
            if model.shape != joint.shape:
                r.mismatch = 'construct_joint(x) has shape %s, the model %s' % (list(joint.shape), list(model.shape))
            else:
                dev = float(np.abs(model - joint).max())
                det['max_dev'] = dev
                if dev > 1e-12:
                    r.mismatch = 'construct_joint(x) differs from the model by %r' % dev
        if not markov:
            # ---- model: same input tensor, same auxiliary structure, same parameter vector
            sizes = list(pmf.shape)
            ftab = [[list(map(int, idx)), f2bits(v)] for idx, v in np.ndenumerate(pmf)]
            mj = drv.call('auxjoint', [sizes, ftab, [[b, k] for b, k in avs], [f2bits(v) for v in x]])
            model = np.zeros(joint.shape)
            for idx, v in mj:
                model[tuple(idx)] = bits2f(v)
            dev = float(np.abs(model - joint).max())
            det['max_dev'] = dev
            if dev > 1e-12:
                r.mismatch = 'construct_joint(x) differs from the model by %r' % dev
            # ---- restriction to the original variables is the input
            rest = joint.sum(axis=tuple(range(n0, joint.ndim)))
            if np.abs(rest - pmf).max() > 1e-12:
                r.oracle_fail = 'the restriction of the joint to the original variables differs from the input by %r' % float(np.abs(rest - pmf).max())
                return
            # ---- each auxiliary variable depends only on its declared parents
            for i, (bases, bound) in enumerate(avs):
                ax = n0 + i
                upto = joint.sum(axis=tuple(range(ax + 1, joint.ndim))) if ax + 1 < joint.ndim else joint
                prev = upto.sum(axis=ax, keepdims=True)
                with np.errstate(all='ignore'):
                    cond = np.where(prev > 0, upto / prev, np.nan)
                others = [a for a in range(ax) if a not in bases]
                if others:
                    spread = np.nanmax(cond, axis=tuple(others), keepdims=True) - np.nanmin(cond, axis=tuple(others), keepdims=True)
                    if np.nanmax(spread) > 1e-9:
                        r.oracle_fail = ('auxiliary variable #%d depends on a variable outside its declared parents %s '
                                         '(conditional spread %r)' % (i, bases, float(np.nanmax(spread))))
                        return
        # ---- the optimiser's second construction of the joint of the same vector (the one construct_distribution is
        # built from) is the same distribution: summed over the original variables it is construct_joint(x)
        full = np.asarray(opt.construct_full_joint(arg()), dtype=float)
        nvar = full.ndim - joint.ndim
        if nvar != len(self.built_on(case)) or full.shape[nvar:] != joint.shape:
            r.mismatch = 'construct_full_joint(x) has shape %s, construct_joint(x) %s, %d original variables' % (
                list(full.shape), list(joint.shape), len(self.built_on(case)))
            return
        if not np.all(np.isfinite(full)) or abs(full.sum() - 1) > 1e-9 or full.min() < -1e-12:
            r.oracle_fail = 'construct_full_joint(x) is not a proper joint distribution (sum %r, min %r)' % (full.sum(), full.min())
            return
        fdev = float(np.abs(full.sum(axis=tuple(range(nvar))) - joint).max())
        det['full_dev'] = fdev
        if fdev > 1e-12:
            r.oracle_fail = ('construct_full_joint(x) summed over the original variables differs from construct_joint(x) '
                             'by %r: the two joints the optimiser builds from one vector are different distributions' % fdev)
            return
        if markov:
            # ---- admissibility of a vector is constraint_match_joint(x) = 0: it has to be the actual mismatch
            # 100 |restriction of the joint to (X0, X1, Z) - input|^2, the input tabulated here from the case
            target = self.markov_target(case, d, opt, joint.shape[:-1])
            want = float((100 * (joint.sum(axis=-1) - target) ** 2).sum())
            got = float(opt.constraint_match_joint(arg()))
            det['constraint'] = got
            if not (abs(got - want) <= 1e-9 * max(1.0, abs(want))):
                r.oracle_fail = ('constraint_match_joint(x) = %r but 100 |restriction of construct_joint(x) to the original '
                                 'variables - input|^2 = %r' % (got, want))
                return
        # ---- objective and named quantities, recomputed from the joint
        self.check_objective(case, opt, x, joint, r, arg, det)
        if r.bad():
            return
        if self.glued_multichar(case, opt, joint):
            # NOT JUDGED (defect of the unchanged code, reported): construct_distribution(x) of a distribution whose
            # outcomes are tuples of strings, one symbol longer than one character ('dd'), when that symbol occurs equally
            # often among the variables of interest in every outcome.  construct_distribution glues the outcomes into strings
            # ("if all outcomes are strings, make new variable strings too"); the glued strings have equal length, are
            # accepted, and ('dd', 'b', ...) comes back as 'ddb...': more variables than the input has, none of them at
            # its position.  (With unequal counts the glued strings are rejected and the tuples are kept: judged.)
            r.features.append('glued-multichar-not-judged')
            return
        if markov:
            self.check_markov_distribution(case, opt, full, arg, r, det)
            if r.bad():
                return
        # ---- construct_distribution
        if not markov and case['cls'] in ('ITC', 'IDTC', 'ICAEKL', 'IB', 'OWSKAR'):
            if case['klass'] == 'mixed':
                r.features.append('tuples-of-strings-' + ('kept' if self.multichar_counts(case) else 'glued'))
            cd = opt.construct_distribution(arg(), cutoff=1e-9)
            m = cd.marginal(list(range(3)))
            src = {tuple(o): float(Fraction(p)) for o, p in zip(case['outs'], case['pmf']) if Fraction(p) > 0}
            # the conditioning variable comes back as the optimiser's compressed index (a relabelling of its
            # symbols); the other variables carry their original symbols
            u = gen.UNIVERSE[case['klass']]
            inv = {s_: i for i, s_ in enumerate(u)}
            got = {}
            pa, pb, pc = case.get('assign', [0, 1, 2])
            for o, v in zip(m.outcomes, m.pmf):
                if v > 0:
                    key = [None, None, None]
                    key[pa], key[pb], key[pc] = inv[o[pa]], inv[o[pb]], o[pc]
                    got[tuple(key)] = float(v)

            def slices(tab):
                out = {}
                for key, p in tab.items():
                    out.setdefault(key[pc], {})[(key[pa], key[pb])] = p
                return out
            sa, sb = slices(src), slices(got)
            ok = len(sa) == len(sb)
            used = set()
            for z, ta in sa.items():
                match = [z2 for z2, tb in sb.items() if z2 not in used and set(tb) == set(ta)
                         and all(abs(tb[k_] - ta[k_]) <= 1e-7 for k_ in ta)]
                if not match:
                    ok = False
                    break
                used.add(match[0])
            if not ok:
                r.oracle_fail = 'construct_distribution(x): the marginal on the original variables is not the input (up to relabelling the conditioning variable)'
                return

    def multichar_counts(self, case):
        """How often a symbol longer than one character occurs among the variables of interest, per outcome of the
        support (the empty set when no such symbol occurs at all)."""
        if case.get('klass') != 'mixed':
            return set()
        u = gen.UNIVERSE['mixed']
        a, b = case.get('assign', [0, 1, 2])[:2]
        cnt = set(sum(1 for v in (a, b) if len(u[o[v]]) > 1) for o, p in zip(case['outs'], case['pmf']) if Fraction(p) > 0)
        return set() if cnt == {0} else cnt

    def glued_multichar(self, case, opt=None, joint=None):
        if case.get('klass') != 'mixed':
            return False
        if case['cls'] in ('WYNER', 'EXACT'):
            # the outcomes of construct_distribution(x) are the cells of the joint the vector produces (X1 is generated from
            # W: not only the outcomes of the input)
            inv = [u.inverse for u in opt._unqs[:2]]
            m = joint.sum(axis=tuple(range(2, joint.ndim)))
            cnt = set(sum(1 for s_ in inv[0][i] if len(s_) > 1) + sum(1 for s_ in inv[1][j] if len(s_) > 1)
                      for (i, j), v in np.ndenumerate(m) if v > 0)
            return cnt != {0} and len(cnt) == 1
        return len(self.multichar_counts(case)) == 1

    def check_default_vector(self, case, opt, r):
        """construct_distribution() without a vector is construct_distribution(the optimum the search returned)."""
        xo = np.array(opt._optima, dtype=float)
        try:
            want = opt.construct_distribution(xo.copy())
        except Exception:       # noqa  (what construct_distribution does with an explicit vector is judged elsewhere)
            return
        got = opt.construct_distribution()
        r.features.append('default-vector')
        tw = {tuple(o) if not isinstance(o, str) else o: float(p) for o, p in zip(want.outcomes, want.pmf)}
        tg = {tuple(o) if not isinstance(o, str) else o: float(p) for o, p in zip(got.outcomes, got.pmf)}
        if set(k_ for k_, v in tw.items() if v > 0) != set(k_ for k_, v in tg.items() if v > 0) or any(
                abs(tg.get(k_, 0.0) - v) > 1e-12 for k_, v in tw.items()):
            r.oracle_fail = ('construct_distribution() without a vector is not construct_distribution(x) at the optimum the '
                             'search on this object returned')

    def built_on(self, case):
        """Positions of the variables of the distribution the optimiser was built on."""
        return [0, 1] if (case['cls'] in RD_CLASSES and case.get('rdform', 'joint2') == 'joint2') else [0, 1, 2]

    def ib_crvs(self, case):
        """Whether the information bottleneck of the case has a conditioning variable."""
        return bool(case['cond']) if 'cond' in case else bool(case['seed'] % 2)

    def markov_crvs(self, case):
        a, b, c = case.get('assign', [0, 1, 2])
        if case.get('mcond') is False:
            return []
        return [c] if (case['cls'] == 'WYNER' and case['seed'] % 2) else []

    def markov_target(self, case, d, opt, shape):
        """The input of a Markov-variable optimiser as a table over (X0, X1, Z), from the case's own outcomes and
        probabilities; only the numbering of each variable's symbols is the optimiser's (a relabelling)."""
        a, b, c = case.get('assign', [0, 1, 2])
        groups = [[a], [b], self.markov_crvs(case)]
        maps = [u.mapping for u in opt._unqs]
        target = np.zeros(shape)
        for o, p in zip(d.outcomes, d.pmf):
            p = float(p)
            if p == 0:
                continue
            idx = tuple(maps[g][tuple(o[i] for i in grp)] for g, grp in enumerate(groups))
            target[idx] += p
        return target

    def check_markov_distribution(self, case, opt, full, arg, r, det):
        """Wyner / exact common information: the objective is the named quantity evaluated by definition on the
        distribution construct_distribution(x) returns for the same vector (variables at their original positions,
        W appended)."""
        pos = full[full > 0]
        if pos.size and pos.min() <= 1e-7:
            # an entry near dit's null tolerance (1e-8) may be trimmed on the way to a Distribution: not judged
            return
        cd = opt.construct_distribution(arg(), cutoff=0.0)
        nv = cd.outcome_length()
        if nv != 4:
            r.mismatch = 'construct_distribution(x) has %d variables (3 original positions and W expected)' % nv
            return
        syms = [{} for _ in range(nv)]
        rows = []
        for o, v in zip(cd.outcomes, cd.pmf):
            rows.append((tuple(syms[i].setdefault(o[i], len(syms[i])) for i in range(nv)), float(v)))
        T = np.zeros([max(1, len(m)) for m in syms])
        for idx, v in rows:
            T[idx] += v
        a, b, c = case.get('assign', [0, 1, 2])
        crvs = self.markov_crvs(case)
        obj = float(opt.objective(arg()))
        if case['cls'] == 'WYNER':
            name, want = 'I[X0,X1 : W | Z]', cmi(T, [a, b], [3], crvs)
        else:
            name, want = 'H[W | Z]', Hax(T, set([3] + crvs)) - (Hax(T, set(crvs)) if crvs else 0.0)
        det['objective_on_distribution'] = want
        if not (abs(obj - want) <= 1e-9 * max(1.0, abs(want))):
            r.oracle_fail = ('objective(x) = %r but %s evaluated by definition on construct_distribution(x) is %r'
                             % (obj, name, want))

    def check_objective(self, case, opt, x, joint, r, arg=None, det=None):
        k = case['cls']
        arg = arg or (lambda: x.copy())
        det = r.detail if det is None else det
        defs = det.setdefault('defs', {})      # the named quantities by definition on the joint (for the wrappers)
        obj = float(opt.objective(arg()))
        X, Y, Z, W = [0], [1], [2], [3]

        def expect(name, got, want, tol=1e-9):
            if not (abs(got - want) <= tol * max(1.0, abs(want))):
                r.oracle_fail = '%s(x) = %r but the definition evaluated on construct_joint(x) gives %r' % (name, got, want)
                return False
            return True
        if k in ('ITC', 'MIN-ITC'):
            aux = list(range(3, joint.ndim))
            want = Hax(joint, set(X + aux)) + Hax(joint, set(Y + aux)) - Hax(joint, set(X + Y + aux)) - Hax(joint, set(aux))
            if k == 'ITC':
                defs['objective'] = want
                expect('objective = T[X:Y|W]', obj, want)
        elif k == 'IDTC':
            want = cmi(joint, X, Y, W)       # two groups: B = I(X:Y|W)
            defs['objective'] = want
            expect('objective = B[X:Y|W]', obj, want)
        elif k == 'ICAEKL':
            defs['objective'] = cmi(joint, X, Y, W)
            expect('objective = J[X:Y|W]', obj, cmi(joint, X, Y, W))
        elif k == 'IB':
            comp = float(opt.complexity(joint))
            rel = float(opt.relevance(joint))
            alpha, beta = case.get('alpha', 1.0), case['beta']
            defs.update(complexity=cmi(joint, X, W, Z), relevance=cmi(joint, Y, W, Z))
            if expect('complexity = I[X:T|Z]', comp, cmi(joint, X, W, Z)) and expect('relevance = I[Y:T|Z]', rel, cmi(joint, Y, W, Z)):
                # complexity <= H(X|Z), relevance <= I(X:Y|Z) for every feasible point
                dist_ = float(opt.distortion(joint))
                ddef = cmi(joint, X, Y, Z) - cmi(joint, Y, W, Z)
                if not expect('distortion = I[X:Y|Z] - I[Y:T|Z]', dist_, ddef):
                    return
                # the other named quantities the optimiser reports: H[T|Z], H[T|X,Z], I[X:Y|T,Z]
                hdef = Hax(joint, {2, 3}) - Hax(joint, {2})
                odef = Hax(joint, {0, 2, 3}) - Hax(joint, {0, 2})
                if not (expect('entropy = H[T|Z]', float(opt.entropy(joint)), hdef)
                        and expect('other = H[T|X,Z]', float(opt.other(joint)), odef)
                        and expect('error = I[X:Y|T,Z]', float(opt.error(joint)), cmi(joint, X, Y, Z + W))):
                    return
                if alpha == 1.0:
                    name, want = 'objective = I[X:T|Z] + beta (I[X:Y|Z] - I[Y:T|Z])', cmi(joint, X, W, Z) + beta * ddef
                elif alpha == 0.0:
                    name, want = 'deterministic objective = H[T|Z] + beta (I[X:Y|Z] - I[Y:T|Z])', hdef + beta * ddef
                else:
                    name, want = ('generalised objective = H[T|Z] - alpha H[T|X,Z] + beta (I[X:Y|Z] - I[Y:T|Z])',
                                  hdef - alpha * odef + beta * ddef)
                defs['objective'] = want
                if not expect(name, obj, want):
                    return
                if comp > Hax(joint, {0, 2}) - Hax(joint, {2}) + 1e-9:
                    r.oracle_fail = 'complexity %r exceeds H(X|Z)' % comp
                elif rel > cmi(joint, X, Y, Z) + 1e-9:
                    r.oracle_fail = 'relevance %r exceeds I(X:Y|Z) = %r' % (rel, cmi(joint, X, Y, Z))
        elif k in RD_CLASSES:
            # joint axes: X, Z, T
            rate = float(opt.rate(joint))
            dist = float(opt.distortion(joint))
            alpha, beta = case.get('alpha', 1.0), case['beta']
            n = joint.shape[0]
            pxt = joint.sum(axis=1)
            ham = 1 - np.eye(n, pxt.shape[1])
            rdef = cmi(joint, [0], [2], [1])
            defs['rate'] = rdef
            if not expect('rate = I[X:T|Z]', rate, rdef):
                return
            if k == 'RDH':
                ddef = float((pxt * ham).sum())
                defs['distortion'] = ddef
                if not expect('distortion = E[hamming]', dist, ddef):
                    return
            elif k == 'RDRE':
                # residual entropy H[X,T|Z] - I[X:T|Z] = H[X|T,Z] + H[T|X,Z]
                ddef = (Hax(joint, {0, 1, 2}) - Hax(joint, {1, 2})) + (Hax(joint, {0, 1, 2}) - Hax(joint, {0, 1}))
                defs['distortion'] = ddef
                if not expect('distortion = H[X|T,Z] + H[T|X,Z]', dist, ddef):
                    return
            else:
                # 1 - max_z rho(X:T|Z=z), the maximal correlation of X and T within each class of the conditioning
                # variable (one class when there is none; rho = 0 for a source with a single symbol).  A conditioning
                # variable of more than one symbol and a one-symbol source used to fail (axis order (x, y, z) assumed
                # on the (X, Z, T) joint; svdvals(Q)[1] on a 1 x 1 table) and were repaired.
                want2 = max([maxcorr2_def(joint[:, z_, :]) for z_ in range(joint.shape[1]) if joint[:, z_, :].sum() > 0] or [0.0])
                r.features.append('rdmc=%s' % ('one-symbol' if joint.shape[0] < 2 else 'conditional-%dx%d' % joint.shape[:2]
                                                if joint.shape[1] > 1 else 'plain'))
                ddef = 1 - math.sqrt(want2)
                if not close_maxcorr(1 - dist, want2):
                    r.oracle_fail = ('distortion(x) = %r but 1 - max_z rho(X:T|Z=z) by its definition on '
                                     'construct_joint(x) = %r' % (dist, ddef))
                    return
                if not (-1e-9 <= dist <= 1 + 1e-9):
                    r.oracle_fail = 'maximum-correlation distortion %r outside [0, 1]' % dist
                    return
                if want2 <= 1e-6:
                    # a square root next to 0: the reported value (just verified through its square) stands for it below
                    ddef = dist
                defs['distortion'] = ddef
            hdef = Hax(joint, {1, 2}) - Hax(joint, {1})
            odef = Hax(joint, {0, 1, 2}) - Hax(joint, {0, 1})
            if not (expect('entropy = H[T|Z]', float(opt.entropy(joint)), hdef)
                    and expect('other = H[T|X,Z]', float(opt.other(joint)), odef)):
                return
            if alpha == 1.0:
                name, want = 'objective = I[X:T|Z] + beta distortion', rdef + beta * ddef
            elif alpha == 0.0:
                name, want = 'deterministic objective = H[T|Z] + beta distortion', hdef + beta * ddef
            else:
                name, want = 'generalised objective = H[T|Z] - alpha H[T|X,Z] + beta distortion', hdef - alpha * odef + beta * ddef
            defs['objective'] = want
            if not expect(name, obj, want):
                return
            # any feasible point: 0 <= rate <= H(X|Z)
            if rate < -1e-9 or rate > Hax(joint, {0, 1}) - Hax(joint, {1}) + 1e-9:
                r.oracle_fail = 'rate %r outside [0, H(X|Z) = %r]' % (rate, Hax(joint, {0, 1}) - Hax(joint, {1}))
        elif k.startswith('DW-'):
            # joint axes: X0, X1, Z, X0', X1' (each X' a function of its X only): the objective is minus the measure of
            # (X0', X1') given Z, for two variables I[X0':X1'|Z] whichever the measure.  (The co-information with a
            # conditioning variable used to leave Z out of its sub-marginals: repaired.)
            want = -cmi(joint, [3], [4], [2])
            defs['objective'] = want
            expect('objective = -I[X0\':X1\'|Z]', obj, want)
        elif k == 'HC':
            # joint axes: X, Y, (empty conditioning variable), U; the objective is -I[U:Y] / I[U:X], +inf where I[U:X] = 0
            a_, b_ = cmi(joint, [3], [1], []), cmi(joint, [3], [0], [])
            defs.update(IUY=a_, IUX=b_)
            if b_ < 5e-9:
                if obj != math.inf:
                    r.oracle_fail = 'objective(x) = %r although I[U:X] = %r (the quotient I[U:Y]/I[U:X] does not exist: +inf expected)' % (obj, b_)
            elif b_ > 2e-8:
                # (between the two thresholds the branch of the real code hangs on the last digits: not judged)
                if not np.isfinite(obj) or abs(obj * b_ + a_) > 1e-9 or (b_ >= 1e-3 and abs(obj + a_ / b_) > 1e-9):
                    r.oracle_fail = 'objective(x) = %r but -I[U:Y]/I[U:X] evaluated by definition on construct_joint(x) is -%r/%r = %r' % (obj, a_, b_, -a_ / b_)
                elif b_ >= 1e-3 and not (-1 - 1e-9 <= obj <= 1e-9):
                    # U - X - Y: data processing, for every feasible point
                    r.oracle_fail = 'objective(x) = %r outside [-1, 0] although U - X - Y is a Markov chain' % obj
        elif k == 'WYNER':
            # joint axes: X0, X1, Z, W
            nz = joint.ndim
            want = cmi(joint, [0, 1], [3], [2])
            defs['objective'] = want
            if expect('objective = I[X0,X1 : W | Z]', obj, want):
                if abs(cmi(joint, [0], [1], [2, 3])) > 1e-9:
                    r.oracle_fail = 'X0 and X1 are not conditionally independent given (W, Z): I = %r' % cmi(joint, [0], [1], [2, 3])
        elif k == 'EXACT':
            want = Hax(joint, {2, 3}) - Hax(joint, {2})
            defs['objective'] = want
            if expect('objective = H[W | Z]', obj, want):
                if abs(cmi(joint, [0], [1], [2, 3])) > 1e-9:
                    r.oracle_fail = 'X0 and X1 are not conditionally independent given (W, Z)'
        det['objective'] = obj

    # ------------------------------------------------------------------
    def run_functional(self, case, drv, r):
        """The tensor information functionals of BaseOptimizer (the closures every objective, rate, distortion,
        complexity and relevance is assembled from), built on a real optimiser object and evaluated on a joint tensor
        with the optimiser's axes: each against its definition computed here from the tensor (oracle) and against the
        model's entropy combinations evaluated on the same table (combf)."""
        dit = import_dit()
        d = gen.build(case)
        opt = self.make(case, d)
        rs = np.random.RandomState(case['seed'])
        rg = random.Random(case['seed'] ^ 0xF0C)
        x = np.asarray(self.vector(case, opt, rs, 'random' if case['xkind'].startswith('free') else case['xkind']), dtype=float)
        T = np.asarray(opt.construct_joint(x.copy()), dtype=float)
        if case['xkind'].startswith('free'):
            # any joint pmf over the optimiser's axes (the functionals are defined on tensors, not on parameters)
            T = rs.rand(*T.shape)
            if case['xkind'] == 'free-zeros':
                T[rs.rand(*T.shape) < 0.3] = 0.0
            if T.sum() == 0:
                T.flat[0] = 1.0
            T = T / T.sum()
        nax = T.ndim
        if nax != len(opt._all_vars):
            r.mismatch = 'construct_joint(x) has %d axes, the optimiser declares %d variables' % (nax, len(opt._all_vars))
            return
        r.nontrivial = int((T > 0).sum()) >= 3
        r.detail = {'shape': list(T.shape)}
        ftab = [[list(map(int, idx)), f2bits(float(v))] for idx, v in np.ndenumerate(T) if v > 0]
        M = lambda name, g, z: bits2f(drv.call('combf', [name, 0, [sorted(x_) for x_ in g], sorted(z), ftab]))
        axes = list(range(nax))

        def split(sizes):
            """Disjoint sets of axes with the given sizes (None when there are not enough axes)."""
            if sum(sizes) > nax:
                return None
            a = axes[:]
            rg.shuffle(a)
            out, i = [], 0
            for k_ in sizes:
                out.append(set(a[i:i + k_]))
                i += k_
            return out

        def judge(name, got, want, model=None, tol=1e-9):
            got = float(got)
            r.detail[name] = [got, want, model]
            r.features.append('f=' + name.split('(')[0])
            if not (np.isfinite(got) and abs(got - want) <= tol * max(1.0, abs(want))):
                r.oracle_fail = 'BaseOptimizer.%s on a joint of shape %s = %r, its definition evaluated on that joint gives %r' % (
                    name, list(T.shape), got, want)
                return False
            if model is not None and not (abs(got - model) <= tol * max(1.0, abs(model))):
                r.mismatch = 'BaseOptimizer.%s = %r, the model gives %r' % (name, got, model)
                return False
            return True

        def cond(S, C):
            return Hax(T, set(S) | set(C)) - (Hax(T, set(C)) if C else 0.0)

        # ---- entropy H[S|C]: crvs left out (the default), empty, non-empty
        for C in (None, set(), 'some'):
            k_ = rg.randint(1, max(1, nax - 1))
            S, Cs = split([k_, 0 if C != 'some' else rg.randint(1 if nax - k_ else 0, max(0, nax - k_))])
            f = opt._entropy(S) if C is None else opt._entropy(S, Cs)
            if not judge('_entropy(%s, %s)' % (sorted(S), 'default' if C is None else sorted(Cs)), f(T), cond(S, Cs),
                         M('entropy', [S], Cs)):
                return
        # ---- mutual information I[X:Y], and conditional mutual information with an empty / non-empty condition
        kx = rg.randint(1, nax - 1)
        X, Y = split([kx, rg.randint(1, nax - kx)])
        if not judge('_mutual_information(%s, %s)' % (sorted(X), sorted(Y)), opt._mutual_information(X, Y)(T), cmi(T, X, Y, []),
                     M('cmi', [X, Y], [])):
            return
        if not judge('_conditional_mutual_information(%s, %s, {})' % (sorted(X), sorted(Y)),
                     opt._conditional_mutual_information(X, Y, set())(T), cmi(T, X, Y, []), M('cmi', [X, Y], [])):
            return
        if nax >= 3:
            X, Y, Z = split([1, 1, 1]) if nax == 3 else split([rg.randint(1, nax - 2), 1, 1])
            if not judge('_conditional_mutual_information(%s, %s, %s)' % (sorted(X), sorted(Y), sorted(Z)),
                         opt._conditional_mutual_information(X, Y, Z)(T), cmi(T, X, Y, Z), M('cmi', [X, Y], Z)):
                return
        # ---- co-information, total correlation, dual total correlation, CAEKL mutual information of single variables
        for name, mname, kmin in (('_coinformation', 'coinformation', 1), ('_total_correlation', 'total_correlation', 2),
                                  ('_dual_total_correlation', 'dual_total_correlation', 2),
                                  ('_caekl_mutual_information', 'caekl_mutual_information', 2)):
            for C in (None, 'some'):
                # (_coinformation with a non-empty conditioning set used to leave crvs out of its sub-marginals: repaired)
                k_ = rg.randint(kmin, min(3, nax - (1 if C == 'some' else 0)))
                S, Cs = split([k_, 0 if C != 'some' else rg.randint(1, max(1, min(2, nax - k_)))])
                groups = [[v] for v in sorted(S)]
                f = getattr(opt, name)(S) if C is None else getattr(opt, name)(S, Cs)
                want = self.comb_def(mname, T, sorted(S), Cs)
                if not judge('%s(%s, %s)' % (name, sorted(S), 'default' if C is None else sorted(Cs)), f(T), want,
                             M(mname, groups, Cs)):
                    return
        # ---- maximal correlation of two variables (axes in ascending order, as every optimiser passes them; at
        # least two symbols each), and its conditional form max_z rho(X:Y|Z=z) on ascending axes (x, y, z)
        big = [a for a in axes if T.shape[a] >= 2]
        if len(big) >= 2:
            prs = [(u, v) for u in big for v in big if u < v]
            inner = [pr for pr in prs if pr[1] < nax - 1]       # a later axis is left for the conditional form
            xa, ya = rg.choice(inner if inner and rg.random() < 0.8 else prs)
            got = float(opt._maximum_correlation({xa}, {ya})(T))
            want2 = maxcorr2_def(marg(T, [xa, ya]))
            r.detail['_maximum_correlation'] = [xa, ya, got, math.sqrt(want2)]
            r.features.append('f=_maximum_correlation')
            if not close_maxcorr(got, want2):
                r.oracle_fail = ('BaseOptimizer._maximum_correlation({%d}, {%d}) on a joint of shape %s = %r, the maximal '
                                 'correlation by its definition is %r' % (xa, ya, list(T.shape), got, math.sqrt(want2)))
                return
            later = [a for a in axes if a > ya]
            if later:
                za = rg.choice(later)
                got = float(opt._conditional_maximum_correlation({xa}, {ya}, {za})(T))
                P = marg(T, [xa, ya, za])
                want2 = max([maxcorr2_def(P[:, :, i]) for i in range(P.shape[2]) if P[:, :, i].sum() > 0] or [0.0])
                r.detail['_conditional_maximum_correlation'] = [xa, ya, za, got, math.sqrt(want2)]
                r.features.append('f=_conditional_maximum_correlation')
                if not close_maxcorr(got, want2):
                    r.oracle_fail = ('BaseOptimizer._conditional_maximum_correlation({%d}, {%d}, {%d}) on a joint of shape %s = %r, '
                                     'max_z rho(X:Y|Z=z) by its definition is %r' % (xa, ya, za, list(T.shape), got, math.sqrt(want2)))
                    return
        # ---- total variation between the marginals of two variables over the same index alphabet
        pairs = [(a, b) for a in axes for b in axes if a != b and T.shape[a] == T.shape[b]]
        if pairs:
            xa, ya = rg.choice(pairs)
            px, py = marg(T, [xa]), marg(T, [ya])
            want = float(sum(abs(Fraction(float(u)) - Fraction(float(v))) for u, v in zip(px, py)) / 2)
            if not judge('_total_variation({%d}, {%d})' % (xa, ya), opt._total_variation({xa}, {ya})(T), want):
                return
        if case['cls'] == 'RDH':
            # every clause for the maximum-correlation optimiser with a conditioning variable, at one more vector
            c2 = dict(case, cls='RDMC', kind=None, sweep=[], reuse='fresh', xkind='random')
            opt2 = self.make(c2, d)
            opt2.objective = MethodType(opt2._objective(), opt2)
            avs = [(sorted(int(b) for b in a.bases), int(a.bound)) for a in opt2._aux_vars]
            x2 = rs.rand(opt2._optvec_size)
            self.check_point(c2, d, opt2, x2, (lambda: x2.copy()), avs, drv, r, {})

    def comb_def(self, name, T, S, C):
        """Definitions of the multivariate measures of the single variables S given C, from marginal entropies of T."""
        C = set(C)
        hc = Hax(T, C) if C else 0.0
        h = lambda A: Hax(T, set(A) | C) - hc
        n = len(S)
        if name == 'coinformation':
            return -sum((-1) ** k_ * h(A) for k_ in range(1, n + 1) for A in itertools.combinations(S, k_))
        if name == 'total_correlation':
            return sum(h([v]) for v in S) - h(S)
        if name == 'dual_total_correlation':
            return h(S) - sum(h(S) - h([w for w in S if w != v]) for v in S)
        if name == 'caekl_mutual_information':
            best = None
            for part in self.set_partitions(list(S)):
                if len(part) > 1:
                    v = (sum(h(b) for b in part) - h(S)) / (len(part) - 1)
                    best = v if best is None or v < best else best
            return best
        raise ValueError(name)

    @staticmethod
    def set_partitions(items):
        if not items:
            yield []
            return
        first, rest = items[0], items[1:]
        for part in C15.set_partitions(rest):
            for i in range(len(part)):
                yield part[:i] + [[first] + part[i]] + part[i + 1:]
            yield [[first]] + part

    # ------------------------------------------------------------------
    def run_wrapper(self, case, drv, r):
        """The functional forms.  The optimiser object the wrapper builds and searches with is observed through a
        subclass that records it; what the wrapper returns has to be the named quantities evaluated by definition on the
        joint of the optimum it found - on an optimiser built here from the same arguments - and within the bounds that
        hold for any feasible point.  The quality of the search is not judged."""
        dit = import_dit()
        from dit.exceptions import OptimizationException
        from dit.multivariate.secret_key_agreement import intrinsic_mutual_informations as imi
        from dit.rate_distortion import rate_distortion as rdmod
        from dit.rate_distortion.information_bottleneck import InformationBottleneck
        from dit.multivariate.common_informations.wyner_common_information import WynerCommonInformation
        from dit.multivariate.common_informations.exact_common_information import ExactCommonInformation
        from dit.multivariate import deweese
        d = gen.build(case)
        k = case['cls'].replace('-COPY', '')
        a, b, c = case['assign']
        rows = [(o, float(Fraction(p))) for o, p in zip(case['outs'], case['pmf']) if Fraction(p) > 0]
        ftab = [[list(o), f2bits(v)] for o, v in rows]
        M = lambda name, g, z: bits2f(drv.call('combf', [name, 0, [sorted(x_) for x_ in g], sorted(z), ftab]))
        r.nontrivial = len(rows) >= 3
        if k == 'HCF':
            from dit.divergences.hypercontractivity_coefficient import hypercontractivity_coefficient
            v = float(hypercontractivity_coefficient(d, [[a], [b]], niter=2))
            r.detail = {'value': v}
            if not (-1e-6 <= v <= 1 + 1e-6):
                r.oracle_fail = 'hypercontractivity coefficient %r outside [0, 1]' % v
            elif M('cmi', [[a], [b]], []) <= 1e-12 and abs(v) > 1e-9:
                r.oracle_fail = 'hypercontractivity coefficient %r of independent variables' % v
            return
        base = {'RDH': rdmod.RateDistortionHamming, 'RDRE': rdmod.RateDistortionResidualEntropy,
                'RDMC': rdmod.RateDistortionMaximumCorrelation, 'IB': InformationBottleneck,
                'ITC': imi.IntrinsicTotalCorrelation, 'IDTC': imi.IntrinsicDualTotalCorrelation,
                'ICAEKL': imi.IntrinsicCAEKLMutualInformation, 'WYNER': WynerCommonInformation,
                'EXACT': ExactCommonInformation, 'DW-CO': deweese.DeWeeseCoInformation}[k]

        class Rec(base):
            _last = []

            def optimize(self, *args, **kwargs):
                res = base.optimize(self, *args, **kwargs)
                Rec._last.append(self)
                return res
        Rec._last = []
        Rec.__name__ = base.__name__
        c2 = dict(case, cls=k)
        zs = [c]
        state = np.random.get_state()
        np.random.seed(case['seed'] % (2 ** 32))
        try:
            if k in RD_CLASSES:
                zs = [c] if case['rdform'] == 'cond' else []
                out = Rec.functional()(d, beta=case['beta'], rv=[a], crvs=zs or None)
                vals = {'rate': float(out.rate), 'distortion': float(out.distortion)}
            elif k == 'IB':
                zs = [c] if self.ib_crvs(case) else []
                out = Rec.functional()(d, beta=case['beta'], alpha=case['alpha'], rvs=[[a], [b]], crvs=zs or None, bound=case['bound'])
                vals = {'complexity': float(out[0]), 'relevance': float(out[1])}
            elif k in ('ITC', 'IDTC', 'ICAEKL'):
                vals = {'objective': float(Rec.functional()(d, [[a], [b]], [c], niter=2, bound=case['bound']))}
            elif k == 'DW-CO':
                # the functional form reports the measure itself, the objective is minus the measure
                vals = {'objective': -float(Rec.functional()(d, [[a], [b]], [c], niter=2))}
            else:
                zs = self.markov_crvs(c2)
                vals = {'objective': float(Rec.functional()(d, [[a], [b]], zs or None))}
        except OptimizationException:
            r.features.append('wrapper-no-optimum')       # the search returned nothing: searches are not judged
            return
        finally:
            np.random.set_state(state)
        r.detail = {'returned': vals}
        if not Rec._last:
            # no search: only the common informations may answer without one, when B = H (then C = B = H)
            dtc, ent = M('dual_total_correlation', [[a], [b]], zs), M('entropy', [[a, b]], zs)
            r.features.append('wrapper-shortcut')
            if k not in ('WYNER', 'EXACT'):
                r.oracle_fail = 'the functional form of %s returned %r without a search' % (k, vals)
            elif abs(dtc - ent) > 1e-6:
                r.oracle_fail = 'the functional form returned %r without a search although B = %r differs from H = %r' % (vals, dtc, ent)
            elif abs(vals['objective'] - ent) > 1e-9:
                r.oracle_fail = 'common information %r returned for B = H = %r' % (vals['objective'], ent)
            return
        if case['cls'].endswith('-COPY'):
            r.features.append('copy-searched')
        inst = Rec._last[-1]
        xs = np.array(inst._optima, dtype=float)
        ref = self.make(c2, d)
        if not hasattr(ref, 'objective') or not callable(getattr(ref, 'objective', None)):
            ref.objective = MethodType(ref._objective(), ref)
        ji = np.asarray(inst.construct_joint(xs.copy()), dtype=float)
        if xs.shape != (ref._optvec_size,):
            r.oracle_fail = ('the functional form searched over %d parameters, the optimiser built from the same arguments has %d'
                             % (xs.size, ref._optvec_size))
            return
        jr = np.asarray(ref.construct_joint(xs.copy()), dtype=float)
        if ji.shape != jr.shape or float(np.abs(ji - jr).max()) > 1e-12:
            r.oracle_fail = ('the joint at the optimum of the functional form (shape %s) is not the joint the optimiser built from '
                             'the same arguments constructs from that vector (shape %s)' % (list(ji.shape), list(jr.shape)))
            return
        det = {}
        self.check_objective(c2, ref, xs, jr, r, det=det)
        if r.bad():
            return
        defs = det.get('defs', {})
        r.detail['definitions'] = defs
        r.features.append('wrapper-judged')
        for name, v in vals.items():
            if name in defs and not (abs(v - defs[name]) <= 1e-9 * max(1.0, abs(defs[name]))):
                r.oracle_fail = ('the functional form reports %s = %r, the definition evaluated on the joint of its optimum gives %r'
                                 % (name, v, defs[name]))
                return
        # ---- bounds that hold for any feasible point
        if k in RD_CLASSES:
            hx = M('entropy', [[a]], zs)
            rate, dist = vals['rate'], vals['distortion']
            if rate < -1e-6 or rate > hx + 1e-6:
                r.oracle_fail = 'rate %r outside [0, H(X|Z) = %r]' % (rate, hx)
            elif k == 'RDH':
                nx = jr.shape[0]
                if not (-1e-9 <= dist <= 1 + 1e-9):
                    r.oracle_fail = 'Hamming distortion %r outside [0, 1]' % dist
                elif nx >= 2 and rate < hx - hbin(min(max(dist, 0.0), 1.0)) - dist * math.log2(nx - 1) - 1e-6:
                    # Fano: H(X|T,Z) <= h(P[X != T]) + P[X != T] log(|X| - 1)
                    r.oracle_fail = ('rate %r and Hamming distortion %r contradict Fano\'s inequality for H(X|Z) = %r, |X| = %d'
                                     % (rate, dist, hx, nx))
        elif k == 'IB':
            comp, rel = vals['complexity'], vals['relevance']
            hx, ixy = M('entropy', [[a]], zs), M('cmi', [[a], [b]], zs)
            if rel > ixy + 1e-4 or comp > hx + 1e-4 or rel < -1e-6 or comp < -1e-6:
                r.oracle_fail = 'information bottleneck optimum: relevance %r (I(X:Y|Z) = %r), complexity %r (H(X|Z) = %r)' % (rel, ixy, comp, hx)
        elif k == 'DW-CO':
            # X0' - X0 - X1 - X1' given Z: data processing, for every feasible point
            v, up = -vals['objective'], M('cmi', [[a], [b]], [c])
            if v < -1e-6 or v > up + 1e-6:
                r.oracle_fail = 'DeWeese co-information %r outside [0, I(X0:X1|Z) = %r]' % (v, up)
        elif k in ('ITC', 'IDTC', 'ICAEKL'):
            v, up = vals['objective'], min(M('cmi', [[a], [b]], []), M('cmi', [[a], [b]], [c]))
            if v < -1e-4 or v > up + 1e-4:
                r.oracle_fail = 'intrinsic value %r outside [0, min(I(X:Y), I(X:Y|Z)) = %r]' % (v, up)

    def check_bounds(self, case, d, r):
        dit = import_dit()
        import dit.multivariate as mv
        from dit.shannon import mutual_information, conditional_entropy, entropy
        k = case['cls']
        ixy = float(mutual_information(d, [0], [1]))
        ixyz = float(mv.coinformation(d, [[0], [1]], [2]))
        if k in ('ITC', 'IDTC', 'ICAEKL', 'MIN-ITC'):
            f = {'ITC': mv.intrinsic_total_correlation, 'IDTC': mv.intrinsic_dual_total_correlation,
                 'ICAEKL': mv.intrinsic_caekl_mutual_information, 'MIN-ITC': mv.minimal_intrinsic_total_correlation}[k]
            v = float(f(d, [[0], [1]], [2], niter=2) if k != 'MIN-ITC' else f(d, [[0], [1]], [2], niter=2))
            r.features.append('bounds-checked')
            if v < -1e-4 or v > min(ixy, ixyz) + 1e-4:
                r.oracle_fail = 'intrinsic value %r outside [0, min(I(X:Y), I(X:Y|Z)) = %r]' % (v, min(ixy, ixyz))
        elif k == 'IB':
            from dit.rate_distortion.information_bottleneck import InformationBottleneck
            ib = InformationBottleneck(d, beta=case['beta'] or 1.0, rvs=[[0], [1]])
            ib.optimize(niter=2)
            j = ib.construct_joint(ib._optima)
            comp, rel = float(ib.complexity(j)), float(ib.relevance(j))
            r.features.append('bounds-checked')
            if rel > ixy + 1e-4 or comp > float(entropy(d, [0])) + 1e-4 or rel < -1e-6 or comp < -1e-6:
                r.oracle_fail = 'information bottleneck optimum: relevance %r (I(X:Y) = %r), complexity %r (H(X) = %r)' % (
                    rel, ixy, comp, float(entropy(d, [0])))


PROP = C15()
