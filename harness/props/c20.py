"""
C20 — Simplex utilities stay on the simplex and invert each other.
"""
import math
from decimal import Decimal, getcontext
from fractions import Fraction

import numpy as np

import core
from canon import f2bits, bits2f
from driver import q, unq
from env import import_dit


def fl(xs):
    return [f2bits(float(x)) for x in xs]


def unfl(bs):
    return [bits2f(b) for b in bs]


class C20(object):
    id = 'C20'
    rule = ("compositions of dimension 2..8 (uniform, random, dyadic, entries spanning up to 30 orders of magnitude), "
            "perturbation sizes 1e-6..1, subdivisions 1..12, grid (length 1..8, subdivisions 1..6; all of them in the "
            "thorough tier); operations: clr/alr/ilr and inverses, closure/perturbation/power, inner/norm/dist, "
            "isometry, perturb_support, replace_zeros, jittered, convex_combination, downsample, slots, simplex_grid; "
            "neighbouring pairs (kind `near`: y = x perturbed by a composition within 1e-2..1e-13 of the neutral element, "
            "x near the neutral element, y equal to x, aliased arguments, stacked (k,n) arguments) judged with a "
            "round-off-sized tolerance; call sequences: every array case may be evaluated twice on the same array "
            "objects (`reps`), convex_combination is swept over 1..4 weight vectors on the same component pmfs "
            "(given as one float ndarray, as nested lists or as a list of rows; weights as ndarray or list); "
            "non-trivial = dimension >= 3 and not the uniform composition")
    tolerances = {'transcendental functions vs the model in Float': 'rtol 1e-9 / atol 1e-11',
                  'slots / simplex_grid': 'exact (as sets of integer tuples, multiplicities included)',
                  'isometry on neighbouring pairs (kind near)':
                      'rtol 1e-9 + 32 u sqrt(D), u = 2^-52 (1 + max |log2 entry|): a forward bound for the round-off of '
                      'both sides (each is a Euclidean norm of D differences of centred base-2 logarithms); measured on the '
                      'unchanged code: at most 0.65 u sqrt(D). Inner products: rtol 1e-9 + 32 u sqrt(D) (|x| + |y| + u)',
                  'rational operations (closure, convex, replace_zeros, downsample) vs exact model': 'atol 1e-12'}
    exhaustive = {'thorough': True}

    def gen(self, rng, tier):
        n = 300 if tier == 'quick' else 30000
        if tier == 'thorough':
            for k in range(1, 9):
                for m in range(1, 7):
                    yield {'kind': 'grid', 'length': k, 'sub': m}
                    yield {'kind': 'slots', 'n': m, 'k': k}
        for _ in range(n):
            kind = rng.choice(['roundtrip', 'roundtrip', 'ops', 'isometry', 'perturb', 'replace', 'convex', 'downsample',
                               'grid', 'slots', 'near', 'near', 'convex'])
            if kind in ('grid', 'slots'):
                if kind == 'grid':
                    yield {'kind': 'grid', 'length': rng.randint(1, 6), 'sub': rng.randint(1, 6)}
                else:
                    yield {'kind': 'slots', 'n': rng.randint(1, 7), 'k': rng.randint(1, 5)}
                continue
            dim = rng.randint(2, 8)
            x = self.rand_comp(rng, dim)
            y = self.rand_comp(rng, dim)
            c = {'kind': kind, 'x': [str(v) for v in x], 'y': [str(v) for v in y], 'dim': dim,
                 'a': rng.choice([-2.0, -1.0, 0.5, 2.0, 3.0]), 'seed': rng.randrange(2 ** 31),
                 'eps': rng.choice([1e-6, 1e-3, 0.1, 1.0]), 'shape': rng.choice(['ball', 'square']),
                 'sub': rng.randint(1, 12),
                 # how many times the case is evaluated on the same array objects
                 'reps': rng.choice([1, 1, 2])}
            if kind == 'near':
                # a pair of neighbours: y = x (+) closure(1 + size t), |t_i| <= 1, in exact arithmetic; or x itself
                # within `size` of the neutral element; or y a separate copy of x
                c['about'] = about = rng.choice(['pair', 'pair', 'pair', 'neutral', 'same'])
                c['size'] = size = rng.choice(['1e-2', '1e-4', '1e-5', '1e-6', '1e-7', '1e-8', '1e-10', '1e-13'])
                t = [Fraction(rng.randint(-1000, 1000), 1000) for _ in range(dim)]
                if len(set(t)) == 1:
                    t[0] = -t[0] if t[0] else Fraction(1)
                if about == 'neutral':
                    x = [Fraction(1, dim)] * dim
                if about == 'same':
                    t = [Fraction(0)] * dim
                yq = [v * (1 + Fraction(size) * tt) for v, tt in zip(x, t)]
                tot = sum(yq)
                yq = [v / tot for v in yq]
                if about == 'neutral':
                    x, yq = yq, x
                c['x'] = [str(v) for v in x]
                c['y'] = [str(v) for v in yq]
            if kind in ('replace', 'downsample', 'perturb'):
                # pmfs with zeros
                k = rng.randint(0, dim - 2)
                idx = rng.sample(range(dim), k)
                xz = [Fraction(0) if i in idx else v for i, v in enumerate(x)]
                tot = sum(xz)
                c['x'] = [str(v / tot) for v in xz]
                c['delta'] = rng.choice([1e-3, 1e-2, 0.05])
            if kind == 'downsample' and rng.random() < 0.5:
                # a pmf that already is a grid point (with zeros): snapping must leave it alone, in floats too
                m = rng.choice([3, 5, 6, 7, 9, 10, 12])
                cuts = sorted(rng.randint(0, m) for _ in range(dim - 1))
                parts = [b - a for a, b in zip([0] + cuts, cuts + [m])]
                rng.shuffle(parts)
                parts.sort(key=lambda v: v == 0)       # zeros last, as often as not
                if rng.random() < 0.5:
                    rng.shuffle(parts)
                c['x'] = [str(Fraction(v, m)) for v in parts]
                c['sub'] = m
            if kind == 'convex':
                m = rng.randint(1, 4)
                c['pmfs'] = [[str(v) for v in self.rand_comp(rng, dim)] for _ in range(m)]
                c['w'] = [str(Fraction(rng.randint(0, 5), 7)) for _ in range(m)]
                if all(Fraction(w) == 0 for w in c['w']):
                    c['w'][0] = '1'
                if rng.random() < 0.3:
                    c['w'] = None
                # a sweep: further weight vectors applied to the same component pmfs, one call after the other
                ws = [c['w']]
                for _ in range(rng.choice([0, 1, 2, 3])):
                    wj = [str(Fraction(rng.randint(0, 5), rng.choice([1, 7]))) for _ in range(m)]
                    if all(Fraction(w) == 0 for w in wj):
                        wj[rng.randrange(m)] = '1'
                    ws.append(None if rng.random() < 0.15 else wj)
                c['ws'] = ws
                c['form'] = rng.choice(['ndarray', 'ndarray', 'list', 'rows'])
                c['wform'] = rng.choice(['ndarray', 'ndarray', 'list', 'int'])
            yield c

    def rand_comp(self, rng, dim):
        style = rng.choice(['uniform', 'random', 'dyadic', 'wide', 'wide', 'tiny'])
        if style == 'tiny':
            # entries whose product underflows a double although every logarithm is finite
            w = [Fraction(10) ** rng.randint(-80, -50) * rng.randint(1, 9) for _ in range(dim)]
            w[rng.randrange(dim)] = Fraction(1)
            tot = sum(w)
            return [v / tot for v in w]
        if style == 'uniform':
            return [Fraction(1, dim)] * dim
        if style == 'dyadic':
            w = [Fraction(rng.randint(1, 8)) for _ in range(dim)]
        elif style == 'random':
            w = [Fraction(rng.randint(1, 10 ** 6)) for _ in range(dim)]
        else:
            w = [Fraction(10) ** rng.randint(-30, 0) * rng.randint(1, 9) for _ in range(dim)]
        tot = sum(w)
        return [v / tot for v in w]

    def shrink(self, case):
        return []

    # ------------------------------------------------------------------
    def run(self, case, drv):
        dit = import_dit()
        from dit.math import aitchison as A
        from dit.math import pmfops as P
        r = core.Result()
        kind = case['kind']
        r.site = 'dit.math.' + kind
        r.features = ['kind=%s' % kind]
        if kind == 'slots':
            from dit.math.combinatorics import slots
            got = sorted(tuple(int(v) for v in t) for t in slots(case['n'], case['k']))
            mo = sorted(tuple(t) for t in drv.call('slots', [case['n'], case['k']]))
            r.nontrivial = case['n'] >= 2 and case['k'] >= 2
            if got != mo:
                r.mismatch = 'slots(%d,%d): impl %s model %s' % (case['n'], case['k'], got[:6], mo[:6])
            want = math.comb(case['n'] + case['k'] - 1, case['k'] - 1)
            if len(set(got)) != len(got):
                r.oracle_fail = 'slots(%d,%d) repeats a composition' % (case['n'], case['k'])
            elif len(got) != want or any(sum(t) != case['n'] or len(t) != case['k'] or min(t) < 0 for t in got):
                r.oracle_fail = 'slots(%d,%d) is not the set of weak compositions (%d found, %d expected)' % (case['n'], case['k'], len(got), want)
            return r
        if kind == 'grid':
            k, m = case['length'], case['sub']
            pts = [tuple(p) for p in dit.simplex_grid(k, m, using=tuple)]
            r.nontrivial = k >= 2 and m >= 2
            nums = sorted(tuple(int(round(v * m)) for v in p) for p in pts)
            mo = sorted(tuple(t) for t in drv.call('slots', [m, k]))
            if nums != mo:
                r.mismatch = 'simplex_grid(%d,%d): impl %s model %s' % (k, m, nums[:6], mo[:6])
            want = math.comb(m + k - 1, k - 1)
            bad = [p for p in pts if abs(sum(p) - 1) > 1e-12 or min(p) < 0 or any(abs(v * m - round(v * m)) > 1e-9 for v in p)]
            if bad:
                r.oracle_fail = 'simplex_grid(%d,%d) yields a non-grid point %s' % (k, m, bad[0])
            elif len(set(nums)) != len(nums) or len(nums) != want:
                r.oracle_fail = 'simplex_grid(%d,%d) does not enumerate every grid point exactly once (%d points, %d distinct, %d expected)' % (k, m, len(nums), len(set(nums)), want)
            # distributions form
            if not r.oracle_fail:
                ds = list(dit.simplex_grid(k, m))
                if len(ds) != want or any(abs(float(np.sum(d.pmf)) - 1) > 1e-12 for d in ds):
                    r.oracle_fail = 'simplex_grid(%d,%d) with distributions: wrong count or unnormalised' % (k, m)
            # the in-place form, and two grids alive at the same time (all pairs of grid points)
            if not r.oracle_fail and want <= 40:
                seq = [tuple(int(round(v * m)) for v in d.pmf) for d in dit.simplex_grid(k, m, inplace=True)]
                if sorted(seq) != nums:
                    r.oracle_fail = 'simplex_grid(%d,%d, inplace=True) does not enumerate the grid' % (k, m)
                else:
                    pairs = []
                    for a_ in dit.simplex_grid(k, m, inplace=True):
                        for b_ in dit.simplex_grid(k, m, inplace=True):
                            pairs.append((tuple(int(round(v * m)) for v in a_.pmf), tuple(int(round(v * m)) for v in b_.pmf)))
                    if sorted(pairs) != sorted((a_, b_) for a_ in nums for b_ in nums):
                        r.oracle_fail = ('two simplex_grid(%d,%d, inplace=True) generators alive at once do not enumerate all '
                                         'pairs of grid points (%d pairs, %d distinct)' % (k, m, len(pairs), len(set(pairs))))
            return r

        # x0 / y0: the values of the case (reference for the model and the oracle, never handed to dit);
        # x / y: the array objects handed to dit -- the same objects in every evaluation of the case
        x0 = np.array([float(Fraction(v)) for v in case['x']])
        y0 = np.array([float(Fraction(v)) for v in case['y']])
        x, y = x0.copy(), y0.copy()
        dim = case['dim']
        reps = int(case.get('reps', 1))
        r.features += ['dim=%d' % dim, 'reps=%d' % reps]
        r.nontrivial = dim >= 3 and len(set(case['x'])) > 1
        state = {}
        if kind == 'convex':
            r.features += ['calls=%d' % (len(case.get('ws') or [0]) * reps), 'pmfs=%s' % case.get('form', 'ndarray'),
                           'weights=%s' % case.get('wform', 'ndarray')]
        if kind == 'near':
            r.features += ['about=%s' % case['about'], 'size=%s' % case['size']]
        for rep in range(reps):
            self.once(case, drv, r, dit, A, P, x, y, x0, y0, state)
            if r.bad():
                if rep:
                    note = 'evaluation #%d on the same array objects: ' % (rep + 1)
                    r.oracle_fail = r.oracle_fail and note + r.oracle_fail
                    r.mismatch = r.mismatch and note + r.mismatch
                break
        return r

    def once(self, case, drv, r, dit, A, P, x, y, x0, y0, state):
        kind = case['kind']
        dim = case['dim']

        def cmpf(name, got, args):
            mo = unfl(drv.call('aitchf', args))
            got = [float(v) for v in np.ravel(got)]
            if len(got) != len(mo):
                return '%s: length impl %d model %d' % (name, len(got), len(mo))
            for a, b in zip(got, mo):
                if not (abs(a - b) <= 1e-11 + 1e-9 * max(abs(a), abs(b))):
                    return '%s: impl %r model %r' % (name, got, mo)
            return None

        def simplex_fail(name, v, positive=True):
            v = np.asarray(v, dtype=float)
            if not np.all(np.isfinite(v)):
                return '%s is not finite: %s' % (name, v)
            if abs(v.sum() - 1) > 1e-9:
                return '%s sums to %r' % (name, v.sum())
            if (positive and np.any(v <= 0)) or np.any(v < 0):
                return '%s leaves the simplex: %s' % (name, v)
            return None

        if kind == 'roundtrip':
            for name, f, finv in (('clr', A.clr, A.clr_inv), ('alr', A.alr, A.alr_inv), ('ilr', A.ilr, A.ilr_inv)):
                t = f(x)
                back = finv(t)
                err = float(np.max(np.abs(back - x0) / x0))
                if not (err <= 1e-9):
                    r.oracle_fail = '%s_inv(%s(x)) differs from x by relative %g' % (name, name, err)
                    break
                r.mismatch = r.mismatch or cmpf(name, t, [name, fl(x0), []]) or cmpf(name + '_inv', back, [name + '_inv', fl(t), []])
            # other direction: arbitrary coordinate vector
            if not r.oracle_fail:
                rs = np.random.RandomState(case['seed'])
                v = rs.randn(dim - 1) * 3
                z = A.ilr_inv(v)
                r.oracle_fail = simplex_fail('ilr_inv(v)', z)
                if not r.oracle_fail and float(np.max(np.abs(A.ilr(z) - v))) > 1e-8:
                    r.oracle_fail = 'ilr(ilr_inv(v)) differs from v'
                if not r.oracle_fail and float(np.max(np.abs(A.alr(A.alr_inv(v)) - v))) > 1e-8:
                    r.oracle_fail = 'alr(alr_inv(v)) differs from v'
            r.detail = {'x': list(x0)}
            return
        if kind == 'ops':
            a = case['a']
            res = {'closure': A.closure(x * 3.7), 'perturbation': A.perturbation(x, y), 'power': A.power(x, a)}
            for name, v in res.items():
                r.oracle_fail = r.oracle_fail or simplex_fail(name, v)
            r.mismatch = (cmpf('closure', res['closure'], ['closure', fl(x0 * 3.7), []])
                          or cmpf('perturbation', res['perturbation'], ['perturbation', fl(x0), fl(y0)])
                          or cmpf('power', res['power'], ['power', fl(x0), fl([a])]))
            return
        if kind == 'isometry':
            d1 = float(A.dist(x, y))
            d2 = float(np.linalg.norm(A.ilr(x) - A.ilr(y)))
            ip = float(A.inner(x, y))
            ip2 = float(np.dot(A.ilr(x), A.ilr(y)))
            if not (abs(d1 - d2) <= 1e-9 * max(1.0, d1)):
                r.oracle_fail = 'Aitchison distance %r but Euclidean distance of ilr coordinates %r' % (d1, d2)
            elif not (abs(ip - ip2) <= 1e-8 * max(1.0, abs(ip))):
                r.oracle_fail = 'Aitchison inner product %r but dot product of ilr coordinates %r' % (ip, ip2)
            r.mismatch = (cmpf('dist', [d1], ['dist', fl(x0), fl(y0)]) or cmpf('inner', [ip], ['inner', fl(x0), fl(y0)])
                          or cmpf('norm', [float(A.norm(x))], ['norm', fl(x0), []]))
            return
        if kind == 'near':
            self.near(case, r, A, x, y, x0, y0, cmpf)
            return
        if kind == 'perturb':
            if int((x0 > 0).sum()) < 2:
                return
            rs = np.random.RandomState(case['seed'])
            out = P.perturb_support(x, eps=case['eps'], shape=case['shape'], prng=rs)
            r.oracle_fail = simplex_fail('perturb_support', out, positive=False)
            if not r.oracle_fail and not np.array_equal(out > 0, x0 > 0):
                r.oracle_fail = 'perturb_support changed the support: %s -> %s' % (x0, out)
            if not r.oracle_fail:
                rs = np.random.RandomState(case['seed'])
                j = P.jittered(x, jitter=1e-5, zeros=True, prng=rs)
                r.oracle_fail = simplex_fail('jittered', j)
            return
        if kind == 'replace':
            delta = case['delta']
            out = P.replace_zeros(x, delta, rand=False)
            nz = int((x0 == 0).sum())
            mo = [float(unq(v)) for v in drv.call('simplexq', ['replace_zeros', [q(Fraction(v)) for v in x0],
                                                               [q(Fraction(delta))] * nz])]
            if any(abs(a - b) > 1e-12 for a, b in zip(out, mo)):
                r.mismatch = 'replace_zeros: impl %s model %s' % (list(out), mo)
            r.oracle_fail = simplex_fail('replace_zeros', out)
            if not r.oracle_fail and any(abs(o - delta) > 1e-15 for o, v in zip(out, x0) if v == 0):
                r.oracle_fail = 'replace_zeros did not fill the zeros with delta'
            if not r.oracle_fail:
                rs = np.random.RandomState(case['seed'])
                out2 = P.replace_zeros(x, delta, rand=True, prng=rs)
                r.oracle_fail = simplex_fail('replace_zeros(rand)', out2, positive=nz == 0 or True)
            return
        if kind == 'convex':
            # the component pmfs are built once per case and handed to every call of the sweep (and of every
            # repetition); the reference of every call is the exact mixture of the case's rationals
            pmq = [[Fraction(v) for v in p] for p in case['pmfs']]
            if 'pm' not in state:
                pm0 = np.array([[float(v) for v in p] for p in pmq])
                form = case.get('form', 'ndarray')
                state['pm'] = pm0 if form == 'ndarray' else pm0.tolist() if form == 'list' else [row.copy() for row in pm0]
                state['calls'] = 0
            pm = state['pm']
            for wj in (case.get('ws') or [case['w']]):
                if wj is None:
                    w = None
                else:
                    wf = [Fraction(v) for v in wj]
                    wform = case.get('wform', 'ndarray')
                    if wform == 'int' and all(v.denominator == 1 for v in wf):
                        w = np.array([int(v) for v in wf])
                    elif wform == 'list':
                        w = [float(v) for v in wf]
                    else:
                        w = np.array([float(v) for v in wf])
                state['calls'] += 1
                out = P.convex_combination(pm, w)
                wq = [q(Fraction(1))] * len(pmq) if wj is None else [q(Fraction(v)) for v in wj]
                mo = [float(unq(v)) for v in drv.call('simplexq', ['convex', [[q(v) for v in p] for p in pmq], wq])]
                which = 'convex_combination' if state['calls'] == 1 else \
                    'convex_combination (call #%d with the same component pmfs, weights %s)' % (state['calls'], wj)
                out = np.asarray(out, dtype=float)
                if out.shape != (dim,):
                    r.mismatch = '%s: shape %s' % (which, out.shape)
                    return
                if any(abs(a - b) > 1e-12 for a, b in zip(out, mo)):
                    r.mismatch = '%s: impl %s model %s' % (which, list(out), mo)
                r.oracle_fail = simplex_fail(which, out, positive=False)
                if r.bad():
                    return
            return
        if kind == 'downsample':
            m = case['sub']
            out = P.downsample(x, m)
            mo = [float(unq(v)) for v in drv.call('simplexq', ['downsample', m, [q(Fraction(v)) for v in x0]])]
            r.detail = {'x': list(x0), 'impl': list(out), 'model': mo}
            if any(abs(a - b) > 1e-9 for a, b in zip(out, mo)) and not self.near_tie(x0, m):
                r.mismatch = 'downsample: impl %s model %s' % (list(out), mo)
            r.oracle_fail = simplex_fail('downsample', out, positive=False)
            if not r.oracle_fail and any(abs(v * m - round(v * m)) > 1e-7 for v in out):
                r.oracle_fail = 'downsample(x, %d) = %s is not on the grid' % (m, list(out))
            return
        return

    # ------------------------------------------------------------------
    EPS = 2.0 ** -52

    @staticmethod
    def aitchison_ref(xs, ys):
        """Aitchison distance, norms and inner product of the doubles xs, ys from the definition (Euclidean
        geometry of the centred base-2 logarithms), in 60-digit decimal arithmetic."""
        getcontext().prec = 60
        ln2 = Decimal(2).ln()

        def clog(v):
            fr = [Fraction(float(t)) for t in v]
            ls = [(Decimal(f.numerator).ln() - Decimal(f.denominator).ln()) / ln2 for f in fr]
            m = sum(ls) / len(ls)
            return [t - m for t in ls]

        cx, cy = clog(xs), clog(ys)
        return {'dist': float(sum((a - b) ** 2 for a, b in zip(cx, cy)).sqrt()),
                'inner': float(sum(a * b for a, b in zip(cx, cy))),
                'nx': float(sum(a * a for a in cx).sqrt()), 'ny': float(sum(b * b for b in cy).sqrt())}

    def near(self, case, r, A, x, y, x0, y0, cmpf):
        """ilr is an isometry for the Aitchison distance -- on neighbouring compositions, where the distance is
        small compared with the logarithms it is made of, so the comparison has to be relative to the distance
        and not to 1.  Both sides are Euclidean norms of D differences of centred logarithms; with
        u = eps (1 + max |log2 entry|) bounding the round-off of one centred logarithm, each side carries an
        absolute error of a few u sqrt(D)."""
        D = len(x0)
        L = float(max(np.max(np.abs(np.log2(x0))), np.max(np.abs(np.log2(y0)))))
        u = self.EPS * (1.0 + L)
        ref = self.aitchison_ref(x0, y0)

        def tol_d(*ds):
            return 1e-9 * max(ds) + 32 * u * math.sqrt(D)

        def fail(what, got, other, how):
            return ('%s = %r but %s = %r (definition, 60 digits: %r; allowed difference %.3g)'
                    % (what, got, how, other, ref_of[what.split('(')[0]], tol_d(got, other)))

        ref_of = {'dist': ref['dist'], 'metric': ref['dist'], 'norm': ref['nx']}
        ix, iy = A.ilr(x), A.ilr(y)
        d2 = float(np.linalg.norm(ix - iy))
        checks = [('dist(x, y)', float(A.dist(x, y))), ('dist(y, x)', float(A.dist(y, x))),
                  ('metric(x, y)', float(A.metric(x, y)))]
        # the same pair as rows of stacked (k, n) arguments
        st = np.ravel(A.dist(np.array([x0, y0, x0]), np.array([y0, x0, y0])))
        if st.shape != (3,):
            r.mismatch = 'dist of stacked (3, n) arguments has shape %s' % (st.shape,)
            return
        checks += [('dist(rows)[%d]' % i, float(v)) for i, v in enumerate(st)]
        for what, d1 in checks:
            if not (abs(d1 - d2) <= tol_d(d1, d2)):
                r.oracle_fail = fail(what, d1, d2, '||ilr(x) - ilr(y)||')
                return
        # norms, with the composition itself and through the aliased inner product norm() is made of
        for nm, v, iv, nref in (('x', x, ix, ref['nx']), ('y', y, iy, ref['ny'])):
            n1 = float(A.norm(v))
            n2 = float(np.linalg.norm(iv))
            ref_of['norm'] = nref
            if not (abs(n1 - n2) <= tol_d(n1, n2)):
                r.oracle_fail = fail('norm(%s)' % nm, n1, n2, '||ilr(%s)||' % nm)
                return
            s1 = float(A.inner(v, v))
            s2 = float(np.dot(iv, iv))
            tol = 1e-9 * abs(s2) + 32 * u * math.sqrt(D) * (2 * n2 + u)
            if not (abs(s1 - s2) <= tol):
                r.oracle_fail = ('inner(%s, %s) (one object) = %r but <ilr(%s), ilr(%s)> = %r (definition: %r; allowed '
                                 'difference %.3g)' % (nm, nm, s1, nm, nm, s2, nref ** 2, tol))
                return
        ip = float(A.inner(x, y))
        ip2 = float(np.dot(ix, iy))
        tol = 1e-9 * abs(ip2) + 32 * u * math.sqrt(D) * (ref['nx'] + ref['ny'] + u)
        if not (abs(ip - ip2) <= tol):
            r.oracle_fail = ('inner(x, y) = %r but <ilr(x), ilr(y)> = %r (definition: %r; allowed difference %.3g)'
                             % (ip, ip2, ref['inner'], tol))
            return
        # correspondence: the code's distance against the definition, and against the model in Float
        d1 = checks[0][1]
        if not (abs(d1 - ref['dist']) <= tol_d(d1, ref['dist'])):
            r.mismatch = 'dist: impl %r, definition evaluated with 60 digits %r' % (d1, ref['dist'])
        r.mismatch = r.mismatch or (cmpf('dist', [d1], ['dist', fl(x0), fl(y0)])
                                    or cmpf('norm', [float(A.norm(x))], ['norm', fl(x0), []]))
        r.detail = {'x': list(x0), 'y': list(y0), 'dist': d1, 'ilr': d2, 'definition': ref['dist']}

    @staticmethod
    def near_tie(x, m):
        """Is some intermediate value within 1e-9 of the midpoint between two grid values? Then
        float and exact arithmetic may legitimately snap differently."""
        # conservative: replay the float algorithm and look at distances
        v = np.array(x, dtype=float).copy()
        prev = 0.0
        for i in range(len(v) - 1):
            p = v[i]
            k = math.floor(p * m + 1e-12)
            dl, du = p - k / m, (k + 1) / m - p
            if abs(dl - du) < 1e-9 or abs(dl) < 1e-12 or abs(du) < 1e-12:
                return True
            s = k / m if dl <= du else (k + 1) / m
            prev += s
            rest = v[i + 1:].sum()
            if rest > 0 and 1 - prev > 0:
                v[i + 1:] *= (1 - prev) / rest
            else:
                v[i + 1:] = 0
        return False


PROP = C20()
