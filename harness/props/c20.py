"""
C20 — Simplex utilities stay on the simplex and invert each other.
"""
import math
import random
from decimal import Decimal, getcontext
from fractions import Fraction

import numpy as np

import core
from canon import f2bits, bits2f
from driver import q, unq
from env import import_dit


def fl(xs):
    return [f2bits(float(x)) for x in xs]


def unfl(bs):
    return [bits2f(b) for b in bs]


class C20(object):
    id = 'C20'
    rule = ("compositions of dimension 2..8 (uniform, random, dyadic, entries spanning up to 30 orders of magnitude), "
            "perturbation sizes 1e-6..1, subdivisions 1..12, grid (length 1..8, subdivisions 1..6; all of them in the "
            "thorough tier); operations: clr/alr/ilr and inverses, closure/perturbation/power, inner/norm/dist, "
            "isometry, perturb_support, replace_zeros, jittered, convex_combination, downsample, slots, simplex_grid; "
            "neighbouring pairs (kind `near`: y = x perturbed by a composition within 1e-2..1e-13 of the neutral element, "
            "x near the neutral element, y equal to x, aliased arguments, stacked (k,n) arguments) judged with a "
            "round-off-sized tolerance; call sequences: every array case may be evaluated twice on the same array "
            "objects (`reps`), convex_combination is swept over 1..4 weight vectors on the same component pmfs "
            "(given as one float ndarray, as nested lists or as a list of rows; weights as ndarray or list); "
            "(k, n) arguments (kind `stack`: k = 1..4 compositions as rows through clr/alr/ilr and inverses, closure, "
            "perturbation, power with one or k exponents, subcomposition over 1..n indexes, dist/inner/norm; perturb_support "
            "and jittered on rows with supports of their own); the library's own generator in place of a supplied one, "
            "jittered(zeros=False), ball(n, size), replace_zeros on (k, n) pmfs with zero counts of their own (rand False and True); kind `proj`: projections() and downsample() on (n,) and (k, n) pmfs with "
            "zeros or already on the grid, ops omitted or given; simplex_grid with using = tuple / list / numpy.array / default; "
            "using = callables that keep their argument (identity, numpy.asarray / asanyarray, a container, a recorder) and "
            "distributions with inplace=False, the items read as they are yielded, one step behind the generator, or after "
            "the generator is exhausted; "
            "non-trivial = dimension >= 3 and not the uniform composition")
    tolerances = {'transcendental functions vs the model in Float': 'rtol 1e-9 / atol 1e-11',
                  'slots / simplex_grid': 'exact (as sets of integer tuples, multiplicities included)',
                  'isometry on neighbouring pairs (kind near)':
                      'rtol 1e-9 + 32 u sqrt(D), u = 2^-52 (1 + max |log2 entry|): a forward bound for the round-off of '
                      'both sides (each is a Euclidean norm of D differences of centred base-2 logarithms); measured on the '
                      'unchanged code: at most 0.65 u sqrt(D). Inner products: rtol 1e-9 + 32 u sqrt(D) (|x| + |y| + u)',
                  'rational operations (closure, convex, replace_zeros, downsample) vs exact model': 'atol 1e-12'}
    exhaustive = {'thorough': True}

    def gen(self, rng, tier):
        n = 300 if tier == 'quick' else 30000
        if tier == 'thorough':
            for k in range(1, 9):
                for m in range(1, 7):
                    yield {'kind': 'grid', 'length': k, 'sub': m}
                    yield {'kind': 'slots', 'n': m, 'k': k}
        for _ in range(n):
            kind = rng.choice(['roundtrip', 'roundtrip', 'ops', 'isometry', 'perturb', 'replace', 'convex', 'downsample',
                               'grid', 'slots', 'near', 'near', 'convex'])
            if kind in ('grid', 'slots'):
                if kind == 'grid':
                    yield {'kind': 'grid', 'length': rng.randint(1, 6), 'sub': rng.randint(1, 6)}
                else:
                    yield {'kind': 'slots', 'n': rng.randint(1, 7), 'k': rng.randint(1, 5)}
                continue
            dim = rng.randint(2, 8)
            x = self.rand_comp(rng, dim)
            y = self.rand_comp(rng, dim)
            c = {'kind': kind, 'x': [str(v) for v in x], 'y': [str(v) for v in y], 'dim': dim,
                 'a': rng.choice([-2.0, -1.0, 0.5, 2.0, 3.0]), 'seed': rng.randrange(2 ** 31),
                 'eps': rng.choice([1e-6, 1e-3, 0.1, 1.0]), 'shape': rng.choice(['ball', 'square']),
                 'sub': rng.randint(1, 12),
                 # how many times the case is evaluated on the same array objects
                 'reps': rng.choice([1, 1, 2])}
            if kind == 'near':
                # a pair of neighbours: y = x (+) closure(1 + size t), |t_i| <= 1, in exact arithmetic; or x itself
                # within `size` of the neutral element; or y a separate copy of x
                c['about'] = about = rng.choice(['pair', 'pair', 'pair', 'neutral', 'same'])
                c['size'] = size = rng.choice(['1e-2', '1e-4', '1e-5', '1e-6', '1e-7', '1e-8', '1e-10', '1e-13'])
                t = [Fraction(rng.randint(-1000, 1000), 1000) for _ in range(dim)]
                if len(set(t)) == 1:
                    t[0] = -t[0] if t[0] else Fraction(1)
                if about == 'neutral':
                    x = [Fraction(1, dim)] * dim
                if about == 'same':
                    t = [Fraction(0)] * dim
                yq = [v * (1 + Fraction(size) * tt) for v, tt in zip(x, t)]
                tot = sum(yq)
                yq = [v / tot for v in yq]
                if about == 'neutral':
                    x, yq = yq, x
                c['x'] = [str(v) for v in x]
                c['y'] = [str(v) for v in yq]
            if kind in ('replace', 'downsample', 'perturb'):
                # pmfs with zeros
                k = rng.randint(0, dim - 2)
                idx = rng.sample(range(dim), k)
                xz = [Fraction(0) if i in idx else v for i, v in enumerate(x)]
                tot = sum(xz)
                c['x'] = [str(v / tot) for v in xz]
                c['delta'] = rng.choice([1e-3, 1e-2, 0.05])
            if kind == 'downsample' and rng.random() < 0.5:
                # a pmf that already is a grid point (with zeros): snapping must leave it alone, in floats too
                m = rng.choice([3, 5, 6, 7, 9, 10, 12])
                cuts = sorted(rng.randint(0, m) for _ in range(dim - 1))
                parts = [b - a for a, b in zip([0] + cuts, cuts + [m])]
                rng.shuffle(parts)
                parts.sort(key=lambda v: v == 0)       # zeros last, as often as not
                if rng.random() < 0.5:
                    rng.shuffle(parts)
                c['x'] = [str(Fraction(v, m)) for v in parts]
                c['sub'] = m
            if kind == 'convex':
                m = rng.randint(1, 4)
                c['pmfs'] = [[str(v) for v in self.rand_comp(rng, dim)] for _ in range(m)]
                c['w'] = [str(Fraction(rng.randint(0, 5), 7)) for _ in range(m)]
                if all(Fraction(w) == 0 for w in c['w']):
                    c['w'][0] = '1'
                if rng.random() < 0.3:
                    c['w'] = None
                # a sweep: further weight vectors applied to the same component pmfs, one call after the other
                ws = [c['w']]
                for _ in range(rng.choice([0, 1, 2, 3])):
                    wj = [str(Fraction(rng.randint(0, 5), rng.choice([1, 7]))) for _ in range(m)]
                    if all(Fraction(w) == 0 for w in wj):
                        wj[rng.randrange(m)] = '1'
                    ws.append(None if rng.random() < 0.15 else wj)
                c['ws'] = ws
                c['form'] = rng.choice(['ndarray', 'ndarray', 'list', 'rows'])
                c['wform'] = rng.choice(['ndarray', 'ndarray', 'list', 'int'])
            if kind == 'replace':
                # a (k, n) argument: further rows with zero counts of their own (none included), drawn from a generator
                # of their own so that the stream of cases stays what it was
                r2 = random.Random(c['seed'])
                c['rows'] = [[str(v) for v in (self.with_zeros(r2, self.rand_comp(r2, dim)) if r2.random() < 0.7
                                               else self.rand_comp(r2, dim))]
                             for _ in range(r2.choice([0, 1, 1, 2, 3]))]
            if kind == 'perturb':
                # further legal forms of the same calls, drawn from a generator of their own (the stream of the
                # cases above stays what it was): the library's own generator instead of a supplied one, jitter
                # that keeps the zeros, (k, n) arguments whose rows have supports of their own, ball(n, size)
                r2 = random.Random(c['seed'])
                c['more'] = {'global': r2.random() < 0.5, 'keepzeros': r2.random() < 0.6,
                             'jitter': r2.choice([1e-8, 1e-5, 1e-3]),
                             'rows': [[str(v) for v in self.with_zeros(r2, self.rand_comp(r2, dim))]
                                      for _ in range(r2.choice([0, 0, 1, 2, 3]))],
                             'ball': [r2.randint(1, 7), r2.randint(1, 5)]}
            yield c
        # ---- a second stream, after the first so that the cases above stay what they were:
        # `stack`: the transforms, their inverses, closure / perturbation / power / subcomposition, distance and
        #          inner product on (k, n) arguments (k compositions as rows), k = 1..4;
        # `proj`:  projections() -- the pmf, the intermediate snaps and the grid point downsample() returns --
        #          and downsample() itself on (n,) and (k, n) arguments
        for _ in range(n // 3):
            kind = rng.choice(['stack', 'stack', 'proj'])
            dim = rng.randint(2, 8)
            k = rng.randint(1, 4)
            if kind == 'stack':
                rows = [self.rand_comp(rng, dim) for _ in range(k)]
                rows2 = [self.rand_comp(rng, dim) for _ in range(k)]
                yield {'kind': 'stack', 'dim': dim, 'x': [str(v) for v in rows[0]], 'y': [str(v) for v in rows2[0]],
                       'rows': [[str(v) for v in p] for p in rows], 'rows2': [[str(v) for v in p] for p in rows2],
                       # one power for all rows, or one per row
                       'a': [rng.choice([-2.0, -1.0, 0.5, 2.0, 3.0]) for _ in range(rng.choice([1, k]))],
                       'idx': rng.sample(range(dim), rng.randint(1, dim)),
                       'seed': rng.randrange(2 ** 31), 'reps': rng.choice([1, 1, 2])}
                continue
            m = rng.randint(1, 12)
            rows = []
            for _ in range(k):
                if rng.random() < 0.4:
                    # already a grid point
                    cuts = sorted(rng.randint(0, m) for _ in range(dim - 1))
                    parts = [b - a for a, b in zip([0] + cuts, cuts + [m])]
                    rng.shuffle(parts)
                    rows.append([Fraction(v, m) for v in parts])
                else:
                    rows.append(self.with_zeros(rng, self.rand_comp(rng, dim)))
            yield {'kind': 'proj', 'dim': dim, 'x': [str(v) for v in rows[0]], 'y': [str(v) for v in rows[0]],
                   'rows': [[str(v) for v in p] for p in rows], 'sub': m,
                   'stacked': rng.random() < 0.6, 'ops': rng.choice([None, None, 'argmin']),
                   'reps': rng.choice([1, 1, 2])}

    @staticmethod
    def with_zeros(rng, comp):
        """`comp` with up to len - 2 entries set to zero, renormalised (at least two parts stay positive)."""
        idx = rng.sample(range(len(comp)), rng.randint(0, len(comp) - 2))
        xz = [Fraction(0) if i in idx else v for i, v in enumerate(comp)]
        tot = sum(xz)
        return [v / tot for v in xz]

    def rand_comp(self, rng, dim):
        style = rng.choice(['uniform', 'random', 'dyadic', 'wide', 'wide', 'tiny'])
        if style == 'tiny':
            # entries whose product underflows a double although every logarithm is finite
            w = [Fraction(10) ** rng.randint(-80, -50) * rng.randint(1, 9) for _ in range(dim)]
            w[rng.randrange(dim)] = Fraction(1)
            tot = sum(w)
            return [v / tot for v in w]
        if style == 'uniform':
            return [Fraction(1, dim)] * dim
        if style == 'dyadic':
            w = [Fraction(rng.randint(1, 8)) for _ in range(dim)]
        elif style == 'random':
            w = [Fraction(rng.randint(1, 10 ** 6)) for _ in range(dim)]
        else:
            w = [Fraction(10) ** rng.randint(-30, 0) * rng.randint(1, 9) for _ in range(dim)]
        tot = sum(w)
        return [v / tot for v in w]

    def shrink(self, case):
        return []

    # ------------------------------------------------------------------
    def run(self, case, drv):
        dit = import_dit()
        from dit.math import aitchison as A
        from dit.math import pmfops as P
        r = core.Result()
        kind = case['kind']
        r.site = 'dit.math.' + kind
        r.features = ['kind=%s' % kind]
        if kind == 'slots':
            from dit.math.combinatorics import slots
            got = sorted(tuple(int(v) for v in t) for t in slots(case['n'], case['k']))
            mo = sorted(tuple(t) for t in drv.call('slots', [case['n'], case['k']]))
            r.nontrivial = case['n'] >= 2 and case['k'] >= 2
            if got != mo:
                r.mismatch = 'slots(%d,%d): impl %s model %s' % (case['n'], case['k'], got[:6], mo[:6])
            want = math.comb(case['n'] + case['k'] - 1, case['k'] - 1)
            if len(set(got)) != len(got):
                r.oracle_fail = 'slots(%d,%d) repeats a composition' % (case['n'], case['k'])
            elif len(got) != want or any(sum(t) != case['n'] or len(t) != case['k'] or min(t) < 0 for t in got):
                r.oracle_fail = 'slots(%d,%d) is not the set of weak compositions (%d found, %d expected)' % (case['n'], case['k'], len(got), want)
            return r
        if kind == 'grid':
            k, m = case['length'], case['sub']
            pts = [tuple(p) for p in dit.simplex_grid(k, m, using=tuple)]
            r.nontrivial = k >= 2 and m >= 2
            nums = sorted(tuple(int(round(v * m)) for v in p) for p in pts)
            mo = sorted(tuple(t) for t in drv.call('slots', [m, k]))
            if nums != mo:
                r.mismatch = 'simplex_grid(%d,%d): impl %s model %s' % (k, m, nums[:6], mo[:6])
            want = math.comb(m + k - 1, k - 1)
            bad = [p for p in pts if abs(sum(p) - 1) > 1e-12 or min(p) < 0 or any(abs(v * m - round(v * m)) > 1e-9 for v in p)]
            if bad:
                r.oracle_fail = 'simplex_grid(%d,%d) yields a non-grid point %s' % (k, m, bad[0])
            elif len(set(nums)) != len(nums) or len(nums) != want:
                r.oracle_fail = 'simplex_grid(%d,%d) does not enumerate every grid point exactly once (%d points, %d distinct, %d expected)' % (k, m, len(nums), len(set(nums)), want)
            # distributions form
            if not r.oracle_fail:
                ds = list(dit.simplex_grid(k, m))
                if len(ds) != want or any(abs(float(np.sum(d.pmf)) - 1) > 1e-12 for d in ds):
                    r.oracle_fail = 'simplex_grid(%d,%d) with distributions: wrong count or unnormalised' % (k, m)
            # `using` a callable other than tuple: every grid point is handed to it once and its value is yielded
            if not r.oracle_fail:
                for nm, fn in (('list', list), ('numpy.array', np.array)):
                    objs = list(dit.simplex_grid(k, m, using=fn))
                    seq = sorted(tuple(int(round(float(v) * m)) for v in np.ravel(o)) for o in objs)
                    if (seq != nums or any(len(np.ravel(o)) != k for o in objs)
                            or any(abs(float(v) * m - round(float(v) * m)) > 1e-9 for o in objs for v in np.ravel(o))):
                        r.oracle_fail = ('simplex_grid(%d,%d, using=%s) does not enumerate every grid point exactly once '
                                         '(%d values yielded, %d expected)' % (k, m, nm, len(objs), want))
                        break
                r.features.append('using=tuple,list,array,default')
            # the points are values: what has been yielded (or handed to `using`) stays what it was while the
            # generator advances (only inplace=True is documented to reuse one object)
            if not r.oracle_fail:
                r.oracle_fail = self.grid_kept(dit, k, m, nums, want, r)
            # the in-place form, and two grids alive at the same time (all pairs of grid points)
            if not r.oracle_fail and want <= 40:
                seq = [tuple(int(round(v * m)) for v in d.pmf) for d in dit.simplex_grid(k, m, inplace=True)]
                if sorted(seq) != nums:
                    r.oracle_fail = 'simplex_grid(%d,%d, inplace=True) does not enumerate the grid' % (k, m)
                else:
                    pairs = []
                    for a_ in dit.simplex_grid(k, m, inplace=True):
                        for b_ in dit.simplex_grid(k, m, inplace=True):
                            pairs.append((tuple(int(round(v * m)) for v in a_.pmf), tuple(int(round(v * m)) for v in b_.pmf)))
                    if sorted(pairs) != sorted((a_, b_) for a_ in nums for b_ in nums):
                        r.oracle_fail = ('two simplex_grid(%d,%d, inplace=True) generators alive at once do not enumerate all '
                                         'pairs of grid points (%d pairs, %d distinct)' % (k, m, len(pairs), len(set(pairs))))
            return r

        # x0 / y0: the values of the case (reference for the model and the oracle, never handed to dit);
        # x / y: the array objects handed to dit -- the same objects in every evaluation of the case
        x0 = np.array([float(Fraction(v)) for v in case['x']])
        y0 = np.array([float(Fraction(v)) for v in case['y']])
        x, y = x0.copy(), y0.copy()
        dim = case['dim']
        reps = int(case.get('reps', 1))
        r.features += ['dim=%d' % dim, 'reps=%d' % reps]
        r.nontrivial = dim >= 3 and len(set(case['x'])) > 1
        state = {}
        if kind == 'convex':
            r.features += ['calls=%d' % (len(case.get('ws') or [0]) * reps), 'pmfs=%s' % case.get('form', 'ndarray'),
                           'weights=%s' % case.get('wform', 'ndarray')]
        if kind == 'near':
            r.features += ['about=%s' % case['about'], 'size=%s' % case['size']]
        if kind == 'stack':
            r.features += ['rows=%d' % len(case['rows']), 'powers=%d' % len(case['a']), 'subcomposition=%d of %d' % (len(case['idx']), dim)]
        if kind == 'proj':
            r.features += ['rows=%d' % (len(case['rows']) if case.get('stacked') else 1),
                           'arg=%s' % ('(k,n)' if case.get('stacked') else '(n,)'), 'ops=%s' % case.get('ops')]
        if kind == 'replace' and case.get('rows'):
            zc = [sum(1 for v in p if Fraction(v) == 0) for p in [case['x']] + case['rows']]
            r.features += ['replace:rows=%d' % len(zc), 'replace:zero-counts=%s' % ('equal' if len(set(zc)) == 1 else 'differ'),
                           'replace:a-row-without-zeros=%s' % (0 in zc)]
        if kind == 'perturb' and case.get('more'):
            more = case['more']
            r.features += ['perturb:%s' % f for f in (['prng=library'] if more.get('global') else [])
                           + (['jittered(zeros=False)'] if more.get('keepzeros') else [])
                           + (['rows=%d' % (1 + len(more['rows']))] if more.get('rows') else [])]
        for rep in range(reps):
            self.once(case, drv, r, dit, A, P, x, y, x0, y0, state)
            if r.bad():
                if rep:
                    note = 'evaluation #%d on the same array objects: ' % (rep + 1)
                    r.oracle_fail = r.oracle_fail and note + r.oracle_fail
                    r.mismatch = r.mismatch and note + r.mismatch
                break
        return r

    def once(self, case, drv, r, dit, A, P, x, y, x0, y0, state):
        kind = case['kind']
        dim = case['dim']

        def cmpf(name, got, args):
            mo = unfl(drv.call('aitchf', args))
            got = [float(v) for v in np.ravel(got)]
            if len(got) != len(mo):
                return '%s: length impl %d model %d' % (name, len(got), len(mo))
            for a, b in zip(got, mo):
                if not (abs(a - b) <= 1e-11 + 1e-9 * max(abs(a), abs(b))):
                    return '%s: impl %r model %r' % (name, got, mo)
            return None

        def simplex_fail(name, v, positive=True):
            v = np.asarray(v, dtype=float)
            if not np.all(np.isfinite(v)):
                return '%s is not finite: %s' % (name, v)
            if abs(v.sum() - 1) > 1e-9:
                return '%s sums to %r' % (name, v.sum())
            if (positive and np.any(v <= 0)) or np.any(v < 0):
                return '%s leaves the simplex: %s' % (name, v)
            return None

        if kind == 'roundtrip':
            for name, f, finv in (('clr', A.clr, A.clr_inv), ('alr', A.alr, A.alr_inv), ('ilr', A.ilr, A.ilr_inv)):
                t = f(x)
                back = finv(t)
                err = float(np.max(np.abs(back - x0) / x0))
                if not (err <= 1e-9):
                    r.oracle_fail = '%s_inv(%s(x)) differs from x by relative %g' % (name, name, err)
                    break
                r.mismatch = r.mismatch or cmpf(name, t, [name, fl(x0), []]) or cmpf(name + '_inv', back, [name + '_inv', fl(t), []])
            # other direction: arbitrary coordinate vector
            if not r.oracle_fail:
                rs = np.random.RandomState(case['seed'])
                v = rs.randn(dim - 1) * 3
                z = A.ilr_inv(v)
                r.oracle_fail = simplex_fail('ilr_inv(v)', z)
                if not r.oracle_fail and float(np.max(np.abs(A.ilr(z) - v))) > 1e-8:
                    r.oracle_fail = 'ilr(ilr_inv(v)) differs from v'
                if not r.oracle_fail and float(np.max(np.abs(A.alr(A.alr_inv(v)) - v))) > 1e-8:
                    r.oracle_fail = 'alr(alr_inv(v)) differs from v'
            r.detail = {'x': list(x0)}
            return
        if kind == 'ops':
            a = case['a']
            res = {'closure': A.closure(x * 3.7), 'perturbation': A.perturbation(x, y), 'power': A.power(x, a)}
            for name, v in res.items():
                r.oracle_fail = r.oracle_fail or simplex_fail(name, v)
            r.mismatch = (cmpf('closure', res['closure'], ['closure', fl(x0 * 3.7), []])
                          or cmpf('perturbation', res['perturbation'], ['perturbation', fl(x0), fl(y0)])
                          or cmpf('power', res['power'], ['power', fl(x0), fl([a])]))
            return
        if kind == 'isometry':
            d1 = float(A.dist(x, y))
            d2 = float(np.linalg.norm(A.ilr(x) - A.ilr(y)))
            ip = float(A.inner(x, y))
            ip2 = float(np.dot(A.ilr(x), A.ilr(y)))
            if not (abs(d1 - d2) <= 1e-9 * max(1.0, d1)):
                r.oracle_fail = 'Aitchison distance %r but Euclidean distance of ilr coordinates %r' % (d1, d2)
            elif not (abs(ip - ip2) <= 1e-8 * max(1.0, abs(ip))):
                r.oracle_fail = 'Aitchison inner product %r but dot product of ilr coordinates %r' % (ip, ip2)
            r.mismatch = (cmpf('dist', [d1], ['dist', fl(x0), fl(y0)]) or cmpf('inner', [ip], ['inner', fl(x0), fl(y0)])
                          or cmpf('norm', [float(A.norm(x))], ['norm', fl(x0), []]))
            return
        if kind == 'near':
            self.near(case, r, A, x, y, x0, y0, cmpf)
            return
        if kind == 'perturb':
            if int((x0 > 0).sum()) < 2:
                return
            rs = np.random.RandomState(case['seed'])
            out = P.perturb_support(x, eps=case['eps'], shape=case['shape'], prng=rs)
            r.oracle_fail = simplex_fail('perturb_support', out, positive=False)
            if not r.oracle_fail and not np.array_equal(out > 0, x0 > 0):
                r.oracle_fail = 'perturb_support changed the support: %s -> %s' % (x0, out)
            if not r.oracle_fail:
                rs = np.random.RandomState(case['seed'])
                j = P.jittered(x, jitter=1e-5, zeros=True, prng=rs)
                r.oracle_fail = simplex_fail('jittered', j)
            more = case.get('more')
            if more and not r.oracle_fail:
                self.perturb_more(case, more, r, dit, P, x, x0, simplex_fail)
            return
        if kind == 'stack':
            self.stack(case, r, A, state, cmpf, simplex_fail)
            return
        if kind == 'proj':
            self.proj(case, drv, r, P, state, simplex_fail)
            return
        if kind == 'replace':
            delta = case['delta']
            out = P.replace_zeros(x, delta, rand=False)
            nz = int((x0 == 0).sum())
            mo = [float(unq(v)) for v in drv.call('simplexq', ['replace_zeros', [q(Fraction(v)) for v in x0],
                                                               [q(Fraction(delta))] * nz])]
            if any(abs(a - b) > 1e-12 for a, b in zip(out, mo)):
                r.mismatch = 'replace_zeros: impl %s model %s' % (list(out), mo)
            r.oracle_fail = simplex_fail('replace_zeros', out)
            if not r.oracle_fail and any(abs(o - delta) > 1e-15 for o, v in zip(out, x0) if v == 0):
                r.oracle_fail = 'replace_zeros did not fill the zeros with delta'
            if not r.oracle_fail:
                rs = np.random.RandomState(case['seed'])
                out2 = P.replace_zeros(x, delta, rand=True, prng=rs)
                r.oracle_fail = simplex_fail('replace_zeros(rand)', out2, positive=nz == 0 or True)
            if case.get('rows') and not r.bad():
                self.replace_rows(case, drv, r, P, simplex_fail)
            return
        if kind == 'convex':
            # the component pmfs are built once per case and handed to every call of the sweep (and of every
            # repetition); the reference of every call is the exact mixture of the case's rationals
            pmq = [[Fraction(v) for v in p] for p in case['pmfs']]
            if 'pm' not in state:
                pm0 = np.array([[float(v) for v in p] for p in pmq])
                form = case.get('form', 'ndarray')
                state['pm'] = pm0 if form == 'ndarray' else pm0.tolist() if form == 'list' else [row.copy() for row in pm0]
                state['calls'] = 0
            pm = state['pm']
            for wj in (case.get('ws') or [case['w']]):
                if wj is None:
                    w = None
                else:
                    wf = [Fraction(v) for v in wj]
                    wform = case.get('wform', 'ndarray')
                    if wform == 'int' and all(v.denominator == 1 for v in wf):
                        w = np.array([int(v) for v in wf])
                    elif wform == 'list':
                        w = [float(v) for v in wf]
                    else:
                        w = np.array([float(v) for v in wf])
                state['calls'] += 1
                out = P.convex_combination(pm, w)
                wq = [q(Fraction(1))] * len(pmq) if wj is None else [q(Fraction(v)) for v in wj]
                mo = [float(unq(v)) for v in drv.call('simplexq', ['convex', [[q(v) for v in p] for p in pmq], wq])]
                which = 'convex_combination' if state['calls'] == 1 else \
                    'convex_combination (call #%d with the same component pmfs, weights %s)' % (state['calls'], wj)
                out = np.asarray(out, dtype=float)
                if out.shape != (dim,):
                    r.mismatch = '%s: shape %s' % (which, out.shape)
                    return
                if any(abs(a - b) > 1e-12 for a, b in zip(out, mo)):
                    r.mismatch = '%s: impl %s model %s' % (which, list(out), mo)
                r.oracle_fail = simplex_fail(which, out, positive=False)
                if r.bad():
                    return
            return
        if kind == 'downsample':
            m = case['sub']
            out = P.downsample(x, m)
            mo = [float(unq(v)) for v in drv.call('simplexq', ['downsample', m, [q(Fraction(v)) for v in x0]])]
            r.detail = {'x': list(x0), 'impl': list(out), 'model': mo}
            if any(abs(a - b) > 1e-9 for a, b in zip(out, mo)) and not self.near_tie(x0, m):
                r.mismatch = 'downsample: impl %s model %s' % (list(out), mo)
            r.oracle_fail = simplex_fail('downsample', out, positive=False)
            if not r.oracle_fail and any(abs(v * m - round(v * m)) > 1e-7 for v in out):
                r.oracle_fail = 'downsample(x, %d) = %s is not on the grid' % (m, list(out))
            return
        return

    # ------------------------------------------------------------------
    def grid_kept(self, dit, k, m, nums, want, r):
        """simplex_grid(k, m, using=f) for callables f that keep what they are handed instead of copying it
        (identity, numpy.asarray / asanyarray, a container around the argument, a recorder that stores the argument
        and returns its position), read in three ways: every item as soon as it is yielded (`stream`), every item
        after the next one has been yielded (`lagged`), all items after the generator is exhausted (`collect`).
        In each of them the items read are the grid `nums` (sorted integer numerators from using=tuple, already
        compared with the definition), each point exactly once.  The same for the distributions of the default form
        and of using=<a distribution> with inplace=False, which are documented to be objects of their own.
        Returns a message or None."""
        def read(o):
            v = [float(t) for t in np.ravel(np.asarray(o, dtype=float))]
            if len(v) != k or any(abs(t * m - round(t * m)) > 1e-9 for t in v):
                return ('not a grid point', tuple(v))
            return tuple(int(round(t * m)) for t in v)

        def judge(name, mode, seq):
            bad = [p for p in seq if p and p[0] == 'not a grid point']
            if bad:
                return 'simplex_grid(%d,%d, using=%s), items read %s: %s is not a grid point' % (k, m, name, mode, bad[0][1])
            if sorted(seq) != nums:
                return ('simplex_grid(%d,%d, using=%s), items read %s, does not enumerate every grid point exactly once '
                        '(%d items, %d distinct points, %d expected; first items %s)'
                        % (k, m, name, mode, len(seq), len(set(seq)), want, seq[:3]))
            return None

        store = []

        def recorder(p):
            store.append(p)
            return len(store) - 1

        keepers = [('identity', lambda p: p, lambda o: o), ('numpy.asarray', np.asarray, lambda o: o),
                   ('numpy.asanyarray', np.asanyarray, lambda o: o),
                   ('a container holding the argument', lambda p: [p], lambda o: o[0]),
                   ('a recorder of the arguments', recorder, lambda o: store[o])]
        r.features.append('using=callables that keep their argument;read=stream,lagged,collect')
        for name, fn, arg_of in keepers:
            for mode in ('as they are yielded', 'one step behind the generator', 'after the generator is exhausted'):
                del store[:]
                seq, prev = [], None
                g = dit.simplex_grid(k, m, using=fn)
                if mode == 'after the generator is exhausted':
                    seq = [read(arg_of(o)) for o in list(g)]
                elif mode == 'as they are yielded':
                    for o in g:
                        seq.append(read(arg_of(o)))
                else:
                    for o in g:
                        if prev is not None:
                            seq.append(read(arg_of(prev[0])))
                        prev = (o,)
                    if prev is not None:
                        seq.append(read(arg_of(prev[0])))
                f = judge(name, mode, seq)
                if f:
                    return f
        # distributions with inplace=False: objects of their own, to be stored and read later
        tmpl = dit.random_scalar_distribution(k)
        before = [float(v) for v in tmpl.pmf]
        for name, kw in (('None', {}), ('a distribution', {'using': tmpl})):
            for mode in ('one step behind the generator', 'after the generator is exhausted'):
                seq, prev = [], None
                g = dit.simplex_grid(k, m, inplace=False, **kw)
                if mode == 'after the generator is exhausted':
                    seq = [read(d.pmf) for d in list(g)]
                else:
                    for d in g:
                        if prev is not None:
                            seq.append(read(prev.pmf))
                        prev = d
                    seq.append(read(prev.pmf))
                f = judge(name + ', inplace=False', mode, seq)
                if f:
                    return f
        if [float(v) for v in tmpl.pmf] != before:
            return ('simplex_grid(%d,%d, using=d, inplace=False) changed the pmf of d from %s to %s'
                    % (k, m, before, [float(v) for v in tmpl.pmf]))
        r.features.append('using=distribution,inplace=False;read=lagged,collect')
        return None

    def replace_rows(self, case, drv, r, P, simplex_fail):
        """replace_zeros on a (k, n) argument whose rows have different numbers of zeros (none included), and on each
        row alone: every row normalised and positive, its zeros filled (with delta, or with values in (0, delta] when
        rand=True), its positive entries all scaled by one factor.  (Used to fail: every row was rescaled by the
        replacement total of all rows; repaired in dit.)"""
        delta = case['delta']
        X0 = np.array([[float(Fraction(v)) for v in case['x']]] + [[float(Fraction(v)) for v in p] for p in case['rows']])
        k = len(X0)

        def row_fail(name, out, ref, rand):
            f = simplex_fail(name, out)
            if f:
                return f
            z = ref == 0
            if rand and not np.all((out[z] > 0) & (out[z] <= delta)):
                return '%s fills the zeros of %s with %s, not with values in (0, %r]' % (name, list(ref), list(out[z]), delta)
            if not rand and np.any(np.abs(out[z] - delta) > 1e-15):
                return '%s fills the zeros of %s with %s, not with %r' % (name, list(ref), list(out[z]), delta)
            ratio = out[~z] / ref[~z]
            if not np.all(np.abs(ratio - ratio[0]) <= 1e-12 * ratio[0]):
                return '%s changes the ratios of the positive entries of %s: %s' % (name, list(ref), list(out))
            return None

        for rand in (False, True):
            how = 'replace_zeros(%s, rand=%s)' % ('%d pmfs as rows' % k, rand)
            X = X0.copy()
            out = np.asarray(P.replace_zeros(X, delta, rand=rand, prng=np.random.RandomState(case['seed'])), dtype=float)
            if out.shape != X0.shape:
                r.mismatch = '%s has shape %s' % (how, out.shape)
                return
            for i in range(k):
                r.oracle_fail = row_fail('%s, row %d' % (how, i), out[i], X0[i], rand)
                if r.oracle_fail:
                    r.detail = {'pmfs': X0.tolist(), 'delta': delta, 'result': out.tolist()}
                    return
                if not rand:
                    nz = int((X0[i] == 0).sum())
                    mo = [float(unq(v)) for v in drv.call('simplexq', ['replace_zeros', [q(Fraction(v)) for v in X0[i]],
                                                                       [q(Fraction(delta))] * nz])]
                    if any(abs(a - b) > 1e-12 for a, b in zip(out[i], mo)):
                        r.mismatch = '%s, row %d: impl %s model %s' % (how, i, list(out[i]), mo)
                # the row alone
                one = np.asarray(P.replace_zeros(X0[i].copy(), delta, rand=rand, prng=np.random.RandomState(case['seed'])), dtype=float)
                r.oracle_fail = row_fail('replace_zeros(x, rand=%s)' % rand, one, X0[i], rand)
                if r.oracle_fail:
                    return

    def perturb_more(self, case, more, r, dit, P, x, x0, simplex_fail):
        """The same clauses (normalised, non-negative, support preserved / zeros filled) on further legal forms of
        the calls: the library's own generator (prng omitted), jitter that keeps the zeros, (k, n) arguments whose
        rows have supports of their own, and ball(n, size), the neighbourhood perturb_support draws from.

        (replace_zeros on a (k, n) argument is judged in `replace_rows`.)"""
        eps, shape, seed = case['eps'], case['shape'], case['seed']

        def support_fail(name, out, ref):
            out = np.asarray(out, dtype=float)
            if out.shape != ref.shape:
                return '%s has shape %s for an argument of shape %s' % (name, out.shape, ref.shape)
            for i, (o, v) in enumerate(zip(np.atleast_2d(out), np.atleast_2d(ref))):
                nm = name if out.ndim == 1 else '%s, row %d' % (name, i)
                f = simplex_fail(nm, o, positive=False)
                if f:
                    return f
                if not np.array_equal(o > 0, v > 0):
                    return '%s changed the support: %s -> %s' % (nm, v, o)
            return None

        def filled_fail(name, out, ref):
            out = np.asarray(out, dtype=float)
            if out.shape != ref.shape:
                return '%s has shape %s for an argument of shape %s' % (name, out.shape, ref.shape)
            for i, o in enumerate(np.atleast_2d(out)):
                f = simplex_fail(name if out.ndim == 1 else '%s, row %d' % (name, i), o)
                if f:
                    return f
            return None

        if more.get('global'):
            # prng omitted: dit.math.prng, put into a known state first so that the case replays
            dit.math.prng.seed(seed)
            r.oracle_fail = (support_fail('perturb_support (library generator)', P.perturb_support(x, eps=eps, shape=shape), x0)
                             or support_fail('perturb_support (all defaults)', P.perturb_support(x), x0)
                             or filled_fail('jittered (all defaults)', P.jittered(x), x0))
            if r.oracle_fail:
                return
            b = np.asarray(dit.math.ball(more['ball'][0]))
            if b.shape != (more['ball'][0],) or not np.all(np.isfinite(b)) or float(np.linalg.norm(b)) > 1 + 1e-12:
                r.oracle_fail = 'ball(%d) (library generator) is not a point of the unit ball: %s' % (more['ball'][0], b)
                return
        rs = np.random.RandomState(seed)
        nb, sz = more['ball']
        b = np.asarray(dit.math.ball(nb, size=sz, prng=rs))
        if b.shape != (sz, nb):
            r.oracle_fail = 'ball(%d, size=%d) has shape %s' % (nb, sz, b.shape)
            return
        if not np.all(np.isfinite(b)) or float(np.max(np.linalg.norm(b, axis=1))) > 1 + 1e-12:
            r.oracle_fail = 'ball(%d, size=%d) leaves the unit ball: norms %s' % (nb, sz, np.linalg.norm(b, axis=1))
            return
        if more.get('keepzeros'):
            j = P.jittered(x, jitter=more['jitter'], zeros=False, prng=rs)
            r.oracle_fail = support_fail('jittered(zeros=False)', j, x0)
            if r.oracle_fail:
                return
        if more.get('rows'):
            X0 = np.array([[float(Fraction(v)) for v in case['x']]] + [[float(Fraction(v)) for v in p] for p in more['rows']])
            X = X0.copy()
            r.oracle_fail = (support_fail('perturb_support of (k, n) pmfs', P.perturb_support(X, eps=eps, shape=shape, prng=rs), X0)
                             or filled_fail('jittered of (k, n) pmfs', P.jittered(X, jitter=more['jitter'], zeros=True, prng=rs), X0)
                             or support_fail('jittered(zeros=False) of (k, n) pmfs',
                                             P.jittered(X, jitter=more['jitter'], zeros=False, prng=rs), X0))

    def stack(self, case, r, A, state, cmpf, simplex_fail):
        """k compositions as the rows of one (k, n) argument: every clause of the statement row by row, every
        value against the model evaluated on that row."""
        if 'X' not in state:
            state['X0'] = np.array([[float(Fraction(v)) for v in p] for p in case['rows']])
            state['Y0'] = np.array([[float(Fraction(v)) for v in p] for p in case['rows2']])
            state['X'], state['Y'] = state['X0'].copy(), state['Y0'].copy()
        X0, Y0, X, Y = state['X0'], state['Y0'], state['X'], state['Y']
        k, dim = X0.shape

        def rows_cmp(name, got, shape, args_of):
            got = np.asarray(got, dtype=float)
            if got.shape != shape:
                return '%s of a %s argument has shape %s' % (name, X0.shape, got.shape)
            for i in range(k):
                m = cmpf('%s, row %d of %d' % (name, i, k), got[i], args_of(i))
                if m:
                    return m
            return None

        # transforms and inverses
        for name, f, finv, w in (('clr', A.clr, A.clr_inv, dim), ('alr', A.alr, A.alr_inv, dim - 1), ('ilr', A.ilr, A.ilr_inv, dim - 1)):
            t = f(X)
            if np.shape(t) != (k, w):
                r.mismatch = '%s of a %s argument has shape %s' % (name, X0.shape, np.shape(t))
                return
            back = finv(t)
            if np.shape(back) != (k, dim):
                r.mismatch = '%s_inv of a %s argument has shape %s' % (name, np.shape(t), np.shape(back))
                return
            err = np.max(np.abs(back - X0) / X0, axis=1)
            if not np.all(err <= 1e-9):
                i = int(np.argmax(~(err <= 1e-9)))
                r.oracle_fail = ('%s_inv(%s(X)) for X of shape %s differs from X in row %d by relative %g'
                                 % (name, name, X0.shape, i, err[i]))
                return
            r.mismatch = r.mismatch or (rows_cmp(name, t, (k, w), lambda i: [name, fl(X0[i]), []])
                                        or rows_cmp(name + '_inv', back, (k, dim), lambda i: [name + '_inv', fl(t[i]), []]))
        # arbitrary coordinate rows
        rs = np.random.RandomState(case['seed'])
        V = rs.randn(k, dim - 1) * 3
        Z = A.ilr_inv(V)
        if np.shape(Z) != (k, dim):
            r.mismatch = 'ilr_inv of a %s argument has shape %s' % (V.shape, np.shape(Z))
            return
        for i in range(k):
            r.oracle_fail = r.oracle_fail or simplex_fail('ilr_inv(V), row %d' % i, Z[i])
        if r.oracle_fail:
            return
        if float(np.max(np.abs(A.ilr(Z) - V))) > 1e-8:
            r.oracle_fail = 'ilr(ilr_inv(V)) differs from V of shape %s' % (V.shape,)
            return
        if float(np.max(np.abs(A.alr(A.alr_inv(V)) - V))) > 1e-8:
            r.oracle_fail = 'alr(alr_inv(V)) differs from V of shape %s' % (V.shape,)
            return
        # closure / perturbation / power / subcomposition
        a = case['a']
        idx = [int(i) for i in case['idx']]
        res = [('closure', A.closure(X * 3.7), dim, lambda i: ['closure', fl(X0[i] * 3.7), []]),
               ('perturbation', A.perturbation(X, Y), dim, lambda i: ['perturbation', fl(X0[i]), fl(Y0[i])]),
               ('power', A.power(X, np.array(a) if len(a) > 1 else a[0]), dim,
                lambda i: ['power', fl(X0[i]), fl([a[i] if len(a) > 1 else a[0]])]),
               ('subcomposition', A.subcomposition(X, idx), len(idx), lambda i: ['closure', fl(X0[i][idx]), []])]
        one = A.subcomposition(X[0], idx)
        if np.shape(one) != (len(idx),):
            r.mismatch = 'subcomposition of one composition over %d indexes has shape %s' % (len(idx), np.shape(one))
            return
        r.oracle_fail = simplex_fail('subcomposition(x, %s)' % idx, one)
        r.mismatch = r.mismatch or cmpf('subcomposition', one, ['closure', fl(X0[0][idx]), []])
        for name, v, w, args_of in res:
            if np.shape(v) != (k, w):
                r.mismatch = '%s of a %s argument has shape %s' % (name, X0.shape, np.shape(v))
                return
            for i in range(k):
                r.oracle_fail = r.oracle_fail or simplex_fail('%s, row %d of %d' % (name, i, k), v[i])
            r.mismatch = r.mismatch or rows_cmp(name, v, (k, w), args_of)
        if r.oracle_fail:
            return
        # isometry, row by row
        ix, iy = A.ilr(X), A.ilr(Y)
        d1 = np.asarray(A.dist(X, Y), dtype=float)
        ip = np.asarray(A.inner(X, Y), dtype=float)
        nx = np.asarray(A.norm(X), dtype=float)
        for name, v in (('dist', d1), ('inner', ip), ('norm', nx)):
            if v.shape != (k,):
                r.mismatch = '%s of %s arguments has shape %s' % (name, X0.shape, v.shape)
                return
        d2 = np.linalg.norm(ix - iy, axis=1)
        ip2 = np.sum(ix * iy, axis=1)
        for i in range(k):
            if not (abs(d1[i] - d2[i]) <= 1e-9 * max(1.0, d1[i])):
                r.oracle_fail = ('row %d of %d: Aitchison distance %r but Euclidean distance of ilr coordinates %r'
                                 % (i, k, float(d1[i]), float(d2[i])))
                return
            if not (abs(ip[i] - ip2[i]) <= 1e-8 * max(1.0, abs(ip[i]))):
                r.oracle_fail = ('row %d of %d: Aitchison inner product %r but dot product of ilr coordinates %r'
                                 % (i, k, float(ip[i]), float(ip2[i])))
                return
        r.mismatch = r.mismatch or (rows_cmp('dist', d1[:, None], (k, 1), lambda i: ['dist', fl(X0[i]), fl(Y0[i])])
                                    or rows_cmp('inner', ip[:, None], (k, 1), lambda i: ['inner', fl(X0[i]), fl(Y0[i])])
                                    or rows_cmp('norm', nx[:, None], (k, 1), lambda i: ['norm', fl(X0[i]), []]))
        r.detail = {'X': X0.tolist(), 'Y': Y0.tolist()}

    def proj(self, case, drv, r, P, state, simplex_fail):
        """projections(pmf, m): the pmf itself, then the pmf after each component has been moved to its nearest
        grid value, the last one being the grid point downsample(pmf, m) returns; every one of them a normalised
        non-negative vector.  (n,) and (k, n) arguments.  `ops` other than np.argmin (the farther vertex of a cell)
        is outside the statement -- it does not ask for the nearest grid point -- and is not generated."""
        m = case['sub']
        if 'X' not in state:
            state['X0'] = np.array([[float(Fraction(v)) for v in p] for p in case['rows']])
            state['arg'] = state['X0'].copy() if case.get('stacked') else state['X0'][0].copy()
        X0, arg = state['X0'], state['arg']
        if not case.get('stacked'):
            X0 = X0[:1]
        k, dim = X0.shape
        with np.errstate(all='ignore'):
            pr = np.asarray(P.projections(arg, m) if case.get('ops') is None
                            else P.projections(arg, m, [np.argmin] * (dim - 1)), dtype=float)
            ds = np.asarray(P.downsample(arg, m), dtype=float)
        if pr.shape != ((dim, k, dim) if case.get('stacked') else (dim, dim)):
            r.mismatch = 'projections of a pmf of shape %s has shape %s' % (arg.shape, pr.shape)
            return
        if ds.shape != arg.shape:
            r.mismatch = 'downsample of a pmf of shape %s has shape %s' % (arg.shape, ds.shape)
            return
        if not case.get('stacked'):
            pr, ds = pr[:, None, :], ds[None, :]
        for i in range(k):
            row = 'row %d of %d: ' % (i, k) if case.get('stacked') else ''
            out = ds[i]
            mo = [float(unq(v)) for v in drv.call('simplexq', ['downsample', m, [q(Fraction(v)) for v in X0[i]]])]
            if any(abs(a - b) > 1e-9 for a, b in zip(out, mo)) and not self.near_tie(X0[i], m):
                r.mismatch = r.mismatch or '%sdownsample: impl %s model %s' % (row, list(out), mo)
            r.oracle_fail = simplex_fail(row + 'downsample', out, positive=False)
            if not r.oracle_fail and any(abs(v * m - round(v * m)) > 1e-7 for v in out):
                r.oracle_fail = '%sdownsample(x, %d) = %s is not on the grid' % (row, m, list(out))
            if not r.oracle_fail and not np.array_equal(pr[0, i], X0[i]):
                r.oracle_fail = '%sprojections(x, %d)[0] = %s is not the pmf %s' % (row, m, list(pr[0, i]), list(X0[i]))
            for t in range(1, dim):
                if r.oracle_fail:
                    break
                r.oracle_fail = simplex_fail('%sprojections(x, %d)[%d]' % (row, m, t), pr[t, i], positive=False)
                if not r.oracle_fail and any(abs(v * m - round(v * m)) > 1e-7 for v in pr[t, i][:t]):
                    r.oracle_fail = ('%sprojections(x, %d)[%d] = %s: its first %d components are not all on the grid'
                                     % (row, m, t, list(pr[t, i]), t))
            if not r.oracle_fail and float(np.max(np.abs(pr[-1, i] - out))) > 1e-12:
                r.oracle_fail = ('%sthe last of projections(x, %d) is %s but downsample(x, %d) is %s'
                                 % (row, m, list(pr[-1, i]), m, list(out)))
            if r.oracle_fail:
                r.detail = {'x': list(X0[i]), 'sub': m, 'projections': pr[:, i].tolist(), 'downsample': list(out)}
                return

    # ------------------------------------------------------------------
    EPS = 2.0 ** -52

    @staticmethod
    def aitchison_ref(xs, ys):
        """Aitchison distance, norms and inner product of the doubles xs, ys from the definition (Euclidean
        geometry of the centred base-2 logarithms), in 60-digit decimal arithmetic."""
        getcontext().prec = 60
        ln2 = Decimal(2).ln()

        def clog(v):
            fr = [Fraction(float(t)) for t in v]
            ls = [(Decimal(f.numerator).ln() - Decimal(f.denominator).ln()) / ln2 for f in fr]
            m = sum(ls) / len(ls)
            return [t - m for t in ls]

        cx, cy = clog(xs), clog(ys)
        return {'dist': float(sum((a - b) ** 2 for a, b in zip(cx, cy)).sqrt()),
                'inner': float(sum(a * b for a, b in zip(cx, cy))),
                'nx': float(sum(a * a for a in cx).sqrt()), 'ny': float(sum(b * b for b in cy).sqrt())}

    def near(self, case, r, A, x, y, x0, y0, cmpf):
        """ilr is an isometry for the Aitchison distance -- on neighbouring compositions, where the distance is
        small compared with the logarithms it is made of, so the comparison has to be relative to the distance
        and not to 1.  Both sides are Euclidean norms of D differences of centred logarithms; with
        u = eps (1 + max |log2 entry|) bounding the round-off of one centred logarithm, each side carries an
        absolute error of a few u sqrt(D)."""
        D = len(x0)
        L = float(max(np.max(np.abs(np.log2(x0))), np.max(np.abs(np.log2(y0)))))
        u = self.EPS * (1.0 + L)
        ref = self.aitchison_ref(x0, y0)

        def tol_d(*ds):
            return 1e-9 * max(ds) + 32 * u * math.sqrt(D)

        def fail(what, got, other, how):
            return ('%s = %r but %s = %r (definition, 60 digits: %r; allowed difference %.3g)'
                    % (what, got, how, other, ref_of[what.split('(')[0]], tol_d(got, other)))

        ref_of = {'dist': ref['dist'], 'metric': ref['dist'], 'norm': ref['nx']}
        ix, iy = A.ilr(x), A.ilr(y)
        d2 = float(np.linalg.norm(ix - iy))
        checks = [('dist(x, y)', float(A.dist(x, y))), ('dist(y, x)', float(A.dist(y, x))),
                  ('metric(x, y)', float(A.metric(x, y)))]
        # the same pair as rows of stacked (k, n) arguments
        st = np.ravel(A.dist(np.array([x0, y0, x0]), np.array([y0, x0, y0])))
        if st.shape != (3,):
            r.mismatch = 'dist of stacked (3, n) arguments has shape %s' % (st.shape,)
            return
        checks += [('dist(rows)[%d]' % i, float(v)) for i, v in enumerate(st)]
        for what, d1 in checks:
            if not (abs(d1 - d2) <= tol_d(d1, d2)):
                r.oracle_fail = fail(what, d1, d2, '||ilr(x) - ilr(y)||')
                return
        # norms, with the composition itself and through the aliased inner product norm() is made of
        for nm, v, iv, nref in (('x', x, ix, ref['nx']), ('y', y, iy, ref['ny'])):
            n1 = float(A.norm(v))
            n2 = float(np.linalg.norm(iv))
            ref_of['norm'] = nref
            if not (abs(n1 - n2) <= tol_d(n1, n2)):
                r.oracle_fail = fail('norm(%s)' % nm, n1, n2, '||ilr(%s)||' % nm)
                return
            s1 = float(A.inner(v, v))
            s2 = float(np.dot(iv, iv))
            tol = 1e-9 * abs(s2) + 32 * u * math.sqrt(D) * (2 * n2 + u)
            if not (abs(s1 - s2) <= tol):
                r.oracle_fail = ('inner(%s, %s) (one object) = %r but <ilr(%s), ilr(%s)> = %r (definition: %r; allowed '
                                 'difference %.3g)' % (nm, nm, s1, nm, nm, s2, nref ** 2, tol))
                return
        ip = float(A.inner(x, y))
        ip2 = float(np.dot(ix, iy))
        tol = 1e-9 * abs(ip2) + 32 * u * math.sqrt(D) * (ref['nx'] + ref['ny'] + u)
        if not (abs(ip - ip2) <= tol):
            r.oracle_fail = ('inner(x, y) = %r but <ilr(x), ilr(y)> = %r (definition: %r; allowed difference %.3g)'
                             % (ip, ip2, ref['inner'], tol))
            return
        # correspondence: the code's distance against the definition, and against the model in Float
        d1 = checks[0][1]
        if not (abs(d1 - ref['dist']) <= tol_d(d1, ref['dist'])):
            r.mismatch = 'dist: impl %r, definition evaluated with 60 digits %r' % (d1, ref['dist'])
        r.mismatch = r.mismatch or (cmpf('dist', [d1], ['dist', fl(x0), fl(y0)])
                                    or cmpf('norm', [float(A.norm(x))], ['norm', fl(x0), []]))
        r.detail = {'x': list(x0), 'y': list(y0), 'dist': d1, 'ilr': d2, 'definition': ref['dist']}

    @staticmethod
    def near_tie(x, m):
        """Is some intermediate value within 1e-9 of the midpoint between two grid values? Then
        float and exact arithmetic may legitimately snap differently."""
        # conservative: replay the float algorithm and look at distances
        v = np.array(x, dtype=float).copy()
        prev = 0.0
        for i in range(len(v) - 1):
            p = v[i]
            k = math.floor(p * m + 1e-12)
            dl, du = p - k / m, (k + 1) / m - p
            if abs(dl - du) < 1e-9 or abs(dl) < 1e-12 or abs(du) < 1e-12:
                return True
            s = k / m if dl <= du else (k + 1) / m
            prev += s
            rest = v[i + 1:].sum()
            if rest > 0 and 1 - prev > 0:
                v[i + 1:] *= (1 - prev) / rest
            else:
                v[i + 1:] = 0
        return False


PROP = C20()
