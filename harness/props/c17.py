"""
C17 — Partial information decompositions consistently split I(sources:target).
"""
import itertools
import math
from fractions import Fraction

import numpy as np

import core
import gen
from canon import f2bits, bits2f
from driver import q, unq
from env import import_dit

ALWAYS = ['PID_WB', 'PID_MMI', 'PID_GK', 'PID_CCS', 'PID_PM', 'PID_RAV', 'PID_RDR', 'PID_GH']   # defined on every antichain
FAST3 = ['PID_WB', 'PID_MMI', 'PID_GK', 'PID_CCS', 'PID_PM', 'PID_RDR']          # fast enough for three sources
NOT_EQUIVARIANT_BY_DESIGN = []
TWO_ONLY = ['PID_RAV', 'PID_GH', 'PID_MES', 'PID_RR', 'PID_CT', 'PID_IG', 'PID_Proj', 'PID_BROJA', 'PID_dep', 'PID_RA']


class C17(object):
    id = 'C17'
    rule = ("distributions over 2 or 3 sources and a target (random, sparse supports, canonical gates; binary / ternary "
            "variables; sources/target explicit, defaulted, or addressed by name), every implemented PID class that runs "
            "here (8 always; the optimisation-based ones in the thorough tier): node set and order of pid._lattice vs the "
            "model's lattice, get_red / get_pi of every node vs Moebius inversion of the reds in exact arithmetic, the "
            "flags consistent / complete / nonnegative vs the model's predicates on those numbers, totals, equivariance "
            "under every permutation of the sources, closed forms of I_min / I_mmi / I_wedge (I_wedge: mutual information "
            "of the connected components of 'agree on some source' with the target, from the definition and from the "
            "model's meetClasses). Two further streams: (seq) the distribution object was decomposed before with other "
            "probabilities and then changed in place (item assignment, writes into / rebinding of pmf, integer weights + "
            "normalize) -- everything above is then checked on the second decomposition of that same object; (wide) sources "
            "with 4..20 symbols (up to 14 for I_wedge, whose cost on the real code is exponential in the alphabet) that "
            "share symbol values, structured sparse supports (relabellings, shifts, coarsenings, blocks of a base variable "
            "plus a few stray outcomes); (infer) three sources on sparse / functionally structured supports and three-source "
            "gates with the incomplete classes PID_RR / PID_CT (closed-form bivariate measures) and, on a few gates, PID_BROJA, "
            "so that the inference rules of BaseIncompletePID run (everything above a redundancy equal to the total, nodes "
            "sandwiched between equal redundancies, redundancies taken from the decomposition over the node's own sources, "
            "the last undetermined atom when all the others were pre-assessed): judged by the clauses above plus "
            "equivariance under one drawn permutation of the sources. On every case whose decomposition can be re-read "
            "cheaply: pid[node] vs get_pi(node), the printed table (str / repr under repr.print) vs get_red / get_pi of "
            "every node, the lattice's own order relation vs the model's order, and pid == / != another decomposition of "
            "the same sources vs the atoms (and redundancies) read from both. "
            "Non-trivial = 3 sources or >= 4 positive outcomes")
    tolerances = {'permutation equivariance': '1e-6 for closed-form measures, 5e-4 for measures with an optimiser inside (CCS, RAV, GH)', 'identities': 'atol 1e-6 (dit uses isclose(atol=1e-5, rtol=1e-5) for its flags; values within 1e-6..1e-4 of a flag threshold are not judged)',
                  'closed forms': 'atol 1e-9',
                  'printed table': '4 decimals: |shown - value| <= 5.1e-5, or shown 0 when |value| <= 1.002e-3 (to_string clamps values within 1e-3 of 0)',
                  '== / !=': 'expected from the numbers read (dit: isclose(atol=1e-5, rtol=1e-5) on every atom, and every redundancy for incomplete classes); not judged when some difference lies within a factor 10 of that threshold or a value is undetermined'}
    exhaustive = {}
    case_timeout = 25     # seconds; some measures run numerical optimisers
    trusted_extra = ["the redundancy lattice comes from the /verif/pyshim lattices shim (free_distributive_lattice); its node set and order are compared with the Lean model on every case",
                     "PID_dep / PID_RA / PID_Prec need lattices.dependency_lattice-based optimisation and are not covered"]

    def gen(self, rng, tier):
        n_cases = 60 if tier == 'quick' else 900
        gates = {'xor': ['000', '011', '101', '110'], 'and': ['000', '010', '100', '111'],
                 'rdn': ['000', '111'], 'unq': ['000', '011', '102', '113'], 'copy': ['000', '011', '102', '113'],
                 'xor3': ['0000', '0011', '0101', '0110', '1001', '1010', '1100', '1111'],
                 # cascades X1 -> X0 -> T and T = X0 with X1 a noisy copy (one source has the only direct path)
                 'cascade': ['000', '010', '111', '101'], 'cascade2': ['000', '100', '111', '011'],
                 'cascade3': ['000', '001', '010', '011', '100', '101', '110', '111'],
                 # target = concatenation of three bits
                 'cat3': ['0000', '0011', '0102', '0113', '1004', '1015', '1106', '1117']}
        for i in range(n_cases):
            ns = rng.choice([2, 2, 3]) if i % 10 != 7 else 3
            style = rng.choice(['random', 'random', 'sparse', 'gate'])
            if i % 10 == 3:
                style = 'gate'
            if style == 'gate':
                name = rng.choice(sorted(gates))
                if i % 10 == 3:
                    name = ['cascade', 'cascade3', 'cat3', 'cascade2'][(i // 10) % 4]
                outs = [[int(ch) for ch in o] for o in gates[name]]
                ns = len(outs[0]) - 1
                pmf = [Fraction(1, len(outs))] * len(outs)
                if rng.random() < 0.5:
                    pv, _ = gen.rand_prob_vector(rng, len(outs), 'small')
                    if all(p > 0 for p in pv):
                        pmf = pv
            else:
                alph = [list(range(rng.choice([2, 2, 3]))) for _ in range(ns + 1)]
                full = [list(o) for o in itertools.product(*alph)]
                k = len(full) if style == 'random' else rng.randint(2, max(2, len(full) // 2))
                k = min(k, 12)
                outs = rng.sample(full, k)
                pv, _ = gen.rand_prob_vector(rng, k, rng.choice(['small', 'uneven', 'dyadic']))
                outs = [o for o, p in zip(outs, pv) if p > 0]
                pmf = [p for p in pv if p > 0]
            classes = list(FAST3)
            if ns == 2:
                classes += TWO_ONLY if (tier == 'thorough' or rng.random() < 0.5) else ['PID_RAV', 'PID_RR', 'PID_CT', 'PID_IG']
            if ns == 3 and rng.random() < 0.25:
                classes = ['PID_CT', 'PID_Proj']       # incomplete decompositions on three sources
            if style == 'gate' and name.startswith('cascade'):
                # unequal weights so that the noisy link is really noisy
                pmf = [Fraction(3, 8), Fraction(1, 8), Fraction(3, 8), Fraction(1, 8)]
                if name == 'cascade3':
                    # X1 -> X0 -> T with noisy links: p = 1/2 * (9/10 if x0 = x1 else 1/10) * (4/5 if t = x0 else 1/5)
                    pmf = [Fraction(1, 2) * (Fraction(9, 10) if o[0] == o[1] else Fraction(1, 10))
                           * (Fraction(4, 5) if o[2] == o[0] else Fraction(1, 5)) for o in outs]
                classes = ['PID_CT', 'PID_CT', 'PID_CT', 'PID_WB', 'PID_MMI', 'PID_RR', 'PID_IG', 'PID_MES']
            if style == 'gate' and name == 'cat3':
                classes = ['PID_CT', 'PID_CT', 'PID_Proj', 'PID_WB']
            if i % 10 == 7 and ns == 3 and style != 'gate':
                classes = [['PID_MMI', 'PID_WB', 'PID_GK', 'PID_PM'][(i // 10) % 4]]     # closed forms on three sources, every run
            c = {'outs': outs, 'pmf': [str(p) for p in pmf], 'ns': ns, 'cls': rng.choice(classes),
                 'addr': rng.choice(['default', 'explicit', 'names', 'names-default']),
                 'dense': rng.random() < 0.3, 'style': style, 'tw': 1, 'pre': None}
            r_ = rng.random()
            if r_ < 0.15 and ns == 2 and style != 'gate':
                # composite target: two sources and a two-variable target, sources defaulted
                extra = [rng.randrange(2) for _ in c['outs']]
                c['outs'] = [o + [e] for o, e in zip(c['outs'], extra)]
                c['tw'] = 2
                c['addr'] = rng.choice(['default-sources', 'names-default-sources'])
                c['cls'] = rng.choice(FAST3)
            elif r_ < 0.35:
                # force three sources: T = f(X0, X1, X2) with small alphabets
                if ns != 3 or style == 'gate':
                    import itertools as _it
                    full = [list(o) for o in _it.product(range(2), repeat=3)]
                    outs3 = [o + [sum(o) if rng.random() < 0.5 else (o[0] ^ o[1]) + o[2]] for o in full]
                    pv, _ = gen.rand_prob_vector(rng, len(outs3), rng.choice(['small', 'uneven']))
                    if rng.random() < 0.5 or any(p == 0 for p in pv):
                        pv = [Fraction(1, len(outs3))] * len(outs3)
                    c.update({'outs': outs3, 'pmf': [str(p) for p in pv], 'ns': 3, 'style': 'sum-gate'})
                # an incomplete decomposition with a pre-assessed atom (possibly contradicting the measure)
                c['cls'] = rng.choice(['PID_CT', 'PID_Proj'])
                c['addr'] = 'default'
                c['pre'] = [rng.choice([[[0]], [[1]], [[0], [1]]]), rng.choice([0.0, 0.05, 0.3])]
            elif r_ < 0.43 and c['cls'] in ('PID_WB', 'PID_MMI', 'PID_GK', 'PID_PM') and c['addr'] == 'default':
                # a complete decomposition with a pre-assessed atom that (usually) contradicts the measure: the flags must say so
                c['pre'] = [rng.choice([[[0]], [[1]], [[0], [1]]]), rng.choice([0.0, 0.05, 0.3])]
            yield c
        # The streams below come after the first one so that the cases above stay what they were for every seed.
        for c in self.gen_seq(rng, 8 if tier == 'quick' else 96):
            yield c
        for c in self.gen_wide(rng, 10 if tier == 'quick' else 100):
            yield c
        for c in self.gen_infer(rng, 12 if tier == 'quick' else 120):
            yield c

    # ---- stream 2: the same Distribution object, decomposed, changed in place, decomposed again
    SEQ_HOW = ['setitem', 'pmf-write', 'pmf-rebind', 'weights-normalize']

    @staticmethod
    def positive_vector(rng, k):
        for _ in range(20):
            pv, _ = gen.rand_prob_vector(rng, k, rng.choice(['small', 'uneven', 'dyadic']))
            if all(p > 0 for p in pv):
                return pv
        w = [rng.randint(1, 9) for _ in range(k)]
        return [Fraction(x, sum(w)) for x in w]

    @staticmethod
    def small_table(rng, ns, style):
        """Binary / ternary variables; full ('random') or thinned ('sparse') support; positive probabilities."""
        alph = [list(range(rng.choice([2, 2, 3]))) for _ in range(ns + 1)]
        full = [list(o) for o in itertools.product(*alph)]
        k = len(full) if style == 'random' else rng.randint(3, max(3, len(full) // 2))
        k = min(k, 12)
        outs = rng.sample(full, k)
        pv, _ = gen.rand_prob_vector(rng, k, rng.choice(['small', 'uneven', 'dyadic']))
        keep = [(o, p) for o, p in zip(outs, pv) if p > 0]
        return [o for o, _ in keep], [p for _, p in keep]

    def gen_seq(self, rng, n):
        two = FAST3 + ['PID_RAV', 'PID_RR', 'PID_CT', 'PID_IG']
        for j in range(n):
            ns = 3 if j % 4 == 3 else 2
            style = 'random' if j % 8 == 0 else rng.choice(['random', 'sparse'])
            outs, pmf = self.small_table(rng, ns, style)
            # the measures with a closed form come in every run; the others by chance
            cls = {0: 'PID_WB', 1: 'PID_GK', 2: 'PID_MMI', 3: 'PID_WB', 6: 'PID_WB'}.get(j % 8)
            if cls is None:
                cls = rng.choice(two if ns == 2 else ['PID_WB', 'PID_MMI', 'PID_GK', 'PID_PM', 'PID_RDR'])
            yield {'outs': outs, 'pmf': [str(p) for p in pmf], 'ns': ns, 'cls': cls,
                   'addr': rng.choice(['default', 'explicit', 'names', 'names-default']),
                   'dense': rng.random() < 0.3, 'style': style, 'tw': 1, 'pre': None,
                   'prior': {'pmf': [str(p) for p in self.positive_vector(rng, len(outs))],
                             'how': self.SEQ_HOW[(j + j // 4) % 4]}}

    # ---- stream 3: larger source alphabets with shared symbol values and structured sparse supports
    GK_CAP = 14      # I_wedge on the real code builds sigma-algebras with 2**(symbols of a source) members

    @staticmethod
    def wide_table(rng, ns, n):
        """Every outcome is a function of a base variable a in range(n): X_i = g_i(a), T = h(a); a few stray outcomes
        (random symbols of the same alphabets) may be added. All sources draw their symbols from range(n)."""
        m = rng.choice([2, 3, 4])
        k = rng.randint(1, n - 1)
        perm = list(range(n))
        rng.shuffle(perm)
        anymap = [rng.randrange(n) for _ in range(n)]
        src = {'id': lambda a: a, 'mirror': lambda a: n - 1 - a, 'shift': lambda a: (a + k) % n, 'perm': lambda a: perm[a],
               'coarse': lambda a: a // m, 'mod': lambda a: a % m, 'blockflip': lambda a: min(n - 1, (a // m) * m + (m - 1 - a % m)),
               'map': lambda a: anymap[a]}
        tmap = [rng.randrange(3) for _ in range(n)]
        tgt = {'half': lambda a: int(a < n // 2), 'mod3': lambda a: a % 3, 'block': lambda a: a // m, 'blockparity': lambda a: (a // m) % 2,
               'map': lambda a: tmap[a], 'mod2': lambda a: a % 2}
        names = ['id' if rng.random() < 0.6 else rng.choice(sorted(src))]
        names += [rng.choice(['mirror', 'shift', 'perm', 'coarse', 'mod', 'blockflip', 'map', 'id']) for _ in range(ns - 1)]
        rng.shuffle(names)
        tn = rng.choice(sorted(tgt))
        outs = [[src[g](a) for g in names] + [tgt[tn](a)] for a in range(n)]
        for _ in range(rng.choice([0, 0, 0, 1, 2])):
            outs.append([rng.randrange(n) for _ in range(ns)] + [rng.randrange(2)])
        uniq = []
        for o in outs:
            if o not in uniq:
                uniq.append(o)
        return uniq, '%s->%s' % ('/'.join(names), tn)

    def gen_wide(self, rng, n_cases):
        g2 = 0
        for j in range(n_cases):
            cls = 'PID_GK' if j % 2 == 0 else ['PID_WB', 'PID_MMI', 'PID_PM', 'PID_RDR', 'PID_CCS'][(j // 2) % 5]
            ns = 3 if j % 5 == 4 else 2
            if cls == 'PID_GK' and ns == 2:
                # the upper end of what the real code handles within the budget comes in every run
                n = [self.GK_CAP, None, self.GK_CAP - 1, None][g2 % 4] or rng.randint(4, self.GK_CAP)
                g2 += 1
            elif cls == 'PID_GK':
                n = rng.randint(4, 9)
            elif cls == 'PID_CCS':
                ns, n = 2, rng.randint(4, 9)
            else:
                n = rng.randint(4, 20 if ns == 2 else 10)
            outs, shape = self.wide_table(rng, ns, n)
            pv = self.positive_vector(rng, len(outs)) if rng.random() < 0.7 else [Fraction(1, len(outs))] * len(outs)
            yield {'outs': outs, 'pmf': [str(p) for p in pv], 'ns': ns, 'cls': cls,
                   'addr': rng.choice(['default', 'explicit', 'names', 'names-default']),
                   'dense': n <= 6 and rng.random() < 0.3, 'style': 'wide', 'tw': 1, 'pre': None, 'shape': shape}

    # ---- stream 4: three sources, incomplete classes, supports on which the inference rules of BaseIncompletePID fire
    INFER_GATES = {'rdn3': ['0000', '1111'], 'rdn2n': ['0000', '0010', '1101', '1111'],
                   'dup-xor': ['0000', '0011', '1101', '1110'],
                   'copy01': ['0000', '0101', '1002', '1103', '0010', '0111', '1012', '1113'],
                   'pair': ['0000', '0110', '1020', '1131'], 'pair-det': ['0000', '0110', '1021', '1131']}
    INFER_FAMILIES = ['const', 'dupdet', 'dup', 'det', 'pair', 'xor', 'free']

    @staticmethod
    def antichains(ns):
        """Nodes of the redundancy lattice over range(ns), each a sorted tuple of sorted index tuples."""
        subsets = [s for r_ in range(1, ns + 1) for s in itertools.combinations(range(ns), r_)]
        nodes = []
        for r_ in range(1, len(subsets) + 1):
            for fam in itertools.combinations(subsets, r_):
                if all(not (set(a) < set(b) or set(b) < set(a)) for a, b in itertools.combinations(fam, 2)):
                    nodes.append(tuple(sorted(fam, key=lambda s: (len(s), s))))
        return nodes

    @staticmethod
    def infer_table(rng, family):
        """Three sources and a target on a thin support with one structural relation:
        const: one source is constant; dup: one source copies another; det: the target copies a source;
        dupdet: two sources and the target coincide; pair: one source is the pair of the other two;
        xor: the target is the sum of two sources mod 2; free: none."""
        for _ in range(50):
            alph = [list(range(rng.choice([2, 2, 3]))) for _ in range(4)]
            full = [list(o) for o in itertools.product(*alph)]
            rows = rng.sample(full, rng.randint(3, min(7, len(full))))
            a, b, c = rng.sample(range(3), 3)
            for o in rows:
                if family == 'const':
                    o[c] = 0
                elif family == 'dup':
                    o[b] = o[a]
                elif family == 'det':
                    o[3] = o[a]
                elif family == 'dupdet':
                    o[b] = o[a]
                    o[3] = o[a]
                elif family == 'pair':
                    o[c] = 3 * o[a] + o[b]
                elif family == 'xor':
                    o[3] = (o[a] + o[b]) % 2
            uniq = []
            for o in rows:
                if o not in uniq:
                    uniq.append(o)
            if len(uniq) >= 2 and len(set(o[3] for o in uniq)) >= 2:
                return uniq
        return [[0, 0, 0, 0], [1, 1, 1, 1]]

    def gen_infer(self, rng, n):
        x_top = [[0, 1], [0, 2], [1, 2]]
        for j in range(n):
            slot = j % 12
            cls = rng.choice(['PID_RR', 'PID_CT'])
            family = {2: 'dupdet', 3: 'const', 4: 'dupdet', 5: 'const'}.get(slot) or rng.choice(self.INFER_FAMILIES)
            cls = {2: 'PID_RR', 3: 'PID_CT', 4: 'PID_CT', 5: 'PID_RR'}.get(slot, cls)
            if family in ('det', 'xor', 'free'):
                # little can be inferred on these: I_triangle's decomposition stays mostly undetermined and the real code's
                # search over subsets of undetermined atoms (exponential in their number) takes from seconds to minutes
                cls = 'PID_RR'
            if slot == 0 or (slot >= 6 and rng.random() < 0.25):
                family = 'gate:' + (rng.choice(['rdn2n', 'copy01', 'dup-xor', 'pair-det', 'rdn3']) if slot == 0
                                    else rng.choice(sorted(self.INFER_GATES)))
                outs = [[int(ch) for ch in o] for o in self.INFER_GATES[family[5:]]]
            else:
                outs = self.infer_table(rng, family)
            pv = self.positive_vector(rng, len(outs)) if rng.random() < 0.7 else [Fraction(1, len(outs))] * len(outs)
            c = {'outs': outs, 'pmf': [str(p) for p in pv], 'ns': 3, 'cls': cls,
                 'addr': rng.choice(['default', 'explicit', 'names', 'names-default']),
                 'dense': rng.random() < 0.2, 'style': 'infer', 'tw': 1, 'pre': None, 'shape': family}
            perm = list(rng.choice([pm for pm in itertools.permutations(range(3)) if list(pm) != [0, 1, 2]]))
            if slot == 0:
                # a measure that only defines unique informations: every redundancy below the single sources is inferred
                c['cls'] = 'PID_BROJA'
            elif slot == 1:
                # every atom but one pre-assessed by the caller (addressed by index): the last one follows from the total
                # (on a full support nothing about {01}{02}{12} can be inferred from I_triangle's pairwise redundancies)
                skip = x_top if (j < 12 or rng.random() < 0.6) else [list(s) for s in rng.choice(self.antichains(3))]
                if j < 12 or rng.random() < 0.6:
                    outs_, pv = self.small_table(rng, 3, 'random')
                    c.update({'outs': outs_, 'pmf': [str(p) for p in pv], 'shape': 'full'})
                c['cls'] = 'PID_CT'
                c['addr'] = 'default'
                c['pre_more'] = {'skip': skip,
                                 'values': 'mmi' if rng.random() < 0.5 else
                                 [[[list(s) for s in nd], rng.choice([0.0, 0.0, 0.05, 0.3])] for nd in self.antichains(3)
                                  if [list(s) for s in nd] != skip]}
            else:
                c['perm'] = perm
            yield c

    def shrink(self, case):
        if case['cls'] != 'PID_MMI' and not case.get('pre') and not case.get('pre_more'):
            # (a pre-assessed atom belongs to the incomplete class it was generated for: with another class the case
            # is a different experiment, not a smaller one)
            c = dict(case)
            c['cls'] = 'PID_MMI'
            yield c

    # ------------------------------------------------------------------
    def build(self, case, perm=None):
        dit = import_dit()
        ns = case['ns']
        outs = case['outs']
        if perm is not None:
            outs = [[o[perm[i]] for i in range(ns)] + o[ns:] for o in outs]
        d = dit.Distribution([tuple(o) for o in outs], [float(Fraction(p)) for p in case['pmf']])
        if case['dense']:
            d.make_dense()
        if case['addr'].startswith('names'):
            d.set_rv_names('ABCD'[:ns + case.get('tw', 1)])
        return d

    def build_seq(self, case):
        """The object of a 'seq' case: built with other probabilities on the same outcomes, decomposed once (every
        redundancy and atom read), then given the case's probabilities in place through the public interface."""
        prior = case['prior']
        d = self.build(dict(case, pmf=prior['pmf']))
        p0 = self.make_pid(case, d)
        for nd in p0._lattice:
            p0.get_red(nd)
            p0.get_pi(nd)
        new = {tuple(o): Fraction(p) for o, p in zip(case['outs'], case['pmf'])}
        how = prior['how']
        if how == 'setitem':
            for o, pp in new.items():
                d[o] = float(pp)
        elif how == 'pmf-write':
            for i, o in enumerate(d.outcomes):
                d.pmf[i] = float(new.get(tuple(o), 0))
        elif how == 'pmf-rebind':
            d.pmf = np.array([float(new.get(tuple(o), 0)) for o in d.outcomes])
        elif how == 'weights-normalize':
            den = 1
            for pp in new.values():
                den = den * pp.denominator // math.gcd(den, pp.denominator)
            for o, pp in new.items():
                d[o] = float(pp * den)
            d.normalize()
        else:
            raise ValueError(how)
        d.validate()
        return d

    def make_pid(self, case, d, extra_pis=None):
        dit = import_dit()
        import dit.pid as pid
        cls = getattr(pid, case['cls'])
        ns = case['ns']
        tw = case.get('tw', 1)
        kw = {}
        if extra_pis:
            kw['pis'] = dict(extra_pis)      # (keys are node labels of this addressing mode)
        if case.get('pre'):
            node = tuple(tuple(s) for s in case['pre'][0])
            kw['pis'] = {node: case['pre'][1]}
        if case.get('pre_more'):
            pm = case['pre_more']
            skip = tuple(tuple(s) for s in pm['skip'])
            if pm['values'] == 'mmi':
                # the atoms of I_mmi on the same distribution and sources (a complete, consistent decomposition)
                ref = pid.PID_MMI(d.copy())
                kw['pis'] = {nd: float(ref.get_pi(nd)) for nd in ref._lattice if nd != skip}
            else:
                kw['pis'] = {tuple(tuple(s) for s in nd): float(v) for nd, v in pm['values']}
        if case['addr'] in ('default', 'names-default'):
            return cls(d, **kw)
        if case['addr'] == 'default-sources':
            return cls(d, target=list(range(ns, ns + tw)))
        if case['addr'] == 'names-default-sources':
            return cls(d, target=list('ABCD'[ns:ns + tw]))
        if case['addr'] == 'names':
            return cls(d, [[c] for c in 'ABCD'[:ns]], ['ABCD'[ns]])
        return cls(d, [[i] for i in range(ns)], [ns])

    def node_key(self, node, case):
        """pid node (tuple of tuples of indices or names) -> model node (list of sorted index lists)."""
        names = 'ABCD'
        conv = lambda v: names.index(v) if isinstance(v, str) else int(v)
        sets = [sorted(conv(v) for v in s) for s in node]
        sets.sort(key=lambda s: (len(s), s))
        return sets

    def run(self, case, drv):
        r = core.Result()
        r.site = 'dit.pid.' + case['cls']
        r.features = ['cls=%s' % case['cls'], 'ns=%d' % case['ns'], 'addr=%s' % case['addr'], 'style=%s' % case['style'],
                      'dense=%s' % case['dense']]
        na = max(len(set(o[i] for o in case['outs'])) for i in range(case['ns']))
        r.features.append('source-symbols=%s' % ('<=3' if na <= 3 else '4-8' if na <= 8 else '9-12' if na <= 12 else '13+'))
        if case.get('prior'):
            r.features.append('seq=%s' % case['prior']['how'])
        if case['style'] == 'infer':
            r.features.append('infer=%s' % case.get('shape', '?').split(':')[0])
        if case.get('pre_more'):
            r.features.append('all-atoms-but-one-preassessed')
        try:
            self.run_inner(case, drv, r)
        except core.DriverError:
            raise
        except Exception as e:  # noqa
            import traceback
            if case.get('pre') and 'Optimization failed' in str(e):
                r.features.append('optimiser-failed-on-preassessed')     # a contradictory pre-assessed atom can make the inner problem infeasible
                return r
            r.oracle_fail = '%s raised %s: %s' % (case['cls'], type(e).__name__, str(e)[:160])
            r.detail = {'traceback': traceback.format_exc()[-700:]}
        if case.get('prior') and (r.oracle_fail or r.mismatch):
            note = (' [second decomposition of a Distribution object that was decomposed with probabilities %s and then given '
                    'the case\'s probabilities in place by %s]' % (case['prior']['pmf'], case['prior']['how']))
            r.oracle_fail = r.oracle_fail + note if r.oracle_fail else None
            r.mismatch = r.mismatch + note if r.mismatch else None
        return r

    def run_inner(self, case, drv, r):
        dit = import_dit()
        from dit.multivariate import coinformation
        ns = case['ns']
        d = self.build_seq(case) if case.get('prior') else self.build(case)
        p = self.make_pid(case, d)
        r.nontrivial = ns == 3 or len(case['outs']) >= 4
        nodes, below, top, bottom = drv.call('lattice', [ns])
        keyof = lambda x: tuple(tuple(s) for s in x)
        mnodes = [keyof(x) for x in nodes]
        pnodes = {keyof(self.node_key(nd, case)): nd for nd in p._lattice}
        # ---- lattice: node set and order
        if set(pnodes) != set(mnodes):
            r.mismatch = 'lattice nodes: impl %s model %s' % (sorted(pnodes), sorted(mnodes))
            return
        for x, bl in zip(mnodes, below):
            got = set(keyof(self.node_key(nd, case)) for nd in p._lattice.descendants(pnodes[x]))
            want = set(keyof(b) for b in bl)
            if got != want:
                r.mismatch = 'nodes below %s: impl %s model %s' % (x, sorted(got), sorted(want))
                return
        if keyof(self.node_key(p._lattice.top, case)) != keyof(top) or keyof(self.node_key(p._lattice.bottom, case)) != keyof(bottom):
            r.mismatch = 'top/bottom of the lattice differ'
            return
        # the order relation the lattice object itself carries (a <= b), on every pair of nodes
        le = {x: set(keyof(b) for b in bl) | {x} for x, bl in zip(mnodes, below)}
        for x in mnodes:
            for y in mnodes:
                got = bool(p._lattice._relationship(pnodes[x], pnodes[y]))
                if got != (x in le[y]):
                    r.mismatch = 'order relation of the lattice: %s <= %s is %s, the model says %s' % (x, y, got, x in le[y])
                    return
        reds = {x: float(p.get_red(pnodes[x])) for x in mnodes}
        pis = {x: float(p.get_pi(pnodes[x])) for x in mnodes}
        flags = {'consistent': bool(p.consistent), 'complete': bool(p.complete), 'nonnegative': bool(p.nonnegative)}
        r.detail = {'reds': {str(k): v for k, v in reds.items()}, 'pis': {str(k): v for k, v in pis.items()}, 'flags': flags}
        # ---- the other ways the decomposition reports itself: item access, the printed table
        same = lambda a, b: a == b or (math.isnan(a) and math.isnan(b))
        for x in mnodes:
            v = float(p[pnodes[x]])
            if not same(v, pis[x]):
                r.oracle_fail = 'pid[%s] = %r but get_pi of that node = %r' % (x, v, pis[x])
                return
        if self.rereads_cheaply(p, case, flags):
            self.check_table(p, case, mnodes, pnodes, reds, pis, r)
            if r.oracle_fail:
                return
        sources = [[i] for i in range(ns)]
        target = list(range(ns, ns + case.get('tw', 1)))
        tot = float(coinformation(self.build(dict(case, addr='explicit')), [list(range(ns)), target]))
        # ---- the flags, read from the numbers
        nan = any(math.isnan(v) for v in pis.values())
        if flags['complete'] != (not nan):
            r.oracle_fail = 'complete = %s but %s' % (flags['complete'], 'some atom is undetermined' if nan else 'every atom is determined')
            return
        # the flag, read from the numbers: over the nodes whose redundancy and atoms at/below are all determined
        margin = []
        okm = True
        for x, bl in zip(mnodes, below):
            vals = [pis[x]] + [pis[keyof(b)] for b in bl]
            if math.isnan(reds[x]) or any(math.isnan(v) for v in vals):
                continue
            parts = sum(vals)
            dev = abs(reds[x] - parts)
            margin.append(dev)
            okm = okm and dev <= 1e-5 + 1e-5 * abs(parts)
        oks = True
        dit0 = self.build(dict(case, addr='explicit'))
        for i in range(ns):
            if math.isnan(reds[((i,),)]):
                continue
            mi = float(coinformation(dit0, [[i], target]))
            dev = abs(reds[((i,),)] - mi)
            margin.append(dev)
            oks = oks and dev <= 1e-5 + 1e-5 * abs(mi)
        judged = not any(1e-6 < m < 1e-4 for m in margin)
        if judged and flags['consistent'] != (okm and oks):
            r.oracle_fail = ('consistent = %s, but Moebius sums hold on the determined nodes = %s and single-source '
                             'redundancies equal the mutual informations = %s' % (flags['consistent'], okm, oks))
            return
        if not nan and not any(math.isnan(v) for v in reds.values()):
            if judged and flags['consistent'] and flags['complete']:
                s = sum(pis.values())
                if abs(s - tot) > 1e-4 or abs(reds[keyof(top)] - tot) > 1e-4:
                    r.oracle_fail = 'atoms sum to %r, top redundancy %r, I(sources:target) = %r' % (s, reds[keyof(top)], tot)
                    return
            nn = all(round(v, 4) >= 0 for v in pis.values())
            if flags['nonnegative'] != nn and not any(abs(round(v, 4)) < 2e-4 and v < 0 for v in pis.values()):
                r.oracle_fail = 'nonnegative = %s but atoms are %s' % (flags['nonnegative'], sorted(pis.values())[:3])
                return
            # model: Moebius inversion of these reds in exact arithmetic
            mp = drv.call('moebius', [ns, [q(Fraction(reds[x])) for x in mnodes]])
            if case['cls'] in ALWAYS and not case.get('pre'):
                for x, v in zip(mnodes, mp):
                    if abs(float(unq(v)) - pis[x]) > 1e-9:
                        r.mismatch = 'pi%s: impl %r, Moebius inversion of the reds gives %r' % (x, pis[x], float(unq(v)))
                        return
                if not (okm and oks) and judged:
                    r.oracle_fail = 'a measure defined on every antichain violates the lattice identities (%s)' % case['cls']
                    return
        # ---- closed forms
        if case['cls'] in ('PID_WB', 'PID_MMI') and case.get('tw', 1) == 1:
            rows = [(list(o), float(Fraction(pp))) for o, pp in zip(case['outs'], case['pmf'])]
            ftab = [[o, f2bits(v)] for o, v in rows]
            name = 'imin' if case['cls'] == 'PID_WB' else 'immi'
            mo = [bits2f(v) for v in drv.call('pidf', [name, ftab, sources, target])]
            for x, v in zip(mnodes, mo):
                if abs(v - reds[x]) > 1e-9:
                    r.mismatch = '%s%s: impl %r model %r' % (name, x, reds[x], v)
                    break
            ref = self.ref_red(name, rows, ns)
            for x in mnodes:
                if abs(ref[x] - reds[x]) > 1e-9:
                    r.oracle_fail = '%s%s = %r, closed form gives %r' % (name, x, reds[x], ref[x])
                    return
            if not case.get('pre') and any(v < -1e-9 for v in pis.values()):    # (a pre-assessed atom is the caller's, not the measure's)
                r.oracle_fail = '%s has a negative atom: %s' % (name, min(pis.values()))
                return
        if case['cls'] == 'PID_GK' and not any(0 < Fraction(pp) < Fraction(1, 10 ** 7) for pp in case['pmf']):
            # I_wedge(node) = I(meet of the node's sources : target); the meet's atoms are the connected components of the
            # support under "agree on some source". Model: meetClasses; definition: union-find below.
            rows = [(list(o), float(Fraction(pp))) for o, pp in zip(case['outs'], case['pmf']) if Fraction(pp) > 0]
            for x in mnodes:
                cl = drv.call('classes', ['meet', [o for o, _ in rows], [list(sx) for sx in x]])
                lab = {tuple(o): k for k, c in enumerate(cl) for o in c}
                v = self.mi_labels([(lab[tuple(o)], tuple(o[i] for i in target), pp) for o, pp in rows])
                if abs(v - reds[x]) > 1e-9:
                    r.mismatch = 'iwedge%s: impl %r, I(model meet classes : target) = %r' % (x, reds[x], v)
                    break
            ref = self.ref_wedge(rows, mnodes, target)
            for x in mnodes:
                if abs(ref[x] - reds[x]) > 1e-9:
                    r.oracle_fail = ('iwedge%s = %r, closed form I(meet:target) gives %r (the meet has %d atoms on a support of %d)'
                                     % (x, reds[x], ref[x], self.meet_labels(rows, x)[1], len(rows)))
                    return
        # ---- permutation equivariance
        if ((case['cls'] in ALWAYS or ns == 2 or case.get('perm')) and not case.get('pre') and not case.get('pre_more')
                and case['cls'] not in NOT_EQUIVARIANT_BY_DESIGN):
            # (every permutation; the three-source 'infer' cases of the incomplete classes name the one they are run with)
            perms = [tuple(case['perm'])] if case.get('perm') else list(itertools.permutations(range(ns)))
            for perm in perms:
                if list(perm) == list(range(ns)):
                    continue
                d2 = self.build(case, perm)
                p2 = self.make_pid(case, d2)
                inv = {perm[i]: i for i in range(ns)}     # new source i is old source perm[i]
                for x in mnodes:
                    img = tuple(sorted((tuple(sorted(inv[v] for v in s)) for s in x), key=lambda s: (len(s), s)))
                    nd2 = [n2 for n2 in p2._lattice if keyof(self.node_key(n2, case)) == img][0]
                    a, b = reds[x], float(p2.get_red(nd2))
                    ptol = 1e-6 if case['cls'] in ('PID_WB', 'PID_MMI', 'PID_GK', 'PID_PM', 'PID_RDR', 'PID_CT', 'PID_RR') else 5e-4
                    if case['cls'] in ('PID_BROJA', 'PID_dep', 'PID_RA', 'PID_MES', 'PID_IG', 'PID_Proj'):
                        ptol = 5e-3     # numerical optimisers inside
                    if case['cls'] == 'PID_GH':
                        ptol = 2e-2     # its optimiser is randomised: the same input repeats only to about 3e-3
                    if not (abs(a - b) <= ptol or (math.isnan(a) and math.isnan(b))):
                        r.oracle_fail = 'permuting the sources by %s: red%s = %r but red%s = %r after' % (perm, x, a, img, b)
                        if case['cls'] == 'PID_CCS':
                            m = min(self.ccs_min_term(p._dist, pnodes[x], p._target), self.ccs_min_term(p2._dist, nd2, p2._target))
                            r.detail = dict(r.detail or {}, ccs_min_pointwise_term=m)
                            # the mechanism itself, observed: which events enter I_ccs's sum is decided by the SIGNS of
                            # pointwise terms on the numerically optimised maximum-entropy distribution; the multiset of
                            # sign patterns over the events is invariant under permuting the sources for an exact
                            # maximum-entropy distribution.  If the two optimiser runs disagree on it, an event has
                            # changed sides: the known discontinuity, not the permutation handling of the lattice
                            flipped = (self.ccs_sign_patterns(p._dist, pnodes[x], p._target)
                                       != self.ccs_sign_patterns(p2._dist, nd2, p2._target))
                            r.detail['ccs_sign_patterns_differ'] = bool(flipped)
                            if m < 5e-3 or flipped:
                                r.site = 'dit.pid.PID_CCS.near-sign-change'
                        if case['cls'] == 'PID_GH':
                            # I_GH is computed by a randomised optimiser (SciPy basin hopping on NumPy's global generator).
                            # Decide whether the two values differ because the sources were permuted or because the
                            # optimiser lands on different optima from run to run: repeat the UNPERMUTED decomposition.
                            import time as _time
                            reps, t0_ = [a, b], _time.time()
                            for k_ in range(24):
                                if _time.time() - t0_ > 12:
                                    break
                                try:
                                    if k_ % 2 == 0:
                                        reps.append(float(self.make_pid(case, self.build(case)).get_red(pnodes[x])))
                                    else:
                                        reps.append(float(self.make_pid(case, self.build(case, perm)).get_red(nd2)))
                                except Exception:  # noqa
                                    break
                            # spread of the value within ONE order of the sources (each order has its own repeats)
                            own, oth = [a] + reps[2::2], [b] + reps[3::2]
                            spread = max(max(own) - min(own), max(oth) - min(oth))
                            r.detail = dict(r.detail or {}, gh_repeat_values=reps, gh_repeat_spread=spread)
                            if spread > ptol:
                                r.site = 'dit.pid.PID_GH.optimiser-random'
                        return
                # == / != between the two decompositions (same node labels, other probabilities), read against their numbers
                self.check_equality(p, p2, case, mnodes, pnodes, reds, pis, r, 'the decomposition of the sources permuted by %s' % (perm,))
                if r.oracle_fail:
                    return
            if case['cls'] in ('PID_RR', 'PID_CT') and (ns == 2 or case['style'] == 'infer'):
                # the same input decomposed with the bottom atom pre-assessed 0.3 above what it is here: the measured
                # redundancies agree, the atoms do not
                b0 = pis[keyof(bottom)]
                p3 = self.make_pid(case, self.build(case), extra_pis={pnodes[keyof(bottom)]: (0.0 if math.isnan(b0) else b0) + 0.3})
                self.check_equality(p, p3, case, mnodes, pnodes, reds, pis, r, 'the same input with the bottom atom pre-assessed 0.3 higher')
                if r.oracle_fail:
                    return

    # ---- the decomposition's other self-reports
    @staticmethod
    def rereads_cheaply(p, case, flags):
        """str() / repr() ask for the flags again, i.e. run _compute three more times. That costs nothing for the classes
        defined on every antichain (cached redundancies) and for the bivariate incomplete ones once their inference has
        nothing left to solve; classes that only define unique informations re-run their optimiser every time."""
        from dit.pid.pid import BaseIncompletePID, BaseBivariatePID
        if not isinstance(p, BaseIncompletePID):
            return True
        return isinstance(p, BaseBivariatePID) and (case['ns'] == 2 or flags['complete'] or case['style'] == 'infer')

    @staticmethod
    def feature_once(r, f):
        if f not in r.features:
            r.features.append(f)

    def check_table(self, p, case, mnodes, pnodes, reds, pis, r):
        """str(pid) is a table with one row per lattice node: label, redundancy, atom (4 decimals; to_string shows values
        within 1e-3 of zero as 0). repr(pid) is that table when ditParams['repr.print'] is set."""
        from dit.params import ditParams
        text = str(p)
        conv = lambda v: int(v) if v.isdigit() else 'ABCD'.index(v)
        rows = []
        for line in text.splitlines():
            cells = [c.strip() for c in line.strip().strip('|').split('|')]
            if len(cells) == 3 and cells[0].startswith('{') and cells[0].endswith('}'):
                try:
                    sets = [sorted(conv(v) for v in m.split(':')) for m in cells[0][1:-1].split('}{')]
                    sets.sort(key=lambda s_: (len(s_), s_))
                    rows.append((tuple(tuple(s_) for s_ in sets), float(cells[1]), float(cells[2])))
                except ValueError:
                    r.oracle_fail = 'the printed table has a row that cannot be read: %r' % line
                    return
        if sorted(k for k, _, _ in rows) != sorted(mnodes):
            r.oracle_fail = 'the printed table lists the nodes %s, the lattice has %s' % (sorted(k for k, _, _ in rows), sorted(mnodes))
            return

        def shown_ok(shown, v):
            if math.isnan(v) or math.isnan(shown):
                return math.isnan(v) and math.isnan(shown)
            return abs(shown - v) <= 5.1e-5 or (shown == 0 and abs(v) <= 1.002e-3)
        for k, sr, sp in rows:
            if not shown_ok(sr, reds[k]) or not shown_ok(sp, pis[k]):
                r.oracle_fail = ('the printed table shows node %s with redundancy %r and atom %r, get_red / get_pi give %r and %r'
                                 % (k, sr, sp, reds[k], pis[k]))
                return
        old = ditParams['repr.print']
        try:
            ditParams['repr.print'] = True
            rp = repr(p)
            ditParams['repr.print'] = False
            rd = repr(p)
        finally:
            ditParams['repr.print'] = old
        if rp != text:
            r.oracle_fail = 'with repr.print set, repr(pid) is not the table str(pid) gives: %r' % rp[:200]
            return
        if not isinstance(rd, str):
            r.oracle_fail = 'repr(pid) is not a string'
            return
        r.features.append('table-read')

    def check_equality(self, p, p2, case, mnodes, pnodes, reds, pis, r, what):
        """pid == other: every atom of the two agrees (dit: isclose with atol = rtol = 1e-5), for the incomplete classes
        every redundancy too; pid != other is the negation. Expected from the numbers both objects report node by node."""
        from dit.pid.pid import BaseIncompletePID
        eq, ne = p == p2, p != p2
        if not isinstance(eq, (bool, np.bool_)) or bool(ne) != (not bool(eq)):
            r.oracle_fail = 'pid == other is %r and pid != other is %r (other: %s)' % (eq, ne, what)
            return
        pairs = [(x, 'atom', pis[x], float(p2.get_pi(pnodes[x]))) for x in mnodes]
        if isinstance(p, BaseIncompletePID):
            pairs += [(x, 'redundancy', reds[x], float(p2.get_red(pnodes[x]))) for x in mnodes]
        if any(math.isnan(a) or math.isnan(b) for _, _, a, b in pairs):
            self.feature_once(r, 'eq-undetermined-values-not-judged')
            return
        far = [(x, w, a, b) for x, w, a, b in pairs if abs(a - b) > 1e-5 + 1e-5 * abs(b)]
        if any(0.1 < abs(a - b) / (1e-5 + 1e-5 * abs(b)) < 10 for _, _, a, b in pairs):
            self.feature_once(r, 'eq-near-threshold-not-judged')
            return
        self.feature_once(r, 'eq=%s' % (not far))
        if bool(eq) != (not far):
            r.oracle_fail = ('pid == other is %s (other: %s), but %s' % (bool(eq), what,
                             ('the %s of %s is %r in one and %r in the other' % (far[0][1], far[0][0], far[0][2], far[0][3])) if far
                             else 'every atom%s agrees' % (' and redundancy' if isinstance(p, BaseIncompletePID) else '')))
            return

    @staticmethod
    def ccs_min_term(d, sources, target):
        """Smallest |pointwise term| whose SIGN decides membership in I_ccs's sum, on the maximum-entropy distribution the
        measure itself computes: a value near 0 means the measure is being evaluated next to one of its discontinuities."""
        import numpy as np
        from dit.algorithms import maxent_dist
        from dit import modify_outcomes
        from dit.utils import flatten, powerset
        sources = tuple(tuple(s) for s in sources)
        target = tuple(target)
        rvs = list(range(len(sources) + 1))
        d = d.coalesce(sources + (target,))
        marginals = [rvs[:-1]] + [[i, rvs[-1]] for i in rvs[:-1]]
        d = modify_outcomes(maxent_dist(d, marginals), lambda o: tuple(o))
        sub_rvs = [rv for rv in powerset(rvs) if rv]
        sub = {rv: d.marginal(rv) for rv in sub_rvs}
        terms = []
        for e in d.outcomes:
            if d[e] < 1e-9:
                continue
            for i in rvs[:-1]:
                terms.append(np.log2(sub[(i, rvs[-1])][(e[i], e[-1])] / (sub[(i,)][(e[i],)] * sub[(rvs[-1],)][(e[-1],)])))
            terms.append(np.log2(d[e] / (sub[tuple(rvs[:-1])][e[:-1]] * sub[(rvs[-1],)][(e[-1],)])))
            terms.append(np.log2(np.prod([sub[rv][tuple(e[i] for i in flatten(rv))] ** ((-1) ** len(rv)) for rv in sub_rvs])))
        terms = [abs(float(t)) for t in terms if np.isfinite(t) and not np.isclose(t, 0.0)]
        return min(terms) if terms else 1.0

    @staticmethod
    def ccs_sign_patterns(d, sources, target):
        """Sorted list, over the events of the maximum-entropy distribution I_ccs works on, of (sign of the pointwise
        co-information, sorted signs of the source-target pointwise informations, sign of the joint pointwise information)
        with iccs.py's own rounding of near-zero terms: a fingerprint that does not depend on the order of the sources."""
        import numpy as np
        from dit.algorithms import maxent_dist
        from dit import modify_outcomes
        from dit.utils import flatten, powerset
        sources = tuple(tuple(s) for s in sources)
        target = tuple(target)
        rvs = list(range(len(sources) + 1))
        d = d.coalesce(sources + (target,))
        marginals = [rvs[:-1]] + [[i, rvs[-1]] for i in rvs[:-1]]
        d = modify_outcomes(maxent_dist(d, marginals), lambda o: tuple(o))
        sub_rvs = [rv for rv in powerset(rvs) if rv]
        sub = {rv: d.marginal(rv) for rv in sub_rvs}

        def sg(t):
            t = float(t)
            return 0 if (not np.isfinite(t) or np.isclose(t, 0.0)) else (1 if t > 0 else -1)
        pats = []
        with np.errstate(all='ignore'):
            for e in d.outcomes:
                if d[e] < 1e-9:
                    continue
                pm = sorted(sg(np.log2(sub[(i, rvs[-1])][(e[i], e[-1])] / (sub[(i,)][(e[i],)] * sub[(rvs[-1],)][(e[-1],)])))
                            for i in rvs[:-1])
                jp = sg(np.log2(d[e] / (sub[tuple(rvs[:-1])][e[:-1]] * sub[(rvs[-1],)][(e[-1],)])))
                co = sg(np.log2(np.prod([sub[rv][tuple(e[i] for i in flatten(rv))] ** ((-1) ** len(rv)) for rv in sub_rvs])))
                pats.append((co, tuple(pm), jp))
        return sorted(pats)

    @staticmethod
    def meet_labels(rows, node):
        """Label of every support outcome = its connected component under "same value of some source of the node"."""
        parent = list(range(len(rows)))

        def find(i):
            while parent[i] != i:
                parent[i] = parent[parent[i]]
                i = parent[i]
            return i
        for sx in node:
            first = {}
            for k, (o, _) in enumerate(rows):
                v = tuple(o[i] for i in sx)
                if v in first:
                    parent[find(k)] = find(first[v])
                else:
                    first[v] = k
        labels = [find(k) for k in range(len(rows))]
        return labels, len(set(labels))

    @staticmethod
    def mi_labels(triples):
        """I(A:B) in bits from (a, b, p) triples."""
        pa, pb, pab = {}, {}, {}
        for a, b, pp in triples:
            pa[a] = pa.get(a, 0.0) + pp
            pb[b] = pb.get(b, 0.0) + pp
            pab[(a, b)] = pab.get((a, b), 0.0) + pp
        h = lambda m: -sum(v * math.log2(v) for v in m.values() if v > 0)
        return h(pa) + h(pb) - h(pab)

    @classmethod
    def ref_wedge(cls, rows, nodes, target):
        out = {}
        for x in nodes:
            labels, _ = cls.meet_labels(rows, x)
            out[x] = cls.mi_labels([(lb, tuple(o[i] for i in target), pp) for lb, (o, pp) in zip(labels, rows)])
        return out

    @staticmethod
    def ref_red(name, rows, ns):
        def marg(idx):
            m = {}
            for o, p in rows:
                k = tuple(o[i] for i in idx)
                m[k] = m.get(k, 0.0) + p
            return m

        def H(idx):
            return -sum(p * math.log2(p) for p in marg(idx).values() if p > 0)
        T = [ns]
        out = {}
        subsets = [s for r_ in range(1, ns + 1) for s in itertools.combinations(range(ns), r_)]
        nodes = []
        for r_ in range(1, len(subsets) + 1):
            for fam in itertools.combinations(subsets, r_):
                if all(not (set(a) < set(b) or set(b) < set(a)) for a, b in itertools.combinations(fam, 2)):
                    nodes.append(tuple(sorted(fam, key=lambda s: (len(s), s))))
        pT = marg(T)
        for node in nodes:
            if name == 'immi':
                out[node] = min(H(list(s)) + H(T) - H(list(s) + T) for s in node)
            else:
                val = 0.0
                for (t,), pt in pT.items():
                    specs = []
                    for s in node:
                        pS = marg(list(s))
                        pST = marg(list(s) + T)
                        si = 0.0
                        for a, pa in pS.items():
                            pat = pST.get(a + (t,), 0.0)
                            if pat > 0:
                                si += (pat / pt) * math.log2((pat / pa) / pt)
                        specs.append(si)
                    val += pt * min(specs)
                out[node] = val
        return out


PROP = C17()
