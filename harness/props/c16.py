"""
C16 — Meet, join, sufficient statistics and common informations are correct.
"""
import itertools
import math
from fractions import Fraction

import core
import gen
from driver import q
from env import import_dit


class C16(object):
    id = 'C16'
    rule = ("joint distributions with structured supports (block-diagonal, deterministic relations, full support, random "
            "sparse; at most 8 outcomes because dit's sigma-algebra code is exponential) over 2-3 variables with pruned "
            "sample spaces, str or tuple outcomes, named or not; all pairs / families of variable groups, insertion "
            "positions idx in {0..n, -1}; insert_join / insert_meet / insert_mss partitions vs the model's, conditional "
            "entropies in the returned distribution, preservation of the old variables' joint, K / F / M values vs "
            "references and the chain K <= J <= B <= F <= M <= H. Non-trivial = at least 4 outcomes and 2 classes")
    tolerances = {'entropies': 'atol 1e-9', 'chain': 'slack 1e-8', 'mss rows': 'generated conditional rows are equal or differ by >= 1e-3 (dit compares with is_approx_equal)'}
    exhaustive = {}

    def gen(self, rng, tier):
        n_cases = 110 if tier == 'quick' else 2000
        for _ in range(n_cases):
            n = rng.choice([2, 3, 3])
            style = rng.choice(['block', 'function', 'full', 'sparse', 'giant'])
            a = rng.choice([2, 3])
            full = [list(o) for o in itertools.product(range(a), repeat=n)]
            if style == 'block':
                # two blocks of symbols that never mix
                lo = [o for o in itertools.product(range(2), repeat=n)]
                hi = [tuple(x + 2 for x in o) for o in itertools.product(range(2), repeat=n)]
                pool = [list(o) for o in lo + hi]
                outs = rng.sample(pool, rng.randint(3, min(8, len(pool))))
            elif style == 'function':
                outs = []
                f = {x: rng.randrange(a) for x in range(a)}
                for o in full:
                    if o[-1] == f[o[0]]:
                        outs.append(o)
                outs = outs[:8]
            elif style == 'giant':
                outs = [[x] * n for x in range(a)]
            elif style == 'full':
                outs = full[:8]
            else:
                outs = rng.sample(full, rng.randint(2, min(8, len(full))))
            pv, _ = gen.rand_prob_vector(rng, len(outs), rng.choice(['small', 'uneven', 'dyadic']))
            keep = [(o, p) for o, p in zip(outs, pv) if p > 0]
            if len(keep) < 2:
                keep = [(o, Fraction(1, len(outs))) for o in outs]
            tot = sum(p for _, p in keep)
            outs = [o for o, _ in keep]
            pmf = [p / tot for _, p in keep]
            kind = rng.choice(['join', 'meet', 'meet', 'mss', 'common'])
            vars_ = list(range(n))
            if n == 2:
                groups = rng.choice([[[0], [1]], [[0], [1]], [[1], [0]]])
            else:
                groups = rng.choice([[[0], [1]], [[0], [1], [2]], [[0, 1], [2]], [[0], [1, 2]], [[0, 1], [1, 2]],
                                     [[1], [0]], [[2], [0]], [[2], [0, 1]], [[1, 2], [0]], [[2], [1], [0]], [[1, 0], [2]]])
            cgroups = rng.choice(['singletons', 'given'])
            if kind == 'common' and n == 3 and rng.random() < 0.6:
                # two of the three variables: the left-out one must not influence K, F, M
                groups, cgroups = rng.choice([[[0], [1]], [[0], [2]], [[1], [2]]]), 'given'
            yield {'klass': rng.choice(['str', 'tuple']), 'n': n, 'outs': outs, 'pmf': [str(p) for p in pmf],
                   'style': style, 'kind': kind, 'groups': groups, 'idx': rng.choice([-1] + list(range(n + 1))),
                   'names': rng.random() < 0.3, 'rvs': [0] if n == 2 else rng.choice([[0], [0, 1]]),
                   'about': [n - 1], 'cgroups': cgroups}

    def shrink(self, case):
        return []

    def build(self, case):
        dit = import_dit()
        klass = case['klass']
        outs = [gen.to_py(o, klass) for o in case['outs']]
        d = dit.Distribution(outs, [float(Fraction(p)) for p in case['pmf']], sample_space=outs)
        if case['names']:
            d.set_rv_names('XYZ'[:case['n']])
        return d

    def run(self, case, drv):
        r = core.Result()
        r.site = 'C16.' + case['kind']
        r.features = ['kind=%s' % case['kind'], 'style=%s' % case['style'], 'n=%d' % case['n'], 'names=%s' % case['names'],
                      'idx=%s' % case['idx']]
        try:
            getattr(self, 'run_' + case['kind'])(case, drv, r)
        except core.DriverError:
            raise
        except Exception as e:  # noqa
            import traceback
            r.oracle_fail = '%s raised %s: %s' % (case['kind'], type(e).__name__, str(e)[:160])
            r.detail = {'traceback': traceback.format_exc()[-700:]}
        return r

    # helpers ----------------------------------------------------------------
    def H(self, rows, idx):
        m = {}
        for o, p in rows:
            k = tuple(o[i] for i in idx)
            m[k] = m.get(k, 0.0) + p
        return -sum(p * math.log2(p) for p in m.values() if p > 0)

    def nm(self, case, g):
        return ['XYZ'[i] for i in g] if case['names'] else list(g)

    def check_insertion(self, case, d2, classes_model, r, what):
        """d2: distribution with one inserted variable; compare its partition with the model's and
        check preservation of the old joint."""
        klass = case['klass']
        n = case['n']
        idx = n if case['idx'] == -1 else case['idx']
        part = {}
        old = {}
        for o, p in zip(d2.outcomes, d2.pmf):
            o = list(o)
            lab = o[idx]
            rest = o[:idx] + o[idx + 1:]
            ro = tuple(gen.from_py(gen.to_py(gen.from_py(rest, klass), klass), klass)) if False else tuple(gen.from_py(rest if klass != 'str' else ''.join(rest), klass))
            part.setdefault(lab, set()).add(ro)
            old[ro] = old.get(ro, 0.0) + float(p)
        got = set(frozenset(v) for v in part.values())
        want = set(frozenset(tuple(o) for o in c) for c in classes_model)
        r.nontrivial = len(case['outs']) >= 4 and len(want) >= 2
        r.detail = {'impl_classes': sorted(sorted(map(list, c)) for c in got), 'model_classes': classes_model}
        if got != want:
            r.mismatch = '%s partition: impl %s model %s' % (what, r.detail['impl_classes'], classes_model)
        src = {tuple(o): float(Fraction(p)) for o, p in zip(case['outs'], case['pmf'])}
        if set(old) != set(src) or any(abs(old[k] - src[k]) > 1e-12 for k in src):
            r.oracle_fail = 'the joint distribution of the original variables changed under %s' % what
        return idx, part

    def run_join(self, case, drv, r):
        dit = import_dit()
        from dit.algorithms.lattice import insert_join
        d = self.build(case)
        groups = case['groups']
        d2 = insert_join(d, case['idx'], [self.nm(case, g) for g in groups])
        classes = drv.call('classes', ['join', case['outs'], groups])
        idx, part = self.check_insertion(case, d2, classes, r, 'insert_join')
        if r.oracle_fail:
            return
        rows = [(list(o), float(p)) for o, p in zip(d2.outcomes, d2.pmf)]
        U = sorted(set(i if i < idx else i + 1 for g in groups for i in g))
        hn, hu, hboth = self.H(rows, [idx]), self.H(rows, U), self.H(rows, U + [idx])
        if abs(hboth - hu) > 1e-9 or abs(hboth - hn) > 1e-9:
            r.oracle_fail = 'join: H(new|groups) = %r, H(groups|new) = %r (both must vanish)' % (hboth - hu, hboth - hn)

    def run_meet(self, case, drv, r):
        dit = import_dit()
        from dit.algorithms.lattice import insert_meet
        from dit.multivariate import gk_common_information
        d = self.build(case)
        groups = case['groups']
        d2 = insert_meet(d, case['idx'], [self.nm(case, g) for g in groups])
        classes = drv.call('classes', ['meet', case['outs'], groups])
        idx, part = self.check_insertion(case, d2, classes, r, 'insert_meet')
        if r.oracle_fail:
            return
        rows = [(list(o), float(p)) for o, p in zip(d2.outcomes, d2.pmf)]
        for g in groups:
            G = [i if i < idx else i + 1 for i in g]
            if abs(self.H(rows, G + [idx]) - self.H(rows, G)) > 1e-9:
                r.oracle_fail = 'meet is not a function of the group %s' % g
                return
        # finest: the reference components of "agree on some group"
        src = [list(o) for o in case['outs']]
        comp = self.components(src, groups)
        want = set(frozenset(map(tuple, c)) for c in comp)
        got = set(frozenset(v) for v in part.values())
        if got != want:
            r.oracle_fail = 'meet classes %s are not the connected components of the support %s' % (
                sorted(sorted(map(list, c)) for c in got), sorted(sorted(map(list, c)) for c in want))
            return
        K = float(gk_common_information(d, [self.nm(case, g) for g in groups]))
        ps = {tuple(o): float(Fraction(p)) for o, p in zip(case['outs'], case['pmf'])}
        ref = -sum(m * math.log2(m) for m in [sum(ps[tuple(o)] for o in c) for c in comp] if m > 0)
        if abs(K - ref) > 1e-9:
            r.oracle_fail = 'gk_common_information %r, entropy of the connected components %r' % (K, ref)

    @staticmethod
    def components(rows, groups):
        comps = []
        left = [list(o) for o in rows]
        while left:
            cur = [left.pop(0)]
            changed = True
            while changed:
                changed = False
                for o in list(left):
                    if any(any([o[i] for i in g] == [c[i] for i in g] for g in groups) for c in cur):
                        cur.append(o)
                        left.remove(o)
                        changed = True
            comps.append(cur)
        return comps

    def run_mss(self, case, drv, r):
        dit = import_dit()
        from dit.algorithms.minimal_sufficient_statistic import insert_mss
        d = self.build(case)
        rvs, about = case['rvs'], case['about']
        if set(rvs) & set(about):
            return
        d2 = insert_mss(d, case['idx'], self.nm(case, rvs), self.nm(case, about))
        tab = [[o, q(Fraction(p))] for o, p in zip(case['outs'], case['pmf'])]
        classes = drv.call('mss', [tab, rvs, about])
        idx, part = self.check_insertion(case, d2, classes, r, 'insert_mss')
        if r.oracle_fail:
            return
        rows = [(list(o), float(p)) for o, p in zip(d2.outcomes, d2.pmf)]
        sh = lambda g: [i if i < idx else i + 1 for i in g]
        X, Y = sh(rvs), sh(about)
        if abs(self.H(rows, X + [idx]) - self.H(rows, X)) > 1e-9:
            r.oracle_fail = 'the sufficient statistic is not a function of X'
            return
        mi = lambda A, B: self.H(rows, A) + self.H(rows, B) - self.H(rows, sorted(set(A + B)))
        if abs(mi([idx], Y) - mi(X, Y)) > 1e-9:
            r.oracle_fail = 'I(mss:Y) = %r but I(X:Y) = %r' % (mi([idx], Y), mi(X, Y))

    def run_common(self, case, drv, r):
        dit = import_dit()
        import dit.multivariate as mv
        d = self.build(case)
        n = case['n']
        groups = [[i] for i in range(n)]
        cg = case['groups']
        if case.get('cgroups') == 'given' and len(set(sum(cg, []))) == len(sum(cg, [])):
            groups = cg                 # disjoint groups, possibly not covering every variable
        g = [self.nm(case, x) for x in groups]
        union = sorted(set(sum(groups, [])))
        r.features.append('groups=%s' % groups)
        r.nontrivial = len(case['outs']) >= 4
        K = float(mv.gk_common_information(d, g))
        J = float(mv.caekl_mutual_information(d, g))
        B = float(mv.dual_total_correlation(d, g))
        F = float(mv.functional_common_information(d, g))
        M = float(mv.mss_common_information(d, g))
        Hh = float(mv.entropy(d, self.nm(case, union)))
        vals = [('K', K), ('J', J), ('B', B), ('F', F), ('M', M), ('H', Hh)]
        r.detail = dict(vals)
        for (a, x), (b, y) in zip(vals, vals[1:]):
            if x > y + 1e-8:
                r.oracle_fail = 'chain K <= J <= B <= F <= M <= H broken: %s = %r > %s = %r' % (a, x, b, y)
                return
        rows = [(list(o), float(Fraction(p))) for o, p in zip(case['outs'], case['pmf'])]
        # K: entropy of the connected components of the support (reference as in run_meet)
        comp = self.components([list(o) for o in case['outs']], groups)
        ps = {tuple(o): float(Fraction(p)) for o, p in zip(case['outs'], case['pmf'])}
        refK = -sum(m * math.log2(m) for m in [sum(ps[tuple(o)] for o in c) for c in comp] if m > 0)
        if abs(K - refK) > 1e-9:
            r.oracle_fail = 'gk_common_information %r, entropy of the connected components of the support %r' % (K, refK)
            return
        # M: entropy of the joint minimal sufficient statistic of each group ABOUT THE OTHER GROUPS
        # (reference through the model's classes)
        tab = [[o, q(Fraction(p))] for o, p in zip(case['outs'], case['pmf'])]
        labels = []
        for gi in groups:
            cl = drv.call('mss', [tab, gi, sorted(set(union) - set(gi))])
            lab = {}
            for k, c in enumerate(cl):
                for o in c:
                    lab[tuple(o)] = k
            labels.append(lab)
        joint = {}
        for o, p in rows:
            key = tuple(l[tuple(o)] for l in labels)
            joint[key] = joint.get(key, 0.0) + p
        refM = -sum(p * math.log2(p) for p in joint.values() if p > 0)
        if abs(M - refM) > 1e-9:
            r.mismatch = 'mss_common_information %r, entropy of the joint of the model\'s sufficient statistics %r' % (M, refM)
        # the values depend on the joint probabilities only: the default (Cartesian) sample space, stored zeros (dense)
        # and the marginal on the variables of the groups give the same K, F, M
        klass = case['klass']
        outs = [gen.to_py(o, klass) for o in case['outs']]
        pm = [float(Fraction(p)) for p in case['pmf']]
        variants = [('default sample space', dit.Distribution(outs, pm))]
        dn = dit.Distribution(outs, pm)
        dn.make_dense()
        variants.append(('dense with stored zeros', dn))
        for label, dv in variants:
            if case['names']:
                dv.set_rv_names('XYZ'[:n])
            for name, f, want in (('gk_common_information', mv.gk_common_information, K),
                                  ('mss_common_information', mv.mss_common_information, M),
                                  ('functional_common_information', mv.functional_common_information, F)):
                if name == 'functional_common_information' and len(dv.outcomes) > 12:
                    continue
                v = float(f(dv, g))
                if abs(v - want) > 1e-8:
                    r.oracle_fail = '%s = %r on the %s, %r on the pruned one' % (name, v, label, want)
                    return
        if len(union) < n:
            dm = d.marginal(self.nm(case, union))
            pos = {v: i for i, v in enumerate(union)}
            gm = [[pos[i] for i in x] for x in groups]
            if case['names']:
                gm = [[dm.get_rv_names()[i] for i in x] for x in gm]
            for name, f, want in (('gk_common_information', mv.gk_common_information, K),
                                  ('mss_common_information', mv.mss_common_information, M)):
                v = float(f(dm, gm))
                if abs(v - want) > 1e-8:
                    r.oracle_fail = '%s = %r on the marginal over the groups\' variables, %r on the full distribution' % (name, v, want)
                    return


PROP = C16()
