"""
C16 — Meet, join, sufficient statistics and common informations are correct.
"""
import itertools
import math
import signal
from fractions import Fraction

import core
import gen
from driver import q
from env import import_dit


def _alarm(signum, frame):
    raise core.CaseTimeout()


class _Untimed(object):
    """The driver with the case's timer paused during a call (a timeout inside the line protocol would desynchronise it)."""

    def __init__(self, drv):
        self.drv = drv

    def call(self, *a, **k):
        left = signal.setitimer(signal.ITIMER_REAL, 0)[0]
        try:
            return self.drv.call(*a, **k)
        finally:
            if left > 0:
                signal.setitimer(signal.ITIMER_REAL, left)


class C16(object):
    id = 'C16'
    rule = ("joint distributions with structured supports (block-diagonal, deterministic relations, full support, random "
            "sparse; at most 8 outcomes because dit's sigma-algebra code is exponential) over 2-3 variables with pruned "
            "sample spaces, str or tuple outcomes, named or not; all pairs / families of variable groups, insertion "
            "positions idx in {0..n, -1}; insert_join / insert_meet / insert_mss partitions vs the model's, conditional "
            "entropies in the returned distribution, preservation of the old variables' joint, K / F / M values vs "
            "references and the chain K <= J <= B <= F <= M <= H. Non-trivial = at least 4 outcomes and 2 classes. Two added "
            "streams: (a) variable lists in arbitrary order - the group X of insert_mss / mss / mss_sigalg and the variables "
            "it is about as any disjoint subsets in any order (about=None = all others), groups and the variables inside them "
            "shuffled; the cells are compared with the classes of equal P(Y|x) computed from the definition with exact "
            "rationals; (b) sequences of evaluations in one process - one or two calls of join / meet / insert_join / "
            "insert_meet / gk_common_information / mss / insert_mss on the default (Cartesian), dense or pruned presentation "
            "of the same joint distribution precede the case's evaluation (calls limited to 9 atoms per sigma-algebra), each "
            "judged by the clauses that do not depend on the sample space. Also: atom_set(method=1) against the definition on "
            "families whose atoms are all singletons (point-separating generators added; families with a larger atom are "
            "executed, not judged: dit is wrong there, reported); info_trim on the default / dense (Cartesian sample space) "
            "and pruned presentations with rvs given or left out, the result validated and re-measured by dit itself. A case has 20 s (common informations 120 s), "
            "otherwise it is dropped and counted as case-timeout")
    tolerances = {'entropies': 'atol 1e-9', 'chain': 'slack 1e-8', 'mss rows': 'generated conditional rows are equal or differ by >= 1e-3 (dit compares with is_approx_equal)'}
    exhaustive = {}

    def gen_sigalg(self, rng, tier):
        """Families of subsets of a small set: sigma_algebra / is_sigma_algebra(+__brute) / atom_set against Core/SigAlg.lean."""
        for _ in range(40 if tier == 'quick' else 1500):
            m = rng.randint(1, 6)
            X = sorted(rng.sample(range(12), m))
            style = rng.choice(['random', 'partition', 'chain', 'sigalg', 'almost'])
            if style == 'partition':
                lab = [rng.randrange(3) for _ in X]
                C = [[x for x, l in zip(X, lab) if l == k] for k in sorted(set(lab))]
            elif style == 'chain':
                C = [X[:k] for k in sorted(set(rng.randint(0, m) for _ in range(3)))]
            else:
                C = []
                for _ in range(rng.randint(1, 4)):
                    c = [x for x in X if rng.random() < 0.5]
                    if c not in C:
                        C.append(c)
            given_x = rng.random() < 0.5
            if given_x and rng.random() < 0.4:
                X = sorted(set(X) | set(rng.sample(range(12, 16), rng.randint(1, 2))))   # elements outside every set
            yield {'kind': 'sigalg', 'style': style, 'C': C, 'X': X if given_x else None,
                   'drop': rng.randrange(64), 'klass': 'tuple', 'n': 0, 'names': False, 'idx': 0, 'outs': []}

    def gen(self, rng, tier):
        for c in self.gen_sigalg(rng, tier):
            yield c
        n_cases = 110 if tier == 'quick' else 2000
        for _ in range(n_cases):
            yield self.dist_case(rng)
        # ---- variable lists in arbitrary (not index) order, `about` left out, every mss entry point
        for _ in range(48 if tier == 'quick' else 700):
            c = self.order_case(rng, self.dist_case(rng))
            yield self.bound_cost(c)
        # ---- sequences of evaluations in one process: the case's evaluation is preceded by calls of the property's
        # entry points on other presentations (default Cartesian sample space / dense / pruned) of the same distribution
        for _ in range(44 if tier == 'quick' else 800):
            c = self.dist_case(rng)
            if rng.random() < 0.6:
                c['kind'] = rng.choice(['meet', 'common', 'latsig'])
                if c['kind'] != 'latsig':
                    c['extra'] = []
            if rng.random() < 0.25:
                c = self.order_case(rng, c, keep_kind=True)
            c['prelude'] = self.gen_prelude(rng, c)
            yield self.bound_cost(c)
        # ---- (added after the streams above so that their cases stay the same) families that separate every point: all
        # atoms are singletons, the class on which atom_set(method=1) is judged
        for _ in range(10 if tier == 'quick' else 200):
            m = rng.randint(1, 5)
            X = sorted(rng.sample(range(12), m))
            how = rng.choice(['singletons', 'prefixes', 'bits'])
            if how == 'singletons':
                C = [[x] for x in X[:rng.choice([m, m, max(1, m - 1)])]]
            elif how == 'prefixes':
                C = [X[:k] for k in range(1, m + 1)]
            else:
                C = [c for c in ([x for i, x in enumerate(X) if (i >> b) & 1] for b in range(3)) if c] or [[X[0]]]
            rng.shuffle(C)
            yield {'kind': 'sigalg', 'style': 'separating', 'C': C, 'X': X if rng.random() < 0.5 else None,
                   'drop': rng.randrange(64), 'klass': 'tuple', 'n': 0, 'names': False, 'idx': 0, 'outs': []}
        # ---- info_trim on the presentations with a Cartesian sample space (as constructed / dense with stored zeros;
        # the result then gets the Cartesian product of its alphabets as sample space) and with `rvs` left out
        for _ in range(24 if tier == 'quick' else 400):
            c = self.dist_case(rng)
            c['kind'], c['extra'] = 'trim', []
            c['pres'] = rng.choice(['default', 'default', 'dense', 'pruned'])
            c['rvs_given'] = rng.random() < 0.6
            yield c

    @staticmethod
    def bound_cost(c):
        # functional_common_information enumerates the partitions of the outcomes (20 s for 8 of them): in the added
        # streams the common informations run on at most 6 outcomes, larger supports get the meet (which includes K)
        if c['kind'] == 'common' and len(c['outs']) > 6:
            c['kind'] = 'meet'
        return c

    def dist_case(self, rng):
        n = rng.choice([2, 3, 3])
        style = rng.choice(['block', 'function', 'full', 'sparse', 'giant'])
        a = rng.choice([2, 3])
        full = [list(o) for o in itertools.product(range(a), repeat=n)]
        if style == 'block':
            # two blocks of symbols that never mix
            lo = [o for o in itertools.product(range(2), repeat=n)]
            hi = [tuple(x + 2 for x in o) for o in itertools.product(range(2), repeat=n)]
            pool = [list(o) for o in lo + hi]
            outs = rng.sample(pool, rng.randint(3, min(8, len(pool))))
        elif style == 'function':
            outs = []
            f = {x: rng.randrange(a) for x in range(a)}
            for o in full:
                if o[-1] == f[o[0]]:
                    outs.append(o)
            outs = outs[:8]
        elif style == 'giant':
            outs = [[x] * n for x in range(a)]
        elif style == 'full':
            outs = full[:8]
        else:
            outs = rng.sample(full, rng.randint(2, min(8, len(full))))
        pv, _ = gen.rand_prob_vector(rng, len(outs), rng.choice(['small', 'uneven', 'dyadic']))
        keep = [(o, p) for o, p in zip(outs, pv) if p > 0]
        if len(keep) < 2:
            keep = [(o, Fraction(1, len(outs))) for o in outs]
        tot = sum(p for _, p in keep)
        outs = [o for o, _ in keep]
        pmf = [p / tot for _, p in keep]
        kind = rng.choice(['join', 'meet', 'meet', 'mss', 'common', 'latsig', 'latsig', 'trim'])
        vars_ = list(range(n))
        if n == 2:
            groups = rng.choice([[[0], [1]], [[0], [1]], [[1], [0]]])
        else:
            groups = rng.choice([[[0], [1]], [[0], [1], [2]], [[0, 1], [2]], [[0], [1, 2]], [[0, 1], [1, 2]],
                                 [[1], [0]], [[2], [0]], [[2], [0, 1]], [[1, 2], [0]], [[2], [1], [0]], [[1, 0], [2]]])
        cgroups = rng.choice(['singletons', 'given'])
        if kind == 'common' and n == 3 and rng.random() < 0.6:
            # two of the three variables: the left-out one must not influence K, F, M
            groups, cgroups = rng.choice([[[0], [1]], [[0], [2]], [[1], [2]]]), 'given'
        return {'klass': rng.choice(['str', 'tuple']), 'n': n, 'outs': outs, 'pmf': [str(p) for p in pmf],
               'style': style, 'kind': kind, 'groups': groups, 'idx': rng.choice([-1] + list(range(n + 1))),
               'names': rng.random() < 0.3, 'rvs': [0] if n == 2 else rng.choice([[0], [0, 1]]),
               'about': [n - 1], 'cgroups': cgroups,
               # latsig: the sample space may hold outcomes outside the support (the sigma-algebras partition the whole space)
               'extra': ([o for o in rng.sample(full, min(len(full), 3)) if o not in outs][:rng.randint(0, 2)]
                         if kind == 'latsig' and len(outs) <= 6 else [])}

    ALL_GROUPS = {2: [[[0], [1]], [[1], [0]]],
                  3: [[[0], [1]], [[0], [1], [2]], [[0, 1], [2]], [[0], [1, 2]], [[0, 1], [1, 2]], [[1], [0]], [[2], [0]],
                      [[2], [0, 1]], [[1, 2], [0]], [[2], [1], [0]], [[1, 0], [2]], [[0, 2], [1]], [[2, 1], [0]]]}

    def order_case(self, rng, c, keep_kind=False):
        """The variable lists of the case in arbitrary order: a group of variables and the variables it is a statistic
        about (any disjoint non-empty subsets, or `about` left out = all the other variables), the variables inside
        every group and the groups themselves shuffled."""
        n = c['n']
        if not keep_kind:
            c['kind'] = rng.choice(['mss', 'mss', 'mss', 'mss', 'join', 'meet', 'common'])
            c['extra'] = []
        vs = list(range(n))
        rng.shuffle(vs)
        k = n - 1 if rng.random() < 0.6 else rng.randint(1, n - 1)
        rvs, rest = vs[:k], vs[k:]
        if k > 1 and rvs == sorted(rvs) and rng.random() < 0.5:
            rvs = rvs[::-1]
        c['rvs'] = rvs
        c['about'] = None if rng.random() < 0.25 else rest[:rng.randint(1, len(rest))]
        groups = [list(g) for g in c['groups']]
        for g in groups:
            rng.shuffle(g)
        rng.shuffle(groups)
        c['groups'] = groups
        c['order'] = True
        return c

    def gen_prelude(self, rng, c):
        """One or two calls of the property's entry points made before the case's own evaluation, on some presentation of
        the same joint distribution. dit's sigma-algebra code is exponential in the number of atoms of the sample space,
        so on the Cartesian presentations only calls with at most 9 atoms per generated sigma-algebra are chosen."""
        n, outs = c['n'], c['outs']
        sizes = [len(set(o[i] for o in outs)) for i in range(n)]

        def atoms(g):
            k = 1
            for i in set(g):
                k *= sizes[i]
            return k
        steps = []
        for _ in range(rng.choice([1, 1, 2])):
            pres = rng.choice(['default', 'default', 'default', 'dense', 'pruned'])
            groups = c['groups'] if rng.random() < 0.7 else rng.choice(self.ALL_GROUPS[n])
            small = pres == 'pruned'
            ops = ['gk', 'insert_mss', 'mss']
            # (a dense distribution stores outcomes whose x has probability zero; insert_mss / info_trim used to raise
            # KeyError on them - '000','333','232' made dense, X = [0, 1], Y = [2] - repaired, see KNOWN_FINDINGS.txt)
            if small or max(atoms(g) for g in groups) <= 9:
                ops += ['insert_meet', 'insert_meet', 'insert_meet', 'meet', 'meet']
            if small or atoms(sum(groups, [])) <= 9:
                ops += ['insert_join', 'insert_join', 'join']
            op = rng.choice(ops)
            step = {'op': op, 'pres': pres, 'idx': rng.choice([-1] + list(range(n + 1)))}
            if op in ('insert_mss', 'mss'):
                about = c['about'] if c['about'] is None or not set(c['about']) & set(c['rvs']) else None
                step['rvs'], step['about'] = c['rvs'], about
            else:
                step['groups'] = groups
            steps.append(step)
        return steps

    def shrink(self, case):
        return []

    def present(self, case, pres):
        """The case's joint distribution in one of dit's presentations: 'pruned' (sample space = support, what every
        main evaluation uses), 'default' (as constructed: Cartesian product of the alphabets) or 'dense' (the Cartesian
        one with the zero-probability outcomes stored)."""
        dit = import_dit()
        klass = case['klass']
        outs = [gen.to_py(o, klass) for o in case['outs']]
        pm = [float(Fraction(p)) for p in case['pmf']]
        if pres == 'pruned':
            d = dit.Distribution(outs, pm, sample_space=outs)
        else:
            d = dit.Distribution(outs, pm)
            if pres == 'dense':
                d.make_dense()
        if case['names']:
            d.set_rv_names('XYZ'[:case['n']])
        return d

    def build(self, case):
        return self.present(case, 'pruned')

    def run(self, case, drv):
        r = core.Result()
        r.site = 'C16.' + case['kind']
        r.features = ['kind=%s' % case['kind'], 'style=%s' % case['style'], 'n=%d' % case['n'], 'names=%s' % case['names'],
                      'idx=%s' % case['idx']]
        prelude = case.get('prelude') or []
        told = ''
        if prelude:
            told = ' [after ' + '; '.join(self.step_name(s) for s in prelude) + ' in the same process]'
            r.features.append('prelude=%d' % len(prelude))
            r.features += ['prelude:%s@%s' % (s['op'], s['pres']) for s in prelude]
        if case.get('order'):
            r.features.append('order=shuffled')
        stage = 'prelude'
        # dit's sigma-algebra code is exponential in the number of atoms it is handed; a case that does not finish within
        # its budget (normal: well under 2 s, the common informations up to 25 s) is dropped and counted, never reported
        budget = 120 if case['kind'] == 'common' else 20
        drv = _Untimed(drv)
        old_handler = signal.signal(signal.SIGALRM, _alarm)
        signal.setitimer(signal.ITIMER_REAL, budget)
        try:
            for s in prelude:
                stage = self.step_name(s)
                self.run_prelude(case, s, r)
                if r.oracle_fail:
                    r.site = 'C16.prelude.' + s['op']
                    break
            else:
                stage = case['kind']
                getattr(self, 'run_' + case['kind'])(case, drv, r)
        except core.CaseTimeout:
            r = core.Result()
            r.site = 'C16.' + case['kind']
            r.features = ['case-timeout']
            return r
        except core.DriverError:
            raise
        except Exception as e:  # noqa
            import traceback
            r.oracle_fail = '%s raised %s: %s' % (stage, type(e).__name__, str(e)[:160])
            r.detail = {'traceback': traceback.format_exc()[-700:]}
            if stage != case['kind']:
                r.site = 'C16.prelude.' + stage.split('(')[0]
        finally:
            signal.setitimer(signal.ITIMER_REAL, 0)
            signal.signal(signal.SIGALRM, old_handler)
        if r.oracle_fail and told:
            r.oracle_fail += told
        if r.mismatch and told:
            r.mismatch += told
        return r

    @staticmethod
    def step_name(s):
        return '%s(%s) on the %s presentation' % (s['op'], s['groups'] if 'groups' in s else '%s about %s' % (s['rvs'], s['about']),
                                                  s['pres'])

    def run_prelude(self, case, s, r):
        """A call that precedes the case's evaluation. Its own result is judged by the clauses of the statement that do
        not depend on the sample space: the join and the sufficient statistic live on the support, gk_common_information
        prunes by itself, every insertion preserves the old variables, the meet is a function of every group."""
        import_dit()
        from dit.algorithms import lattice as L
        from dit.algorithms.minimal_sufficient_statistic import insert_mss, mss
        from dit.multivariate import gk_common_information
        d = self.present(case, s['pres'])
        op, n, klass = s['op'], case['n'], case['klass']
        name = self.step_name(s)
        src = {tuple(o): Fraction(p) for o, p in zip(case['outs'], case['pmf'])}
        close = lambda got, want: len(got) == len(want) and all(abs(a - b) <= 1e-9 for a, b in zip(sorted(got), sorted(want)))
        pos = lambda sd: [float(p) for p in sd.pmf if float(p) > 1e-12]
        if op in ('gk', 'join', 'meet', 'insert_join', 'insert_meet'):
            groups = s['groups']
            g = [self.nm(case, x) for x in groups]
            U = sorted(set(sum(groups, [])))
        else:
            X = sorted(s['rvs'])
            Y = sorted(s['about']) if s['about'] is not None else sorted(set(range(n)) - set(X))
            xa = (self.nm(case, s['rvs']), None if s['about'] is None else self.nm(case, s['about']))
        if op == 'gk':
            K = float(gk_common_information(d, g))
            comp = self.components([list(o) for o in case['outs']], groups)
            ref = -sum(m * math.log2(m) for m in [float(sum(src[tuple(o)] for o in c)) for c in comp] if m > 0)
            if abs(K - ref) > 1e-9:
                r.oracle_fail = '%s: gk_common_information %r, entropy of the connected components of the support %r' % (name, K, ref)
            return
        if op in ('join', 'meet'):
            sd = getattr(L, op)(d, g)
            got = pos(sd)
            if abs(sum(got) - 1) > 1e-9:
                r.oracle_fail = '%s: the probabilities %s do not sum to one' % (name, got)
            if op == 'join':
                m = {}
                for o, p in src.items():
                    k = tuple(o[i] for i in U)
                    m[k] = m.get(k, 0) + p
                if not close(got, [float(v) for v in m.values()]):
                    r.oracle_fail = '%s: probabilities %s, the classes of agreement on every group have %s' % (
                        name, sorted(got), sorted(float(v) for v in m.values()))
            return
        if op == 'mss':
            sd = mss(d, xa[0], xa[1])
            ref = self.mss_ref(case, X, Y)
            if ref is not None:
                want = [float(sum(src[o] for o in c)) for c in ref]
                if not close(pos(sd), want):
                    r.oracle_fail = '%s: probabilities %s, the classes of equal P(Y|x) have %s' % (name, sorted(pos(sd)), sorted(want))
            return
        if op == 'insert_mss':
            d2 = insert_mss(d, s['idx'], xa[0], xa[1])
        else:
            d2 = getattr(L, op)(d, s['idx'], g)
        idx = n if s['idx'] == -1 else s['idx']
        rows = [(list(o), float(p)) for o, p in zip(d2.outcomes, d2.pmf) if float(p) > 1e-12]
        old = {}
        for o, p in rows:
            rest = o[:idx] + o[idx + 1:]
            ro = tuple(gen.from_py(rest if klass != 'str' else ''.join(rest), klass))
            old[ro] = old.get(ro, 0.0) + p
        if set(old) != set(src) or any(abs(old[k] - float(src[k])) > 1e-12 for k in src):
            r.oracle_fail = '%s: the joint distribution of the original variables changed' % name
            return
        sh = lambda G: sorted(set(i if i < idx else i + 1 for i in G))
        if op == 'insert_join':
            hn, hu, hb = self.H(rows, [idx]), self.H(rows, sh(U)), self.H(rows, sh(U) + [idx])
            if abs(hb - hu) > 1e-9 or abs(hb - hn) > 1e-9:
                r.oracle_fail = '%s: H(new|groups) = %r, H(groups|new) = %r (both must vanish)' % (name, hb - hu, hb - hn)
        elif op == 'insert_meet':
            for x in groups:
                if abs(self.H(rows, sh(x) + [idx]) - self.H(rows, sh(x))) > 1e-9:
                    r.oracle_fail = '%s: the meet is not a function of the group %s' % (name, x)
                    return
        else:
            if abs(self.H(rows, sh(X) + [idx]) - self.H(rows, sh(X))) > 1e-9:
                r.oracle_fail = '%s: the sufficient statistic is not a function of X' % name
                return
            mi = lambda A, B: self.H(rows, A) + self.H(rows, B) - self.H(rows, sorted(set(A + B)))
            if abs(mi([idx], sh(Y)) - mi(sh(X), sh(Y))) > 1e-9:
                r.oracle_fail = '%s: I(mss:Y) = %r but I(X:Y) = %r' % (name, mi([idx], sh(Y)), mi(sh(X), sh(Y)))

    def mss_ref(self, case, X, Y):
        """The classes of x with equal P(Y|x), from the definition with exact rationals, as lists of outcomes of the
        support. None when two unequal conditional rows are closer than 1e-6 (dit compares rows approximately)."""
        px, pxy = {}, {}
        for o, p in zip(case['outs'], case['pmf']):
            x, y = tuple(o[i] for i in X), tuple(o[i] for i in Y)
            px[x] = px.get(x, 0) + Fraction(p)
            pxy[x, y] = pxy.get((x, y), 0) + Fraction(p)
        ys = sorted(set(y for _, y in pxy))
        row = {x: tuple(pxy.get((x, y), Fraction(0)) / px[x] for y in ys) for x in px}
        rows = sorted(set(row.values()))
        for a, b in itertools.combinations(rows, 2):
            if max(abs(u - v) for u, v in zip(a, b)) < Fraction(1, 10 ** 6):
                return None
        cl = {}
        for o in case['outs']:
            cl.setdefault(row[tuple(o[i] for i in X)], []).append(tuple(o))
        return [sorted(c) for c in cl.values()]

    # helpers ----------------------------------------------------------------
    def H(self, rows, idx):
        m = {}
        for o, p in rows:
            k = tuple(o[i] for i in idx)
            m[k] = m.get(k, 0.0) + p
        return -sum(p * math.log2(p) for p in m.values() if p > 0)

    def nm(self, case, g):
        return ['XYZ'[i] for i in g] if case['names'] else list(g)

    def check_insertion(self, case, d2, classes_model, r, what):
        """d2: distribution with one inserted variable; compare its partition with the model's and
        check preservation of the old joint."""
        klass = case['klass']
        n = case['n']
        idx = n if case['idx'] == -1 else case['idx']
        part = {}
        old = {}
        for o, p in zip(d2.outcomes, d2.pmf):
            o = list(o)
            lab = o[idx]
            rest = o[:idx] + o[idx + 1:]
            ro = tuple(gen.from_py(gen.to_py(gen.from_py(rest, klass), klass), klass)) if False else tuple(gen.from_py(rest if klass != 'str' else ''.join(rest), klass))
            part.setdefault(lab, set()).add(ro)
            old[ro] = old.get(ro, 0.0) + float(p)
        got = set(frozenset(v) for v in part.values())
        want = set(frozenset(tuple(o) for o in c) for c in classes_model)
        r.nontrivial = len(case['outs']) >= 4 and len(want) >= 2
        r.detail = {'impl_classes': sorted(sorted(map(list, c)) for c in got), 'model_classes': classes_model}
        if got != want:
            r.mismatch = '%s partition: impl %s model %s' % (what, r.detail['impl_classes'], classes_model)
        src = {tuple(o): float(Fraction(p)) for o, p in zip(case['outs'], case['pmf'])}
        if set(old) != set(src) or any(abs(old[k] - src[k]) > 1e-12 for k in src):
            r.oracle_fail = 'the joint distribution of the original variables changed under %s' % what
        return idx, part

    # sigma-algebras ----------------------------------------------------------
    @staticmethod
    def fam(F):
        return sorted(sorted(x) for x in F)

    def run_sigalg(self, case, drv, r):
        from dit.math.sigmaalgebra import sigma_algebra, is_sigma_algebra, is_sigma_algebra__brute, atom_set
        C, X = case['C'], case['X']
        r.features = ['kind=sigalg', 'style=%s' % case['style'], 'X=%s' % ('given' if X is not None else 'union')]
        Cf = set(frozenset(c) for c in C)
        F = sigma_algebra(Cf, None if X is None else frozenset(X))
        got = self.fam(F)
        want = self.fam(drv.call('sigalg', [C, X]))
        r.nontrivial = len(got) >= 4
        r.detail = {'impl': got, 'model': want}
        if got != want:
            r.mismatch = 'sigma_algebra(%s, %s): impl %s model %s' % (C, X, got, want)
            return
        U = sorted(set().union(*map(set, C))) if X is None else X
        # the statement-level facts about the result, on the real objects
        Fs = set(F)
        if frozenset() not in Fs or frozenset(U) not in Fs or not all(frozenset(c) in Fs for c in C):
            r.oracle_fail = 'sigma_algebra(%s) does not contain the empty set, the whole set and the generators' % (C,)
            return
        if any(frozenset(U) - a not in Fs for a in Fs) or any(a | b not in Fs for a in Fs for b in Fs):
            r.oracle_fail = 'sigma_algebra(%s) is not closed under complement and union' % (C,)
            return
        # verdicts on the generated algebra and on a damaged copy
        fams = [('generated', got)]
        dmg = [x for i, x in enumerate(got) if i != case['drop'] % len(got)]
        if dmg:
            fams.append(('one member removed', dmg))
        if case['style'] == 'almost' and len(C) >= 1:
            fams.append(('generators only', self.fam(Cf | {frozenset(), frozenset(U)})))
        for label, fam in fams:
            Ff = set(frozenset(x) for x in fam)
            if not Ff:
                continue
            Xarg = None if X is None else frozenset(X)
            if Xarg is not None and any(not a <= Xarg for a in Ff):
                continue
            v = [bool(is_sigma_algebra(Ff, Xarg)), bool(is_sigma_algebra__brute(Ff, Xarg))]
            Xm = X if X is not None else None
            w = drv.call('issa', [fam, Xm])
            if v != w:
                r.mismatch = 'is_sigma_algebra / __brute on %s (%s): impl %s model %s' % (fam, label, v, w)
                return
            if label == 'generated' and v != [True, True]:
                r.oracle_fail = 'the generated sigma-algebra %s is not recognised as one: %s' % (fam, v)
                return
            if X is None and v[0] != v[1] and sorted(set().union(*map(set, fam))) == sorted(U):
                r.oracle_fail = 'is_sigma_algebra and is_sigma_algebra__brute disagree on %s: %s' % (fam, v)
                return
            a_impl = self.fam(atom_set(Ff))
            a_model = self.fam(drv.call('atoms', [fam]))
            if a_impl != a_model:
                r.mismatch = 'atom_set(%s): impl %s model %s' % (fam, a_impl, a_model)
                return
            # the option method=1 (enumeration of the subsets of every member) must name the same atoms. Reference from the
            # definition: the non-empty members with no non-empty proper subset among the members.
            # NOT JUDGED on families that have an atom of two or more elements: there dit is wrong on the unchanged tree
            # (`sorted(powerset(cet))[1:-1]` is meant to drop the empty and the full subset, but after sorting the last
            # tuple is not the full one, so the member itself is found "inside" itself and is rejected - e.g.
            # atom_set(sigma_algebra({{1,2},{3}}), method=1) = {{3}} instead of {{1,2},{3}}; the outcome even depends on
            # the iteration order of the frozenset). Reported, not repaired; the call is still made there (it must not raise).
            ref_atoms = self.fam(a for a in Ff if a and not any(b and b < a for b in Ff))
            a_one = self.fam(atom_set(Ff, method=1))
            if all(len(a) == 1 for a in ref_atoms):
                r.features.append('atom_set:method=1')
                if a_one != ref_atoms:
                    r.oracle_fail = ('atom_set(%s, method=1) = %s, but the non-empty members without a non-empty proper subset '
                                     'among the members are %s (method=2 gives %s)' % (fam, a_one, ref_atoms, a_impl))
                    return
            else:
                r.features.append('atom_set:method=1:not-judged(atom of 2+ elements)')
        # atoms of the generated algebra: a partition of the whole set into blocks of identical membership
        atoms = atom_set(set(F))
        if sorted(x for a in atoms for x in a) != sorted(U):
            r.oracle_fail = 'the atoms %s of sigma_algebra(%s) do not partition %s' % (self.fam(atoms), C, U)
            return
        sig = lambda x: tuple(x in c for c in C)
        if any(len(set(sig(x) for x in a)) != 1 for a in atoms) or len(set(sig(next(iter(a))) for a in atoms)) != len(atoms):
            r.oracle_fail = 'the atoms %s are not the classes of identical membership in %s' % (self.fam(atoms), C)

    def run_latsig(self, case, drv, r):
        dit = import_dit()
        from dit.algorithms.lattice import induced_sigalg, join_sigalg, meet_sigalg, join, meet
        from dit.math.sigmaalgebra import atom_set
        klass = case['klass']
        space = sorted(case['outs'] + case.get('extra', []))
        outs = [gen.to_py(o, klass) for o in case['outs']]
        d = dit.Distribution(outs, [float(Fraction(p)) for p in case['pmf']], sample_space=[gen.to_py(o, klass) for o in space])
        if case['names']:
            d.set_rv_names('XYZ'[:case['n']])
        groups = case['groups']
        back = lambda F: sorted(sorted(list(gen.from_py(o, klass)) for o in A) for A in F)
        r.nontrivial = len(space) >= 4
        for kind, f, arg in [('induced', induced_sigalg, None), ('join', join_sigalg, groups), ('meet', meet_sigalg, groups)]:
            if kind == 'induced':
                g = sorted(groups[0])
                F = f(d, self.nm(case, g))
                gm = [g]
            else:
                F = f(d, [self.nm(case, g) for g in groups])
                gm = groups
            got = back(F)
            want = sorted(sorted(A) for A in drv.call('latsig', [kind, space, gm]))
            if kind in ('join', 'meet'):
                # the statement on the real object, reference computed here from the definition: the atoms are the classes
                # of agreement on every group (join) / the connected components of "agree on some group" (meet) of the space
                if kind == 'join':
                    U = sorted(set(sum(gm, [])))
                    ref = {}
                    for o in space:
                        ref.setdefault(tuple(o[i] for i in U), []).append(list(o))
                    ref = sorted(sorted(c) for c in ref.values())
                else:
                    ref = sorted(sorted(c) for c in self.components(space, gm))
                at0 = back(atom_set(F))
                if at0 != ref:
                    r.oracle_fail = 'atoms of %s_sigalg%s %s are not the %s of the sample space %s' % (
                        kind, gm, at0, 'classes of agreement on every group' if kind == 'join' else 'connected components', ref)
                    if got != want:
                        r.mismatch = '%s_sigalg%s over the space %s: impl %d members, model %d members' % (kind, gm, space, len(got), len(want))
                    return
            if got != want:
                r.mismatch = '%s_sigalg%s over the space %s: impl %d members, model %d members; impl-only %s model-only %s' % (
                    kind, gm, space, len(got), len(want), [x for x in got if x not in want][:3], [x for x in want if x not in got][:3])
                return
            at = back(atom_set(F))
            atm = sorted(sorted(A) for A in drv.call('latatoms', [kind, space, gm]))
            cl = None
            if kind in ('join', 'meet'):
                cl = sorted(sorted(A) for A in drv.call('classes', [kind, space, gm]))
            r.detail = {'kind': kind, 'atoms_impl': at, 'atoms_model': atm, 'classes_model': cl}
            if at != atm:
                r.mismatch = 'atoms of %s_sigalg%s: impl %s model %s' % (kind, gm, at, atm)
                return
            if cl is not None and at != cl:
                # the two routes (sigma-algebra, partition) must agree: Props/C16Sigma proves it for the model
                r.oracle_fail = 'atoms of %s_sigalg%s %s are not the %s of the sample space %s' % (
                    kind, gm, at, 'classes of agreement on every group' if kind == 'join' else 'connected components', cl)
                return
        # the scalar distributions of join / meet: probabilities of the atoms
        ps = {tuple(o): float(Fraction(p)) for o, p in zip(case['outs'], case['pmf'])}
        for kind, f in (('join', join), ('meet', meet)):
            sd = f(d, [self.nm(case, g) for g in groups])
            cl = drv.call('classes', [kind, space, groups])
            want = sorted(sum(ps.get(tuple(o), 0.0) for o in A) for A in cl)
            want = [w for w in want if w > 1e-12]
            got = sorted(float(p) for p in sd.pmf if float(p) > 1e-12)
            if len(got) != len(want) or any(abs(a - b) > 1e-9 for a, b in zip(got, want)):
                r.oracle_fail = 'dit.algorithms.lattice.%s%s has probabilities %s, the classes have %s' % (kind, groups, got, want)
                return

    def run_trim(self, case, drv, r):
        dit = import_dit()
        from dit.algorithms.minimal_sufficient_statistic import info_trim
        # the presentation of the argument: 'pruned' (sample space = support), or one with a Cartesian sample space
        # ('default' as constructed, 'dense' with the zero-probability outcomes stored) - info_trim then gives its result
        # the Cartesian product of the result's alphabets as sample space; `rvs` left out means every variable on its own
        pres = case.get('pres', 'pruned')
        d = self.present(case, pres)
        n = case['n']
        groups = [[i] for i in range(n)]
        if case.get('rvs_given', True):
            dt = info_trim(d, [self.nm(case, g) for g in groups])
        else:
            dt = info_trim(d)
        if 'pres' in case:
            r.features += ['trim:pres=%s' % pres, 'trim:rvs=%s' % ('given' if case.get('rvs_given', True) else 'None')]
        tab = [[o, q(Fraction(p))] for o, p in zip(case['outs'], case['pmf'])]
        labels = []
        for gi in groups:
            cl = drv.call('mss', [tab, gi, sorted(set(range(n)) - set(gi))])
            labels.append({tuple(o): k for k, c in enumerate(cl) for o in c})
        joint = {}
        for o, p in zip(case['outs'], case['pmf']):
            key = tuple(l[tuple(o)] for l in labels)
            joint[key] = joint.get(key, 0.0) + float(Fraction(p))
        r.nontrivial = len(case['outs']) >= 4 and len(joint) < len(case['outs'])
        got = {tuple(o): float(p) for o, p in zip(dt.outcomes, dt.pmf) if float(p) > 1e-12}
        r.detail = {'impl': sorted(got.values()), 'model': sorted(joint.values())}
        if dt.outcome_length() != n:
            r.oracle_fail = 'info_trim returned %d variables for %d' % (dt.outcome_length(), n)
            return
        # equal up to renaming the symbols of each variable: same pmf multiset and the same entropy of every subset
        if len(got) != len(joint) or any(abs(a - b) > 1e-9 for a, b in zip(sorted(got.values()), sorted(joint.values()))):
            r.mismatch = 'info_trim: probabilities %s, joint law of the model\'s sufficient statistics %s' % (sorted(got.values()), sorted(joint.values()))
            return
        rows_i = [(list(o), p) for o, p in got.items()]
        rows_m = [(list(o), p) for o, p in joint.items()]
        rows_s = [(list(o), float(Fraction(p))) for o, p in zip(case['outs'], case['pmf'])]
        for k in range(1, n + 1):
            for S in itertools.combinations(range(n), k):
                if abs(self.H(rows_i, S) - self.H(rows_m, S)) > 1e-9:
                    r.mismatch = 'info_trim: H%s = %r, model %r' % (list(S), self.H(rows_i, S), self.H(rows_m, S))
                    return
        mi = lambda rows, a, b: self.H(rows, [a]) + self.H(rows, [b]) - self.H(rows, [a, b])
        for a, b in itertools.combinations(range(n), 2):
            if abs(mi(rows_i, a, b) - mi(rows_s, a, b)) > 1e-9:
                r.oracle_fail = 'info_trim changed I(X%d:X%d): %r -> %r' % (a, b, mi(rows_s, a, b), mi(rows_i, a, b))
                return
        # the result as an object (its sample space is rebuilt by info_trim when the argument's was Cartesian): its stored
        # outcomes belong to its own sample space, and dit's own mutual informations, which marginalise through that
        # sample space, are those of the source
        try:
            dt.validate()
        except Exception as e:  # noqa
            r.oracle_fail = 'the result of info_trim on the %s presentation is not a valid distribution: %s: %s' % (
                pres, type(e).__name__, str(e)[:120])
            return
        space = set(dt.sample_space())
        if any(o not in space for o in dt.outcomes):
            r.oracle_fail = 'the result of info_trim on the %s presentation stores outcomes outside its sample space' % pres
            return
        from dit.shannon import mutual_information
        for a, b in itertools.combinations(range(n), 2):
            v = float(mutual_information(dt, [a], [b], rv_mode='indices'))
            if abs(v - mi(rows_s, a, b)) > 1e-9:
                r.oracle_fail = 'info_trim on the %s presentation: dit computes I(X%d:X%d) = %r on the result, %r in the source' % (
                    pres, a, b, v, mi(rows_s, a, b))
                return

    def run_join(self, case, drv, r):
        dit = import_dit()
        from dit.algorithms.lattice import insert_join
        d = self.build(case)
        groups = case['groups']
        d2 = insert_join(d, case['idx'], [self.nm(case, g) for g in groups])
        classes = drv.call('classes', ['join', case['outs'], groups])
        idx, part = self.check_insertion(case, d2, classes, r, 'insert_join')
        if r.oracle_fail:
            return
        rows = [(list(o), float(p)) for o, p in zip(d2.outcomes, d2.pmf)]
        U = sorted(set(i if i < idx else i + 1 for g in groups for i in g))
        hn, hu, hboth = self.H(rows, [idx]), self.H(rows, U), self.H(rows, U + [idx])
        if abs(hboth - hu) > 1e-9 or abs(hboth - hn) > 1e-9:
            r.oracle_fail = 'join: H(new|groups) = %r, H(groups|new) = %r (both must vanish)' % (hboth - hu, hboth - hn)

    def run_meet(self, case, drv, r):
        dit = import_dit()
        from dit.algorithms.lattice import insert_meet
        from dit.multivariate import gk_common_information
        d = self.build(case)
        groups = case['groups']
        d2 = insert_meet(d, case['idx'], [self.nm(case, g) for g in groups])
        classes = drv.call('classes', ['meet', case['outs'], groups])
        idx, part = self.check_insertion(case, d2, classes, r, 'insert_meet')
        if r.oracle_fail:
            return
        rows = [(list(o), float(p)) for o, p in zip(d2.outcomes, d2.pmf)]
        for g in groups:
            G = [i if i < idx else i + 1 for i in g]
            if abs(self.H(rows, G + [idx]) - self.H(rows, G)) > 1e-9:
                r.oracle_fail = 'meet is not a function of the group %s' % g
                return
        # finest: the reference components of "agree on some group"
        src = [list(o) for o in case['outs']]
        comp = self.components(src, groups)
        want = set(frozenset(map(tuple, c)) for c in comp)
        got = set(frozenset(v) for v in part.values())
        if got != want:
            r.oracle_fail = 'meet classes %s are not the connected components of the support %s' % (
                sorted(sorted(map(list, c)) for c in got), sorted(sorted(map(list, c)) for c in want))
            return
        K = float(gk_common_information(d, [self.nm(case, g) for g in groups]))
        ps = {tuple(o): float(Fraction(p)) for o, p in zip(case['outs'], case['pmf'])}
        ref = -sum(m * math.log2(m) for m in [sum(ps[tuple(o)] for o in c) for c in comp] if m > 0)
        if abs(K - ref) > 1e-9:
            r.oracle_fail = 'gk_common_information %r, entropy of the connected components %r' % (K, ref)
            return
        # the same distribution held in a log base (sparse or dense): the common variable is the same function of the
        # outcomes, and its entropy comes in units of that base (C07: entropies scale by 1/log2 b)
        for b in ('e', 2, 10, 0.5):
            for dense in (False, True):
                x = d.copy(base=b)
                if dense:
                    x.make_dense()
                try:
                    Kb = float(gk_common_information(x, [self.nm(case, g) for g in groups]))
                except Exception as e:  # noqa
                    r.oracle_fail = ('gk_common_information raised %s: %s on the same distribution held in base %r (%s)'
                                     % (type(e).__name__, str(e)[:120], b, 'dense' if dense else 'sparse'))
                    return
                unit = 1.0 if b == 2 else (math.log2(math.e) if b == 'e' else math.log2(b))
                if abs(Kb * unit - ref) > 1e-9 * max(1.0, abs(unit)):
                    r.oracle_fail = ('gk_common_information of the same distribution held in base %r (%s) is %r = %r bits, '
                                     'the entropy of the connected components is %r bits' % (b, 'dense' if dense else 'sparse', Kb, Kb * unit, ref))
                    return
        r.features.append('K-in-log-bases')

    @staticmethod
    def components(rows, groups):
        comps = []
        left = [list(o) for o in rows]
        while left:
            cur = [left.pop(0)]
            changed = True
            while changed:
                changed = False
                for o in list(left):
                    if any(any([o[i] for i in g] == [c[i] for i in g] for g in groups) for c in cur):
                        cur.append(o)
                        left.remove(o)
                        changed = True
            comps.append(cur)
        return comps

    def run_mss(self, case, drv, r):
        dit = import_dit()
        from dit.algorithms.minimal_sufficient_statistic import insert_mss, mss, mss_sigalg
        from dit.math.sigmaalgebra import atom_set
        d = self.build(case)
        rvs, about = case['rvs'], case['about']
        if about is not None and set(rvs) & set(about):
            return
        # the lists are passed in the case's order; the statistic does not depend on it
        Xs = sorted(rvs)
        Ys = sorted(about) if about is not None else sorted(set(range(case['n'])) - set(rvs))
        r.features.append('mss:|X|=%d,%s,about=%s' % (len(rvs), 'index-order' if rvs == Xs else 'other-order',
                                                       'None' if about is None else len(about)))
        ab = None if about is None else self.nm(case, about)
        d2 = insert_mss(d, case['idx'], self.nm(case, rvs), ab)
        tab = [[o, q(Fraction(p))] for o, p in zip(case['outs'], case['pmf'])]
        classes = drv.call('mss', [tab, Xs, Ys])
        idx, part = self.check_insertion(case, d2, classes, r, 'insert_mss')
        if r.oracle_fail:
            return
        rows = [(list(o), float(p)) for o, p in zip(d2.outcomes, d2.pmf)]
        sh = lambda g: [i if i < idx else i + 1 for i in g]
        X, Y = sh(Xs), sh(Ys)
        if abs(self.H(rows, X + [idx]) - self.H(rows, X)) > 1e-9:
            r.oracle_fail = 'the sufficient statistic is not a function of X'
            return
        mi = lambda A, B: self.H(rows, A) + self.H(rows, B) - self.H(rows, sorted(set(A + B)))
        if abs(mi([idx], Y) - mi(X, Y)) > 1e-9:
            r.oracle_fail = 'I(mss:Y) = %r but I(X:Y) = %r' % (mi([idx], Y), mi(X, Y))
            return
        # the cells are exactly the classes of x with equal P(Y|x): reference from the definition, exact rationals
        ref = self.mss_ref(case, Xs, Ys)
        if ref is None:
            return
        want = set(frozenset(c) for c in ref)
        got = set(frozenset(v) for v in part.values())
        show = lambda F: sorted(sorted(map(list, c)) for c in F)
        if got != want:
            r.oracle_fail = 'insert_mss(%s about %s): cells %s are not the classes of x with equal P(Y|x) %s' % (rvs, about, show(got), show(want))
            return
        # the other two entry points: the scalar distribution of the statistic and its sigma-algebra
        klass = case['klass']
        ps = {tuple(o): float(Fraction(p)) for o, p in zip(case['outs'], case['pmf'])}
        sd = mss(d, self.nm(case, rvs), ab)
        gotp = sorted(float(p) for p in sd.pmf if float(p) > 1e-12)
        wantp = sorted(sum(ps[o] for o in c) for c in ref)
        if len(gotp) != len(wantp) or any(abs(a - b) > 1e-9 for a, b in zip(gotp, wantp)):
            r.oracle_fail = 'mss(%s about %s) has probabilities %s, the classes of equal P(Y|x) have %s' % (rvs, about, gotp, wantp)
            return
        at = set(frozenset(tuple(gen.from_py(o, klass)) for o in A) for A in atom_set(mss_sigalg(d, self.nm(case, rvs), ab)))
        if at != want:
            r.oracle_fail = 'mss_sigalg(%s about %s): atoms %s are not the classes of x with equal P(Y|x) %s' % (rvs, about, show(at), show(want))

    def run_common(self, case, drv, r):
        dit = import_dit()
        import dit.multivariate as mv
        d = self.build(case)
        n = case['n']
        groups = [[i] for i in range(n)]
        cg = case['groups']
        if case.get('cgroups') == 'given' and len(set(sum(cg, []))) == len(sum(cg, [])):
            groups = cg                 # disjoint groups, possibly not covering every variable
        g = [self.nm(case, x) for x in groups]
        union = sorted(set(sum(groups, [])))
        r.features.append('groups=%s' % groups)
        r.nontrivial = len(case['outs']) >= 4
        K = float(mv.gk_common_information(d, g))
        J = float(mv.caekl_mutual_information(d, g))
        B = float(mv.dual_total_correlation(d, g))
        F = float(mv.functional_common_information(d, g))
        M = float(mv.mss_common_information(d, g))
        Hh = float(mv.entropy(d, self.nm(case, union)))
        vals = [('K', K), ('J', J), ('B', B), ('F', F), ('M', M), ('H', Hh)]
        r.detail = dict(vals)
        if len(case['outs']) <= 7:
            # F is the least entropy of a function of the outcomes that renders the groups conditionally independent:
            # the model takes the minimum over ALL set partitions of the outcomes (Core/SetPart.lean; Props/C16Fci proves
            # the enumeration complete), dit searches them by successive merges
            from canon import bits2f
            tabF = [[o, q(Fraction(p))] for o, p in zip(case['outs'], case['pmf']) if Fraction(p) > 0]
            mf = drv.call('fci', [tabF, groups])
            Fm = bits2f(mf[0])
            r.detail['F_model'] = Fm
            r.features.append('F-vs-exhaustive-minimum')
            if abs(F - Fm) > 1e-9:
                if F < Fm - 1e-9:
                    r.oracle_fail = ('functional_common_information = %r is below the least entropy %r of any function of the '
                                     'outcomes that renders the groups %s conditionally independent (%d of %d partitions are feasible)'
                                     % (F, Fm, groups, mf[1], mf[2]))
                else:
                    r.oracle_fail = ('functional_common_information = %r, but the partition %s of the outcomes renders the groups %s '
                                     'conditionally independent and has entropy %r' % (F, mf[3], groups, Fm))
                return
        for (a, x), (b, y) in zip(vals, vals[1:]):
            if x > y + 1e-8:
                r.oracle_fail = 'chain K <= J <= B <= F <= M <= H broken: %s = %r > %s = %r' % (a, x, b, y)
                return
        rows = [(list(o), float(Fraction(p))) for o, p in zip(case['outs'], case['pmf'])]
        # K: entropy of the connected components of the support (reference as in run_meet)
        comp = self.components([list(o) for o in case['outs']], groups)
        ps = {tuple(o): float(Fraction(p)) for o, p in zip(case['outs'], case['pmf'])}
        refK = -sum(m * math.log2(m) for m in [sum(ps[tuple(o)] for o in c) for c in comp] if m > 0)
        if abs(K - refK) > 1e-9:
            r.oracle_fail = 'gk_common_information %r, entropy of the connected components of the support %r' % (K, refK)
            return
        # M: entropy of the joint minimal sufficient statistic of each group ABOUT THE OTHER GROUPS
        # (reference through the model's classes)
        tab = [[o, q(Fraction(p))] for o, p in zip(case['outs'], case['pmf'])]
        labels = []
        for gi in groups:
            cl = drv.call('mss', [tab, gi, sorted(set(union) - set(gi))])
            lab = {}
            for k, c in enumerate(cl):
                for o in c:
                    lab[tuple(o)] = k
            labels.append(lab)
        joint = {}
        for o, p in rows:
            key = tuple(l[tuple(o)] for l in labels)
            joint[key] = joint.get(key, 0.0) + p
        refM = -sum(p * math.log2(p) for p in joint.values() if p > 0)
        if abs(M - refM) > 1e-9:
            r.mismatch = 'mss_common_information %r, entropy of the joint of the model\'s sufficient statistics %r' % (M, refM)
        # the values depend on the joint probabilities only: the default (Cartesian) sample space, stored zeros (dense)
        # and the marginal on the variables of the groups give the same K, F, M
        klass = case['klass']
        outs = [gen.to_py(o, klass) for o in case['outs']]
        pm = [float(Fraction(p)) for p in case['pmf']]
        variants = [('default sample space', dit.Distribution(outs, pm))]
        dn = dit.Distribution(outs, pm)
        dn.make_dense()
        variants.append(('dense with stored zeros', dn))
        for label, dv in variants:
            if case['names']:
                dv.set_rv_names('XYZ'[:n])
            for name, f, want in (('gk_common_information', mv.gk_common_information, K),
                                  ('mss_common_information', mv.mss_common_information, M),
                                  ('functional_common_information', mv.functional_common_information, F)):
                if name == 'functional_common_information' and len(dv.outcomes) > 12:
                    continue
                v = float(f(dv, g))
                if abs(v - want) > 1e-8:
                    r.oracle_fail = '%s = %r on the %s, %r on the pruned one' % (name, v, label, want)
                    return
        if len(union) < n:
            dm = d.marginal(self.nm(case, union))
            pos = {v: i for i, v in enumerate(union)}
            gm = [[pos[i] for i in x] for x in groups]
            if case['names']:
                gm = [[dm.get_rv_names()[i] for i in x] for x in gm]
            for name, f, want in (('gk_common_information', mv.gk_common_information, K),
                                  ('mss_common_information', mv.mss_common_information, M)):
                v = float(f(dm, gm))
                if abs(v - want) > 1e-8:
                    r.oracle_fail = '%s = %r on the marginal over the groups\' variables, %r on the full distribution' % (name, v, want)
                    return


PROP = C16()
