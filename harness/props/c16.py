"""
C16 — Meet, join, sufficient statistics and common informations are correct.
"""
import itertools
import math
from fractions import Fraction

import core
import gen
from driver import q
from env import import_dit


class C16(object):
    id = 'C16'
    rule = ("joint distributions with structured supports (block-diagonal, deterministic relations, full support, random "
            "sparse; at most 8 outcomes because dit's sigma-algebra code is exponential) over 2-3 variables with pruned "
            "sample spaces, str or tuple outcomes, named or not; all pairs / families of variable groups, insertion "
            "positions idx in {0..n, -1}; insert_join / insert_meet / insert_mss partitions vs the model's, conditional "
            "entropies in the returned distribution, preservation of the old variables' joint, K / F / M values vs "
            "references and the chain K <= J <= B <= F <= M <= H. Non-trivial = at least 4 outcomes and 2 classes")
    tolerances = {'entropies': 'atol 1e-9', 'chain': 'slack 1e-8', 'mss rows': 'generated conditional rows are equal or differ by >= 1e-3 (dit compares with is_approx_equal)'}
    exhaustive = {}

    def gen_sigalg(self, rng, tier):
        """Families of subsets of a small set: sigma_algebra / is_sigma_algebra(+__brute) / atom_set against Core/SigAlg.lean."""
        for _ in range(40 if tier == 'quick' else 1500):
            m = rng.randint(1, 6)
            X = sorted(rng.sample(range(12), m))
            style = rng.choice(['random', 'partition', 'chain', 'sigalg', 'almost'])
            if style == 'partition':
                lab = [rng.randrange(3) for _ in X]
                C = [[x for x, l in zip(X, lab) if l == k] for k in sorted(set(lab))]
            elif style == 'chain':
                C = [X[:k] for k in sorted(set(rng.randint(0, m) for _ in range(3)))]
            else:
                C = []
                for _ in range(rng.randint(1, 4)):
                    c = [x for x in X if rng.random() < 0.5]
                    if c not in C:
                        C.append(c)
            given_x = rng.random() < 0.5
            if given_x and rng.random() < 0.4:
                X = sorted(set(X) | set(rng.sample(range(12, 16), rng.randint(1, 2))))   # elements outside every set
            yield {'kind': 'sigalg', 'style': style, 'C': C, 'X': X if given_x else None,
                   'drop': rng.randrange(64), 'klass': 'tuple', 'n': 0, 'names': False, 'idx': 0, 'outs': []}

    def gen(self, rng, tier):
        for c in self.gen_sigalg(rng, tier):
            yield c
        n_cases = 110 if tier == 'quick' else 2000
        for _ in range(n_cases):
            n = rng.choice([2, 3, 3])
            style = rng.choice(['block', 'function', 'full', 'sparse', 'giant'])
            a = rng.choice([2, 3])
            full = [list(o) for o in itertools.product(range(a), repeat=n)]
            if style == 'block':
                # two blocks of symbols that never mix
                lo = [o for o in itertools.product(range(2), repeat=n)]
                hi = [tuple(x + 2 for x in o) for o in itertools.product(range(2), repeat=n)]
                pool = [list(o) for o in lo + hi]
                outs = rng.sample(pool, rng.randint(3, min(8, len(pool))))
            elif style == 'function':
                outs = []
                f = {x: rng.randrange(a) for x in range(a)}
                for o in full:
                    if o[-1] == f[o[0]]:
                        outs.append(o)
                outs = outs[:8]
            elif style == 'giant':
                outs = [[x] * n for x in range(a)]
            elif style == 'full':
                outs = full[:8]
            else:
                outs = rng.sample(full, rng.randint(2, min(8, len(full))))
            pv, _ = gen.rand_prob_vector(rng, len(outs), rng.choice(['small', 'uneven', 'dyadic']))
            keep = [(o, p) for o, p in zip(outs, pv) if p > 0]
            if len(keep) < 2:
                keep = [(o, Fraction(1, len(outs))) for o in outs]
            tot = sum(p for _, p in keep)
            outs = [o for o, _ in keep]
            pmf = [p / tot for _, p in keep]
            kind = rng.choice(['join', 'meet', 'meet', 'mss', 'common', 'latsig', 'latsig', 'trim'])
            vars_ = list(range(n))
            if n == 2:
                groups = rng.choice([[[0], [1]], [[0], [1]], [[1], [0]]])
            else:
                groups = rng.choice([[[0], [1]], [[0], [1], [2]], [[0, 1], [2]], [[0], [1, 2]], [[0, 1], [1, 2]],
                                     [[1], [0]], [[2], [0]], [[2], [0, 1]], [[1, 2], [0]], [[2], [1], [0]], [[1, 0], [2]]])
            cgroups = rng.choice(['singletons', 'given'])
            if kind == 'common' and n == 3 and rng.random() < 0.6:
                # two of the three variables: the left-out one must not influence K, F, M
                groups, cgroups = rng.choice([[[0], [1]], [[0], [2]], [[1], [2]]]), 'given'
            yield {'klass': rng.choice(['str', 'tuple']), 'n': n, 'outs': outs, 'pmf': [str(p) for p in pmf],
                   'style': style, 'kind': kind, 'groups': groups, 'idx': rng.choice([-1] + list(range(n + 1))),
                   'names': rng.random() < 0.3, 'rvs': [0] if n == 2 else rng.choice([[0], [0, 1]]),
                   'about': [n - 1], 'cgroups': cgroups,
                   # latsig: the sample space may hold outcomes outside the support (the sigma-algebras partition the whole space)
                   'extra': ([o for o in rng.sample(full, min(len(full), 3)) if o not in outs][:rng.randint(0, 2)]
                             if kind == 'latsig' and len(outs) <= 6 else [])}

    def shrink(self, case):
        return []

    def build(self, case):
        dit = import_dit()
        klass = case['klass']
        outs = [gen.to_py(o, klass) for o in case['outs']]
        d = dit.Distribution(outs, [float(Fraction(p)) for p in case['pmf']], sample_space=outs)
        if case['names']:
            d.set_rv_names('XYZ'[:case['n']])
        return d

    def run(self, case, drv):
        r = core.Result()
        r.site = 'C16.' + case['kind']
        r.features = ['kind=%s' % case['kind'], 'style=%s' % case['style'], 'n=%d' % case['n'], 'names=%s' % case['names'],
                      'idx=%s' % case['idx']]
        try:
            getattr(self, 'run_' + case['kind'])(case, drv, r)
        except core.DriverError:
            raise
        except Exception as e:  # noqa
            import traceback
            r.oracle_fail = '%s raised %s: %s' % (case['kind'], type(e).__name__, str(e)[:160])
            r.detail = {'traceback': traceback.format_exc()[-700:]}
        return r

    # helpers ----------------------------------------------------------------
    def H(self, rows, idx):
        m = {}
        for o, p in rows:
            k = tuple(o[i] for i in idx)
            m[k] = m.get(k, 0.0) + p
        return -sum(p * math.log2(p) for p in m.values() if p > 0)

    def nm(self, case, g):
        return ['XYZ'[i] for i in g] if case['names'] else list(g)

    def check_insertion(self, case, d2, classes_model, r, what):
        """d2: distribution with one inserted variable; compare its partition with the model's and
        check preservation of the old joint."""
        klass = case['klass']
        n = case['n']
        idx = n if case['idx'] == -1 else case['idx']
        part = {}
        old = {}
        for o, p in zip(d2.outcomes, d2.pmf):
            o = list(o)
            lab = o[idx]
            rest = o[:idx] + o[idx + 1:]
            ro = tuple(gen.from_py(gen.to_py(gen.from_py(rest, klass), klass), klass)) if False else tuple(gen.from_py(rest if klass != 'str' else ''.join(rest), klass))
            part.setdefault(lab, set()).add(ro)
            old[ro] = old.get(ro, 0.0) + float(p)
        got = set(frozenset(v) for v in part.values())
        want = set(frozenset(tuple(o) for o in c) for c in classes_model)
        r.nontrivial = len(case['outs']) >= 4 and len(want) >= 2
        r.detail = {'impl_classes': sorted(sorted(map(list, c)) for c in got), 'model_classes': classes_model}
        if got != want:
            r.mismatch = '%s partition: impl %s model %s' % (what, r.detail['impl_classes'], classes_model)
        src = {tuple(o): float(Fraction(p)) for o, p in zip(case['outs'], case['pmf'])}
        if set(old) != set(src) or any(abs(old[k] - src[k]) > 1e-12 for k in src):
            r.oracle_fail = 'the joint distribution of the original variables changed under %s' % what
        return idx, part

    # sigma-algebras ----------------------------------------------------------
    @staticmethod
    def fam(F):
        return sorted(sorted(x) for x in F)

    def run_sigalg(self, case, drv, r):
        from dit.math.sigmaalgebra import sigma_algebra, is_sigma_algebra, is_sigma_algebra__brute, atom_set
        C, X = case['C'], case['X']
        r.features = ['kind=sigalg', 'style=%s' % case['style'], 'X=%s' % ('given' if X is not None else 'union')]
        Cf = set(frozenset(c) for c in C)
        F = sigma_algebra(Cf, None if X is None else frozenset(X))
        got = self.fam(F)
        want = self.fam(drv.call('sigalg', [C, X]))
        r.nontrivial = len(got) >= 4
        r.detail = {'impl': got, 'model': want}
        if got != want:
            r.mismatch = 'sigma_algebra(%s, %s): impl %s model %s' % (C, X, got, want)
            return
        U = sorted(set().union(*map(set, C))) if X is None else X
        # the statement-level facts about the result, on the real objects
        Fs = set(F)
        if frozenset() not in Fs or frozenset(U) not in Fs or not all(frozenset(c) in Fs for c in C):
            r.oracle_fail = 'sigma_algebra(%s) does not contain the empty set, the whole set and the generators' % (C,)
            return
        if any(frozenset(U) - a not in Fs for a in Fs) or any(a | b not in Fs for a in Fs for b in Fs):
            r.oracle_fail = 'sigma_algebra(%s) is not closed under complement and union' % (C,)
            return
        # verdicts on the generated algebra and on a damaged copy
        fams = [('generated', got)]
        dmg = [x for i, x in enumerate(got) if i != case['drop'] % len(got)]
        if dmg:
            fams.append(('one member removed', dmg))
        if case['style'] == 'almost' and len(C) >= 1:
            fams.append(('generators only', self.fam(Cf | {frozenset(), frozenset(U)})))
        for label, fam in fams:
            Ff = set(frozenset(x) for x in fam)
            if not Ff:
                continue
            Xarg = None if X is None else frozenset(X)
            if Xarg is not None and any(not a <= Xarg for a in Ff):
                continue
            v = [bool(is_sigma_algebra(Ff, Xarg)), bool(is_sigma_algebra__brute(Ff, Xarg))]
            Xm = X if X is not None else None
            w = drv.call('issa', [fam, Xm])
            if v != w:
                r.mismatch = 'is_sigma_algebra / __brute on %s (%s): impl %s model %s' % (fam, label, v, w)
                return
            if label == 'generated' and v != [True, True]:
                r.oracle_fail = 'the generated sigma-algebra %s is not recognised as one: %s' % (fam, v)
                return
            if X is None and v[0] != v[1] and sorted(set().union(*map(set, fam))) == sorted(U):
                r.oracle_fail = 'is_sigma_algebra and is_sigma_algebra__brute disagree on %s: %s' % (fam, v)
                return
            a_impl = self.fam(atom_set(Ff))
            a_model = self.fam(drv.call('atoms', [fam]))
            if a_impl != a_model:
                r.mismatch = 'atom_set(%s): impl %s model %s' % (fam, a_impl, a_model)
                return
        # atoms of the generated algebra: a partition of the whole set into blocks of identical membership
        atoms = atom_set(set(F))
        if sorted(x for a in atoms for x in a) != sorted(U):
            r.oracle_fail = 'the atoms %s of sigma_algebra(%s) do not partition %s' % (self.fam(atoms), C, U)
            return
        sig = lambda x: tuple(x in c for c in C)
        if any(len(set(sig(x) for x in a)) != 1 for a in atoms) or len(set(sig(next(iter(a))) for a in atoms)) != len(atoms):
            r.oracle_fail = 'the atoms %s are not the classes of identical membership in %s' % (self.fam(atoms), C)

    def run_latsig(self, case, drv, r):
        dit = import_dit()
        from dit.algorithms.lattice import induced_sigalg, join_sigalg, meet_sigalg, join, meet
        from dit.math.sigmaalgebra import atom_set
        klass = case['klass']
        space = sorted(case['outs'] + case.get('extra', []))
        outs = [gen.to_py(o, klass) for o in case['outs']]
        d = dit.Distribution(outs, [float(Fraction(p)) for p in case['pmf']], sample_space=[gen.to_py(o, klass) for o in space])
        if case['names']:
            d.set_rv_names('XYZ'[:case['n']])
        groups = case['groups']
        back = lambda F: sorted(sorted(list(gen.from_py(o, klass)) for o in A) for A in F)
        r.nontrivial = len(space) >= 4
        for kind, f, arg in [('induced', induced_sigalg, None), ('join', join_sigalg, groups), ('meet', meet_sigalg, groups)]:
            if kind == 'induced':
                g = sorted(groups[0])
                F = f(d, self.nm(case, g))
                gm = [g]
            else:
                F = f(d, [self.nm(case, g) for g in groups])
                gm = groups
            got = back(F)
            want = sorted(sorted(A) for A in drv.call('latsig', [kind, space, gm]))
            if got != want:
                r.mismatch = '%s_sigalg%s over the space %s: impl %d members, model %d members; impl-only %s model-only %s' % (
                    kind, gm, space, len(got), len(want), [x for x in got if x not in want][:3], [x for x in want if x not in got][:3])
                return
            at = back(atom_set(F))
            atm = sorted(sorted(A) for A in drv.call('latatoms', [kind, space, gm]))
            cl = None
            if kind in ('join', 'meet'):
                cl = sorted(sorted(A) for A in drv.call('classes', [kind, space, gm]))
            r.detail = {'kind': kind, 'atoms_impl': at, 'atoms_model': atm, 'classes_model': cl}
            if at != atm:
                r.mismatch = 'atoms of %s_sigalg%s: impl %s model %s' % (kind, gm, at, atm)
                return
            if cl is not None and at != cl:
                # the two routes (sigma-algebra, partition) must agree: Props/C16Sigma proves it for the model
                r.oracle_fail = 'atoms of %s_sigalg%s %s are not the %s of the sample space %s' % (
                    kind, gm, at, 'classes of agreement on every group' if kind == 'join' else 'connected components', cl)
                return
        # the scalar distributions of join / meet: probabilities of the atoms
        ps = {tuple(o): float(Fraction(p)) for o, p in zip(case['outs'], case['pmf'])}
        for kind, f in (('join', join), ('meet', meet)):
            sd = f(d, [self.nm(case, g) for g in groups])
            cl = drv.call('classes', [kind, space, groups])
            want = sorted(sum(ps.get(tuple(o), 0.0) for o in A) for A in cl)
            want = [w for w in want if w > 1e-12]
            got = sorted(float(p) for p in sd.pmf if float(p) > 1e-12)
            if len(got) != len(want) or any(abs(a - b) > 1e-9 for a, b in zip(got, want)):
                r.oracle_fail = 'dit.algorithms.lattice.%s%s has probabilities %s, the classes have %s' % (kind, groups, got, want)
                return

    def run_trim(self, case, drv, r):
        dit = import_dit()
        from dit.algorithms.minimal_sufficient_statistic import info_trim
        d = self.build(case)
        n = case['n']
        groups = [[i] for i in range(n)]
        dt = info_trim(d, [self.nm(case, g) for g in groups])
        tab = [[o, q(Fraction(p))] for o, p in zip(case['outs'], case['pmf'])]
        labels = []
        for gi in groups:
            cl = drv.call('mss', [tab, gi, sorted(set(range(n)) - set(gi))])
            labels.append({tuple(o): k for k, c in enumerate(cl) for o in c})
        joint = {}
        for o, p in zip(case['outs'], case['pmf']):
            key = tuple(l[tuple(o)] for l in labels)
            joint[key] = joint.get(key, 0.0) + float(Fraction(p))
        r.nontrivial = len(case['outs']) >= 4 and len(joint) < len(case['outs'])
        got = {tuple(o): float(p) for o, p in zip(dt.outcomes, dt.pmf) if float(p) > 1e-12}
        r.detail = {'impl': sorted(got.values()), 'model': sorted(joint.values())}
        if dt.outcome_length() != n:
            r.oracle_fail = 'info_trim returned %d variables for %d' % (dt.outcome_length(), n)
            return
        # equal up to renaming the symbols of each variable: same pmf multiset and the same entropy of every subset
        if len(got) != len(joint) or any(abs(a - b) > 1e-9 for a, b in zip(sorted(got.values()), sorted(joint.values()))):
            r.mismatch = 'info_trim: probabilities %s, joint law of the model\'s sufficient statistics %s' % (sorted(got.values()), sorted(joint.values()))
            return
        rows_i = [(list(o), p) for o, p in got.items()]
        rows_m = [(list(o), p) for o, p in joint.items()]
        rows_s = [(list(o), float(Fraction(p))) for o, p in zip(case['outs'], case['pmf'])]
        for k in range(1, n + 1):
            for S in itertools.combinations(range(n), k):
                if abs(self.H(rows_i, S) - self.H(rows_m, S)) > 1e-9:
                    r.mismatch = 'info_trim: H%s = %r, model %r' % (list(S), self.H(rows_i, S), self.H(rows_m, S))
                    return
        mi = lambda rows, a, b: self.H(rows, [a]) + self.H(rows, [b]) - self.H(rows, [a, b])
        for a, b in itertools.combinations(range(n), 2):
            if abs(mi(rows_i, a, b) - mi(rows_s, a, b)) > 1e-9:
                r.oracle_fail = 'info_trim changed I(X%d:X%d): %r -> %r' % (a, b, mi(rows_s, a, b), mi(rows_i, a, b))
                return

    def run_join(self, case, drv, r):
        dit = import_dit()
        from dit.algorithms.lattice import insert_join
        d = self.build(case)
        groups = case['groups']
        d2 = insert_join(d, case['idx'], [self.nm(case, g) for g in groups])
        classes = drv.call('classes', ['join', case['outs'], groups])
        idx, part = self.check_insertion(case, d2, classes, r, 'insert_join')
        if r.oracle_fail:
            return
        rows = [(list(o), float(p)) for o, p in zip(d2.outcomes, d2.pmf)]
        U = sorted(set(i if i < idx else i + 1 for g in groups for i in g))
        hn, hu, hboth = self.H(rows, [idx]), self.H(rows, U), self.H(rows, U + [idx])
        if abs(hboth - hu) > 1e-9 or abs(hboth - hn) > 1e-9:
            r.oracle_fail = 'join: H(new|groups) = %r, H(groups|new) = %r (both must vanish)' % (hboth - hu, hboth - hn)

    def run_meet(self, case, drv, r):
        dit = import_dit()
        from dit.algorithms.lattice import insert_meet
        from dit.multivariate import gk_common_information
        d = self.build(case)
        groups = case['groups']
        d2 = insert_meet(d, case['idx'], [self.nm(case, g) for g in groups])
        classes = drv.call('classes', ['meet', case['outs'], groups])
        idx, part = self.check_insertion(case, d2, classes, r, 'insert_meet')
        if r.oracle_fail:
            return
        rows = [(list(o), float(p)) for o, p in zip(d2.outcomes, d2.pmf)]
        for g in groups:
            G = [i if i < idx else i + 1 for i in g]
            if abs(self.H(rows, G + [idx]) - self.H(rows, G)) > 1e-9:
                r.oracle_fail = 'meet is not a function of the group %s' % g
                return
        # finest: the reference components of "agree on some group"
        src = [list(o) for o in case['outs']]
        comp = self.components(src, groups)
        want = set(frozenset(map(tuple, c)) for c in comp)
        got = set(frozenset(v) for v in part.values())
        if got != want:
            r.oracle_fail = 'meet classes %s are not the connected components of the support %s' % (
                sorted(sorted(map(list, c)) for c in got), sorted(sorted(map(list, c)) for c in want))
            return
        K = float(gk_common_information(d, [self.nm(case, g) for g in groups]))
        ps = {tuple(o): float(Fraction(p)) for o, p in zip(case['outs'], case['pmf'])}
        ref = -sum(m * math.log2(m) for m in [sum(ps[tuple(o)] for o in c) for c in comp] if m > 0)
        if abs(K - ref) > 1e-9:
            r.oracle_fail = 'gk_common_information %r, entropy of the connected components %r' % (K, ref)

    @staticmethod
    def components(rows, groups):
        comps = []
        left = [list(o) for o in rows]
        while left:
            cur = [left.pop(0)]
            changed = True
            while changed:
                changed = False
                for o in list(left):
                    if any(any([o[i] for i in g] == [c[i] for i in g] for g in groups) for c in cur):
                        cur.append(o)
                        left.remove(o)
                        changed = True
            comps.append(cur)
        return comps

    def run_mss(self, case, drv, r):
        dit = import_dit()
        from dit.algorithms.minimal_sufficient_statistic import insert_mss
        d = self.build(case)
        rvs, about = case['rvs'], case['about']
        if set(rvs) & set(about):
            return
        d2 = insert_mss(d, case['idx'], self.nm(case, rvs), self.nm(case, about))
        tab = [[o, q(Fraction(p))] for o, p in zip(case['outs'], case['pmf'])]
        classes = drv.call('mss', [tab, rvs, about])
        idx, part = self.check_insertion(case, d2, classes, r, 'insert_mss')
        if r.oracle_fail:
            return
        rows = [(list(o), float(p)) for o, p in zip(d2.outcomes, d2.pmf)]
        sh = lambda g: [i if i < idx else i + 1 for i in g]
        X, Y = sh(rvs), sh(about)
        if abs(self.H(rows, X + [idx]) - self.H(rows, X)) > 1e-9:
            r.oracle_fail = 'the sufficient statistic is not a function of X'
            return
        mi = lambda A, B: self.H(rows, A) + self.H(rows, B) - self.H(rows, sorted(set(A + B)))
        if abs(mi([idx], Y) - mi(X, Y)) > 1e-9:
            r.oracle_fail = 'I(mss:Y) = %r but I(X:Y) = %r' % (mi([idx], Y), mi(X, Y))

    def run_common(self, case, drv, r):
        dit = import_dit()
        import dit.multivariate as mv
        d = self.build(case)
        n = case['n']
        groups = [[i] for i in range(n)]
        cg = case['groups']
        if case.get('cgroups') == 'given' and len(set(sum(cg, []))) == len(sum(cg, [])):
            groups = cg                 # disjoint groups, possibly not covering every variable
        g = [self.nm(case, x) for x in groups]
        union = sorted(set(sum(groups, [])))
        r.features.append('groups=%s' % groups)
        r.nontrivial = len(case['outs']) >= 4
        K = float(mv.gk_common_information(d, g))
        J = float(mv.caekl_mutual_information(d, g))
        B = float(mv.dual_total_correlation(d, g))
        F = float(mv.functional_common_information(d, g))
        M = float(mv.mss_common_information(d, g))
        Hh = float(mv.entropy(d, self.nm(case, union)))
        vals = [('K', K), ('J', J), ('B', B), ('F', F), ('M', M), ('H', Hh)]
        r.detail = dict(vals)
        for (a, x), (b, y) in zip(vals, vals[1:]):
            if x > y + 1e-8:
                r.oracle_fail = 'chain K <= J <= B <= F <= M <= H broken: %s = %r > %s = %r' % (a, x, b, y)
                return
        rows = [(list(o), float(Fraction(p))) for o, p in zip(case['outs'], case['pmf'])]
        # K: entropy of the connected components of the support (reference as in run_meet)
        comp = self.components([list(o) for o in case['outs']], groups)
        ps = {tuple(o): float(Fraction(p)) for o, p in zip(case['outs'], case['pmf'])}
        refK = -sum(m * math.log2(m) for m in [sum(ps[tuple(o)] for o in c) for c in comp] if m > 0)
        if abs(K - refK) > 1e-9:
            r.oracle_fail = 'gk_common_information %r, entropy of the connected components of the support %r' % (K, refK)
            return
        # M: entropy of the joint minimal sufficient statistic of each group ABOUT THE OTHER GROUPS
        # (reference through the model's classes)
        tab = [[o, q(Fraction(p))] for o, p in zip(case['outs'], case['pmf'])]
        labels = []
        for gi in groups:
            cl = drv.call('mss', [tab, gi, sorted(set(union) - set(gi))])
            lab = {}
            for k, c in enumerate(cl):
                for o in c:
                    lab[tuple(o)] = k
            labels.append(lab)
        joint = {}
        for o, p in rows:
            key = tuple(l[tuple(o)] for l in labels)
            joint[key] = joint.get(key, 0.0) + p
        refM = -sum(p * math.log2(p) for p in joint.values() if p > 0)
        if abs(M - refM) > 1e-9:
            r.mismatch = 'mss_common_information %r, entropy of the joint of the model\'s sufficient statistics %r' % (M, refM)
        # the values depend on the joint probabilities only: the default (Cartesian) sample space, stored zeros (dense)
        # and the marginal on the variables of the groups give the same K, F, M
        klass = case['klass']
        outs = [gen.to_py(o, klass) for o in case['outs']]
        pm = [float(Fraction(p)) for p in case['pmf']]
        variants = [('default sample space', dit.Distribution(outs, pm))]
        dn = dit.Distribution(outs, pm)
        dn.make_dense()
        variants.append(('dense with stored zeros', dn))
        for label, dv in variants:
            if case['names']:
                dv.set_rv_names('XYZ'[:n])
            for name, f, want in (('gk_common_information', mv.gk_common_information, K),
                                  ('mss_common_information', mv.mss_common_information, M),
                                  ('functional_common_information', mv.functional_common_information, F)):
                if name == 'functional_common_information' and len(dv.outcomes) > 12:
                    continue
                v = float(f(dv, g))
                if abs(v - want) > 1e-8:
                    r.oracle_fail = '%s = %r on the %s, %r on the pruned one' % (name, v, label, want)
                    return
        if len(union) < n:
            dm = d.marginal(self.nm(case, union))
            pos = {v: i for i, v in enumerate(union)}
            gm = [[pos[i] for i in x] for x in groups]
            if case['names']:
                gm = [[dm.get_rv_names()[i] for i in x] for x in gm]
            for name, f, want in (('gk_common_information', mv.gk_common_information, K),
                                  ('mss_common_information', mv.mss_common_information, M)):
                v = float(f(dm, gm))
                if abs(v - want) > 1e-8:
                    r.oracle_fail = '%s = %r on the marginal over the groups\' variables, %r on the full distribution' % (name, v, want)
                    return


PROP = C16()
