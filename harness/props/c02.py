"""
C02 — Marginals and coalescings are exact pushforwards of the joint distribution.
"""
from fractions import Fraction

import core
import gen
from canon import exc_enum
from driver import q
from env import import_dit


def proj(o, idx):
    return [o[i] for i in idx]


NAME_POOLS = [list('XYZWV'), list('WZYXA'), ['x1', 'x0', 'b', 'a', 'c2'], list('ABCDE'), ['a', 'b', 'X', 'Y', 'x0']]


def rand_groups(rng, case, ng):
    """`ng` groups of variable indices with repeats and overlaps whose coalesced space stays enumerable."""
    n = case['n']
    alph = case['space'][1] if case['space'] and case['space'][0] == 'cart' else case['alphabets']
    while True:
        groups = [[rng.randrange(n) for _ in range(rng.randint(1, 3))] for _ in range(ng)]
        size = 1
        for g in groups:
            for i in g:
                size *= len(alph[i])
        if size <= 400:      # the model enumerates the coalesced space
            return groups


def rand_rename(rng, n, cur):
    """New variable names for the same distribution: other names, the current names permuted, names overlapping
    the current ones, or None (names cleared)."""
    how = rng.choice(['fresh', 'fresh', 'permute', 'overlap', 'clear'])
    if how == 'clear':
        return None
    if cur and how == 'permute' and n > 1:
        new = list(cur)
        while new == list(cur):
            rng.shuffle(new)
        return new
    if cur and how == 'overlap':
        spare = [x for pool in NAME_POOLS for x in pool if x not in cur]
        new = list(cur[1:]) + [spare[0]]
        if rng.random() < 0.5:
            new.reverse()
        return new
    pools = [pl[:n] for pl in NAME_POOLS if pl[:n] != list(cur or [])]
    return list(rng.choice(pools))


def rand_history(rng, case):
    """What happened to the source object before the operation under test: earlier marginal / marginalize / coalesce
    calls on it (results discarded), renamings of its variables, replacement by its copy().  None of these changes
    the joint distribution; the operation under test must answer for the object as it is at the time of the call.
    Returns (steps, names at the time of the operation)."""
    n = case['n']
    cur = case['names']
    steps = []
    for _ in range(rng.randint(1, 4)):
        what = rng.choice(['query', 'query', 'query', 'rename', 'rename', 'copy'])
        if what == 'rename':
            cur = rand_rename(rng, n, cur)
            steps.append({'do': 'rename', 'names': cur})
        elif what == 'copy':
            steps.append({'do': 'copy'})
        else:
            kind = rng.choice(['marginal', 'marginal', 'marginalize', 'coalesce'])
            st = {'do': kind, 'byname': bool(cur) and rng.random() < 0.6}
            if kind == 'coalesce':
                st['groups'] = rand_groups(rng, case, rng.randint(1, 2))
            else:
                st['rvs'] = rng.sample(range(n), rng.randint(0, n))
            steps.append(st)
    return steps, cur


class C02(object):
    id = 'C02'
    rule = ("random valid joint distributions (5 outcome classes, 1-4 variables, heterogeneous alphabets, Cartesian / "
            "list / SampleSpace / CartesianProduct spaces with members outside the support, sparse/dense, trim, 6 bases, "
            "names) x an operation: marginal / marginalize of a random subset (by index or by name), or coalesce of 1-3 "
            "groups with repeats and overlaps (extract when one group); half of the cases give the source object a history "
            "of 1-4 steps before the call (earlier marginal / marginalize / coalesce calls by index or name, renaming of "
            "the variables to other / permuted / overlapping names or none, replacement by its copy()) and the call is "
            "judged against the names at the time of the call; the staged marginal is taken by index and by name; a third "
            "of the calls leave rv_mode out (names when the object has names at that time, indices otherwise; also the "
            "second stage of the staged marginal), the selection is passed as list / tuple / string of one-letter names; "
            "the source's sample-space object is asked directly for the same coalesce / marginal / marginalize and its "
            "answer is judged against the projection of the source space; "
            "non-trivial = the map merges at least two stored outcomes or drops a variable")
    tolerances = {'values': 'exact when all probabilities are dyadic and base is linear, else rtol 1e-9 / atol 1e-12 in the linear domain'}
    exhaustive = {}

    def gen(self, rng, tier):
        n_cases = 220 if tier == 'quick' else 40000
        for _ in range(n_cases):
            c = gen.rand_dist_case(rng, nmin=1, nmax=4)
            n = c['n']
            op = rng.choice(['marginal', 'marginal', 'marginalize', 'coalesce', 'coalesce', 'coalesce1'])
            # half of the cases: the source object has a history (earlier queries, renamings, copy) before the call
            now_names = c['names']
            if rng.random() < 0.5:
                c['history'], now_names = rand_history(rng, c)
            if op in ('marginal', 'marginalize'):
                k = rng.randint(0, n)
                rvs = rng.sample(range(n), k)
                byname = bool(now_names) and rng.random() < 0.6
                c['op'] = {'kind': op, 'rvs': rvs, 'byname': byname,
                           'stage': rng.sample(rvs, rng.randint(0, len(rvs))) if op == 'marginal' else None}
            else:
                groups = rand_groups(rng, c, 1 if op == 'coalesce1' else rng.randint(1, 3))
                c['op'] = {'kind': op, 'groups': groups, 'byname': bool(now_names) and rng.random() < 0.5}
            # a third of the calls leave `rv_mode` out (the object's own mode decides: names when it has names,
            # indices otherwise); the selection is a list, a tuple or - single-letter names - a string
            c['op']['defmode'] = rng.random() < 0.35
            if now_names is None and (c['names'] or any(st['do'] == 'rename' and st['names'] for st in c.get('history') or [])):
                # names were set and have been cleared again: the object's own mode is asked more often
                c['op']['defmode'] = c['op']['defmode'] or rng.random() < 0.5
            if c['op']['defmode']:
                c['op']['byname'] = bool(now_names)
            c['op']['shape'] = rng.choice(['list', 'list', 'tuple', 'str'])
            yield c

    def shrink(self, case):
        # shorten the history, drop outcomes, simplify flags
        hist = case.get('history') or []
        if hist:
            c = dict(case)
            c['history'] = []
            yield c
            if len(hist) > 1:
                for i in range(len(hist)):
                    c = dict(case)
                    c['history'] = hist[:i] + hist[i + 1:]
                    yield c
        outs, pmf = case['outs'], [Fraction(p) for p in case['pmf']]
        if len(outs) > 1:
            for i in range(len(outs)):
                c = dict(case)
                rest = [p for j, p in enumerate(pmf) if j != i]
                tot = sum(rest)
                if tot == 0:
                    continue
                c['outs'] = [o for j, o in enumerate(outs) if j != i]
                c['pmf'] = [str(p / tot) for p in rest]
                yield c
        for key, val in (('base', 'linear'), ('names', None), ('space', None), ('sparse', True), ('trim', True)):
            if case.get(key) != val:
                c = dict(case)
                c[key] = val
                if key == 'names' and case['op'].get('byname'):
                    c['op'] = dict(case['op'], byname=False)
                yield c

    # ------------------------------------------------------------------
    def run(self, case, drv):
        dit = import_dit()
        r = core.Result()
        op = case['op']
        kind = op['kind']
        r.site = 'Distribution.' + ('coalesce' if kind.startswith('coalesce') else kind)
        r.features = gen.case_features(case) + ['op=%s' % kind]
        klass = case['klass']
        n = case['n']
        exact = gen.is_dyadic(case) and case['base'] == 'linear'

        d = gen.build(case)
        mj = drv.call('construct', gen.model_construct_args(case))
        if mj[0] != 'ok':
            r.features.append('construct-disagree')
            return r
        src_py = gen.obs_py(d, klass)
        if gen.compare_obs(src_py, gen.obs_model(mj[1]), exact=exact) is not None:
            r.features.append('construct-disagree')   # C01's business
            return r
        mdist = mj[2]
        names = case.get('names')

        # ---------------- history of the source object (none of it changes the joint distribution)
        history = case.get('history') or []
        queried_named = False       # an earlier query ran while the variables had names ...
        requery = False             # ... and the variables were given other names afterwards
        for step in history:
            do = step['do']
            if do == 'rename':
                new = step['names']
                if queried_named and new and list(new) != list(names or []):
                    requery = True
                names = list(new) if new else None
                d.set_rv_names(names)
            elif do == 'copy':
                d = d.copy()
            else:
                hby = bool(step.get('byname')) and bool(names)
                hmode = 'names' if hby else 'indices'
                sel = (lambda idx: [names[i] for i in idx]) if hby else list
                try:
                    if do == 'coalesce':
                        d.coalesce([sel(g) for g in step['groups']], rv_mode=hmode)
                        kept = None
                    elif do == 'marginal':
                        hm = d.marginal(sel(step['rvs']), rv_mode=hmode)
                        kept = sorted(step['rvs'])
                    else:
                        hm = d.marginalize(sel(step['rvs']), rv_mode=hmode)
                        kept = [i for i in range(n) if i not in step['rvs']]
                except Exception as e:  # noqa
                    r.site = 'Distribution.' + do
                    r.oracle_fail = 'earlier %s raised %s: %s on a valid selection' % (do, type(e).__name__, str(e)[:200])
                    r.detail = {'exception': exc_enum(e)}
                    return r
                if kept is not None and names and kept:
                    if list(hm.get_rv_names() or []) != [names[i] for i in kept]:
                        r.site = 'Distribution.' + do
                        r.oracle_fail = ('names of kept variables (earlier %s of %s): %s, expected %s'
                                         % (do, step['rvs'], hm.get_rv_names(), [names[i] for i in kept]))
                        return r
                queried_named = queried_named or bool(names)
            now = gen.obs_py(d, klass)
            if now != src_py:
                if do in ('rename', 'copy'):
                    r.features.append('history-disagree')    # set_rv_names / copy: C09's business
                    return r
                r.site = 'Distribution.' + do
                r.oracle_fail = 'the source distribution changed (earlier %s)' % do
                r.detail = {'before': src_py, 'after': now}
                return r
        got_src_names = d.get_rv_names()
        if list(got_src_names or []) != list(names or []):
            r.features.append('history-disagree')            # set_rv_names / copy did not keep the names: C09
            return r
        r.features += ['history=%d' % len(history), 'requery-after-rename=%s' % requery]

        byname = bool(op.get('byname')) and bool(names)
        # `rv_mode` left out: "the value of `self._rv_mode` is consulted" - names for an object that has names at the
        # time of the call, indices for one that has none.
        defmode = bool(op.get('defmode'))
        if defmode:
            byname = bool(names)
            # (objects whose names were set and later cleared used to stay in names mode and raised on every
            # non-empty selection with rv_mode left out; repaired in dit, judged like everything else)
            if names is None and (case.get('names') or any(st['do'] == 'rename' and st['names'] for st in history)):
                r.features.append('mode=default-after-names-cleared')
        r.features.append('byname=%s' % byname)
        r.features.append('mode=%s' % ('default' if defmode else 'explicit'))
        rv_mode = 'names' if byname else 'indices'
        kw = {} if defmode else {'rv_mode': rv_mode}
        shape = op.get('shape') or 'list'
        if shape == 'str' and not (byname and all(isinstance(x, str) and len(x) == 1 for x in names)):
            shape = 'list'
        r.features.append('shape=%s' % shape)

        def nm(idx):
            sel = [names[i] for i in idx] if byname else list(idx)
            if shape == 'tuple':
                return tuple(sel)
            if shape == 'str':
                return ''.join(sel)
            return sel

        def outer(gs):
            return tuple(gs) if shape == 'tuple' else list(gs)

        # ---------------- implementation
        try:
            if kind == 'marginal':
                m = d.marginal(nm(op['rvs']), **kw)
                idx = sorted(op['rvs'])
                nested = False
            elif kind == 'marginalize':
                m = d.marginalize(nm(op['rvs']), **kw)
                idx = [i for i in range(n) if i not in op['rvs']]
                nested = False
            elif kind == 'coalesce1':
                m = d.coalesce(outer([nm(op['groups'][0])]), extract=True, **kw)
                idx = op['groups'][0]
                nested = False
            else:
                m = d.coalesce(outer([nm(g) for g in op['groups']]), **kw)
                nested = True
        except Exception as e:  # noqa
            r.oracle_fail = '%s raised %s: %s on a valid selection' % (kind, type(e).__name__, str(e)[:200])
            r.detail = {'exception': exc_enum(e)}
            return r
        res_py = gen.obs_py(m, klass, nested=nested)

        # ---------------- the same question put to the source's sample-space object (SampleSpace / CartesianProduct
        # .coalesce / .marginal / .marginalize take indices); judged below against the projection of the source space
        ss = d._sample_space
        ss_cart = isinstance(ss, dit.samplespace.CartesianProduct)
        ss_err = ss_list = None
        try:
            if kind == 'marginal':
                s2 = ss.marginal(outer(op['rvs']))
            elif kind == 'marginalize':
                s2 = ss.marginalize(outer(op['rvs']))
            elif kind == 'coalesce1':
                s2 = ss.coalesce(outer([outer(op['groups'][0])]), extract=True)
            else:
                s2 = ss.coalesce(outer([outer(g) for g in op['groups']]))
            ss_list = [gen.from_py_nested(o, klass) if nested else gen.from_py(o, klass) for o in s2]
        except gen.UnreadableOutcome:
            raise
        except Exception as e:  # noqa
            ss_err = '%s: %s' % (type(e).__name__, str(e)[:200])
        if ss_cart:
            inv = {sym: i for i, sym in enumerate(gen.UNIVERSE[klass])}
            ss_alph = [set(inv[sym] for sym in a) for a in ss.alphabets]
        after = gen.obs_py(d, klass)
        after_names = d.get_rv_names()

        # ---------------- model
        if kind == 'marginal':
            mo = drv.call('marginal', [mdist, n, op['rvs']])
        elif kind == 'marginalize':
            mo = drv.call('marginalize', [mdist, n, op['rvs']])
        elif kind == 'coalesce1':
            mo = ['ok', drv.call('coalesce1', [mdist, op['groups'][0]]), None, None]
        else:
            mo = ['ok', drv.call('coalesce', [mdist, op['groups']]), None, None]
        if mo[0] != 'ok':
            r.mismatch = 'model rejects the selection (%s) but the implementation accepted it' % mo[1]
            return r
        res_mo = gen.obs_model(mo[1])

        groups = op['groups'] if kind == 'coalesce' else [idx]
        stored = [o for o, _ in src_py['tab']]
        images = set(tuple(map(tuple, [proj(o, g) for g in groups])) for o in stored)
        r.nontrivial = len(images) < len(stored) or (kind != 'coalesce' and len(idx) < n)

        # ---------------- correspondence
        diff = gen.compare_obs(res_py, res_mo, exact=exact)
        if diff:
            r.mismatch = diff
        elif kind in ('marginal', 'marginalize'):
            exp_names = [names[i] for i in mo[2]] if names else None
            got_names = list(m.get_rv_names()) if m.get_rv_names() is not None else None
            # a marginal onto no variables has no names to keep: [] and None are the same observation
            exp_names = exp_names or None
            got_names = got_names or None
            if got_names != exp_names:
                r.mismatch = 'rv names: impl %s model %s' % (got_names, exp_names)
            elif list(m._mask) != mo[3]:
                r.mismatch = 'mask: impl %s model %s' % (list(m._mask), mo[3])

        # ---------------- oracle: the statement, on the real code
        base = case['base']

        def lin(v):
            return gen.lin_of(v, base)

        tol = 0.0 if exact else 1e-9
        src_space = src_py['space']
        src_look = [lin(v) for v in src_py['lookups']]
        fib = {}
        for o, p in zip(src_space, src_look):
            if kind == 'coalesce':
                key = tuple(tuple(proj(o, g)) for g in groups)
            else:
                key = tuple(proj(o, idx))
            fib[key] = fib.get(key, 0.0) + p
        res_space = [tuple(map(tuple, o)) if kind == 'coalesce' else tuple(o) for o in res_py['space']]
        res_look = [lin(v) for v in res_py['lookups']]
        fails = None
        if after != src_py:
            fails = 'the source distribution changed'
        if not fails and after_names != got_src_names:
            fails = 'the names of the source distribution changed: %s -> %s' % (got_src_names, after_names)
        if not fails:
            for key in fib:
                if key not in set(res_space):
                    fails = 'projection %s of a sample-space member is not in the result sample space' % (list(key),)
                    break
        if not fails and kind in ('marginal', 'marginalize') and set(res_space) != set(fib):
            fails = 'sample space of the marginal is not the projection of the source space'
        if not fails:
            for key, p in zip(res_space, res_look):
                want = fib.get(key, 0.0)
                if abs(p - want) > tol + 1e-9 * abs(want) + (0 if exact else 1e-12):
                    if m.is_sparse() and p == 0.0 and abs(want) <= 1e-8:
                        continue    # a null value (within the library's null tolerance) stored as absent
                    fails = 'P(%s) = %r but the fibre sum is %r' % (list(key), p, want)
                    break
        if not fails and abs(sum(res_look) - sum(src_look)) > 1e-9:
            fails = 'total mass changed: %r -> %r' % (sum(src_look), sum(res_look))
        if not fails:
            # the sample-space object's own answer: the projection of the source space (a Cartesian product may
            # answer a coalescing with repeated / overlapping variables by the product of the groups' alphabets)
            sfail = None
            ssk = 'coalesce' if kind.startswith('coalesce') else kind
            if ss_err is not None:
                sfail = 'raised %s on a valid selection' % ss_err
            else:
                skeys = [tuple(map(tuple, o)) if kind == 'coalesce' else tuple(o) for o in ss_list]
                if len(set(skeys)) != len(skeys):
                    sfail = 'lists a member twice: %s' % ss_list
                elif not set(fib) <= set(skeys):
                    sfail = ('lacks the projection %s of a source member'
                             % (list(sorted(set(fib) - set(skeys))[0]),))
                elif (kind in ('marginal', 'marginalize') or not ss_cart) and set(skeys) != set(fib):
                    sfail = ('has the member %s that is not the projection of a source member'
                             % (list(sorted(set(skeys) - set(fib))[0]),))
                elif ss_cart:
                    for key in skeys:
                        parts = list(zip(key, groups)) if kind == 'coalesce' else [(key, idx)]
                        if len(parts) != len(groups) or any(
                                len(part) != len(g) or any(x not in ss_alph[i] for x, i in zip(part, g))
                                for part, g in parts):
                            sfail = 'has the member %s that is not made of the selected variables\' alphabets' % (list(key),)
                            break
            if sfail:
                fails = 'sample space object: %s(%s) %s' % (ssk, groups if kind.startswith('coalesce') else op['rvs'], sfail)
                r.site = 'SampleSpace.' + ssk
        if not fails and m.get_base() != d.get_base():
            fails = 'base changed'
        if not fails and m.is_sparse() != d.is_sparse():
            fails = 'sparsity changed'
        if not fails:
            tabkeys = [tuple(map(tuple, o)) if kind == 'coalesce' else tuple(o) for o, _ in res_py['tab']]
            order = {k: i for i, k in enumerate(res_space)}
            ranks = [order.get(k, -1) for k in tabkeys]
            if ranks != sorted(ranks) or len(set(ranks)) != len(ranks) or -1 in ranks:
                fails = 'stored outcomes are not duplicate-free and ordered like the sample space'
        if not fails and kind in ('marginal', 'marginalize') and names:
            if list(m.get_rv_names() or []) != [names[i] for i in idx]:
                fails = 'names of kept variables: %s, expected %s' % (m.get_rv_names(), [names[i] for i in idx])
        if not fails and kind == 'marginal' and op.get('stage') is not None and len(idx) > 0:
            # marginalising in stages equals marginalising at once
            J = sorted(op['stage'])
            Jrel = [idx.index(j) for j in J]
            try:
                a = m.marginal(Jrel, rv_mode='indices')
                b = d.marginal(J, rv_mode='indices')
                oa, ob = gen.obs_py(a, klass), gen.obs_py(b, klass)
                if oa['space'] != ob['space'] or [o for o, _ in oa['tab']] != [o for o, _ in ob['tab']]:
                    fails = 'staged marginal differs structurally from the direct one'
                else:
                    for (o, x), (_, y) in zip(oa['tab'], ob['tab']):
                        if abs(lin(x) - lin(y)) > 1e-9:
                            fails = 'staged marginal P(%s)=%r, direct %r' % (o, x, y)
                if not fails and list(a.get_rv_names() or []) != list(b.get_rv_names() or []):
                    fails = 'staged marginal names differ'
                if not fails and names:
                    # the same, selecting the second stage by the names the kept variables have now
                    a2 = m.marginal([names[j] for j in J], rv_mode='names')
                    oa2 = gen.obs_py(a2, klass)
                    if oa2['space'] != ob['space'] or [o for o, _ in oa2['tab']] != [o for o, _ in ob['tab']]:
                        fails = 'staged marginal (second stage by name) differs structurally from the direct one'
                    else:
                        for (o, x), (_, y) in zip(oa2['tab'], ob['tab']):
                            if abs(lin(x) - lin(y)) > 1e-9:
                                fails = 'staged marginal (second stage by name) P(%s)=%r, direct %r' % (o, x, y)
                    if not fails and list(a2.get_rv_names() or []) != [names[j] for j in J]:
                        fails = 'staged marginal (second stage by name) names: %s, expected %s' % (
                            a2.get_rv_names(), [names[j] for j in J])
                if not fails and defmode:
                    # the same with rv_mode left out in the second stage: the marginal carries the names of the
                    # kept variables (names decide) or none (indices decide)
                    a3 = m.marginal(nm(J) if names else nm(Jrel))
                    oa3 = gen.obs_py(a3, klass)
                    if oa3['space'] != ob['space'] or [o for o, _ in oa3['tab']] != [o for o, _ in ob['tab']]:
                        fails = 'staged marginal (second stage without rv_mode) differs structurally from the direct one'
                    else:
                        for (o, x), (_, y) in zip(oa3['tab'], ob['tab']):
                            if abs(lin(x) - lin(y)) > 1e-9:
                                fails = 'staged marginal (second stage without rv_mode) P(%s)=%r, direct %r' % (o, x, y)
                    if not fails and list(a3.get_rv_names() or []) != list(b.get_rv_names() or []):
                        fails = 'staged marginal (second stage without rv_mode) names: %s, expected %s' % (
                            a3.get_rv_names(), b.get_rv_names())
            except Exception as e:  # noqa
                fails = 'staged marginal raised %s: %s' % (type(e).__name__, str(e)[:100])
        r.oracle_fail = fails
        r.detail = {'impl': res_py, 'model': mo[1], 'source': src_py}
        return r


PROP = C02()
