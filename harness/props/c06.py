"""
C06 — Divergences and dependence coefficients equal their definitions and axioms.
"""
import math
from fractions import Fraction

import numpy as np

import core
import gen
from canon import f2bits, bits2f
from driver import q, unq
from env import import_dit

ALPHAS = [0.5, 2.0, 3.0, -1.0, 1.0, 0.25]


class C06(object):
    id = 'C06'
    rule = ("pairs / weighted families of linear distributions over a common outcome class whose supports are equal, "
            "nested, overlapping or disjoint, with different stored orders (one built dense or with a custom sample space "
            "in scrambled order), stored zeros; all divergences incl. orders alpha in {1/4, 1/2, 1, 2, 3, -1}, rvs / crvs "
            "restrictions for cross entropy and KL; maximum correlation of 2..3-variable joints incl. single-symbol "
            "variables, independent and deterministic ones; lautum information. Checked: value vs the model (Float), "
            "value on (p,p), swapped arguments, infinite exactly on support violation, JSD <= H(w), Pinsker, "
            "maxcorr in [0,1] and 0 iff independent, EMD(categorical) = TV. Non-trivial = both supports have >= 2 outcomes "
            "and are not equal as stored lists. Kind `pmfform`: the pmf-level entry points of dit.divergences.pmf on 2..4 "
            "aligned probability vectors of length 1..5 (given as one 2-d array, nested lists or a list of arrays): JSD with "
            "weights handed over as None / normalised or unnormalised floats / integer counts, in a list, tuple or ndarray "
            "(float64, float32, int64, int32), zero weights included - value vs the definition with the normalised "
            "weights, 0 <= JSD <= H(w), reordering, invariance under rescaling / re-typing the weights, and agreement with "
            "the Distribution form; TV, BC, Hellinger, cross / relative entropy, Chernoff, categorical EMD and the "
            "two-argument JSD on the first two vectors. Every pair / restricted case also runs f_divergence for f in "
            "{t log t, -log t, |t-1|/2, (t-1)^2, (sqrt t - 1)^2, 4/(1-a^2)(1 - t^((1+a)/2))} (also with rvs) against "
            "sum_x q f(p/q) over the labels, >= 0 and 0 on (p,p); where f_divergence is known to drop terms (outcomes of "
            "the second support outside the first when f(0) != 0, of the first outside the second when lim f(t)/t != 0) "
            "the call is compared with the full textbook value (+inf included) LAST, only when nothing else of the case "
            "failed, under the site of the known finding; one fixed pair of that class closes every run. Every emd case also hands over explicit cost matrices between the stored outcomes "
            "(3[i != j], |x-y|, (x-y)^2 for labels placed on a line): optimum = 3 TV resp. the monotone coupling, exact. "
            "Kind `condmaxcorr`: maximum_correlation with crvs on exact tables P[x][y][z] (1..3 symbols each; random, "
            "sparse, conditionally independent, Z independent of (X,Y), X = Y in one slice, constant Z, a z of probability "
            "zero in the sample space; coordinates in any order, X or Z spread over two coordinates): value = max over z "
            "with p(z) > 0 of the second singular value of p(x,y|z)/sqrt(p(x|z)p(y|z)), in [0,1], 0 iff X and Y are "
            "independent given Z, symmetric in the groups, = the unconditional value when Z is independent of (X,Y), "
            "the pmf-level entry point on the 3-d array, and rho^2 a largest root of the model's exact per-slice "
            "characteristic polynomials. Kind `inplace`: a pair / restricted / lautum case evaluated on two distribution "
            "objects, then the probabilities of one or both objects changed IN PLACE (d[o] = v per outcome, d.pmf[i] = v, "
            "d.pmf[:] = vector, integer weights followed by d.normalize(); new values: a fresh vector over the stored or the "
            "positive outcomes, a rotation of the old values, or the other object's values when both store the same "
            "outcomes, so that D(p||q) becomes 0) and the whole pair / restricted / lautum check evaluated AGAIN on the "
            "same objects against the definitions (and the model) on the probabilities they hold now")
    tolerances = {'closed forms': 'atol 1e-9', 'chernoff (scipy bounded scalar minimiser, xatol 1e-5)': '1e-4 relative', 'emd (LP)': '1e-7',
                  'maximum correlation': '|sigma2^2 is a root of the exact characteristic polynomial| <= 1e-8',
                  'f-divergences': 'atol 1e-9 (relative above 1)', 'emd with explicit costs (LP)': '1e-7 relative',
                  'conditional maximum correlation': '1e-7 vs the definition; rho^2 root of a slice polynomial to 1e-7 of its coefficient mass'}
    exhaustive = {}

    def gen(self, rng, tier):
        n_cases = 240 if tier == 'quick' else 25000
        for _ in range(n_cases):
            kind = rng.choice(['pair', 'pair', 'pair', 'jsd', 'restricted', 'maxcorr', 'lautum', 'emd'])
            klass = rng.choice(['str', 'tuple', 'mixed'])
            n = rng.randint(1, 3) if kind in ('pair', 'jsd', 'emd') else rng.randint(2, 3)
            if kind == 'maxcorr':
                yield self.gen_maxcorr(rng, klass)
                continue
            a = gen.rand_dist_case(rng, nmin=n, nmax=n, bases=['linear'], klasses=(klass,), allow_space=False,
                                   allow_names=False)
            rel = rng.choice(['equal', 'nested', 'overlap', 'disjoint', 'same', 'shifted'])
            b = self.related(rng, a, rel)
            # scramble storage of b: dense / custom space in a different order
            if rng.random() < 0.5:
                full = self.full_space(a, b)
                rng.shuffle(full)
                b['space'] = ['list', full]
                b['sparse'] = rng.random() < 0.5
                b['trim'] = False
            gen.avoid_subnull(a)
            gen.avoid_subnull(b)
            c = {'kind': kind, 'a': a, 'b': b, 'rel': rel, 'alpha': rng.choice(ALPHAS)}
            if kind == 'emd':
                c['numeric'] = rng.random() < 0.5
                if c['numeric']:
                    ka, kb = rng.randint(1, 4), rng.randint(1, 4)
                    c['xa'] = sorted(rng.sample(range(-3, 7), ka))
                    c['xb'] = sorted(rng.sample(range(-3, 7), kb)) if rng.random() < 0.7 else c['xa']
                    c['pa'] = [str(v) for v in gen.rand_prob_vector(rng, len(c['xa']), 'small')[0]]
                    c['pb'] = [str(v) for v in gen.rand_prob_vector(rng, len(c['xb']), 'small')[0]]
                elif klass == 'tuple':
                    a['klass'] = b['klass'] = 'mixed'
            if kind == 'jsd':
                c['c'] = gen.avoid_subnull(self.related(rng, a, rng.choice(['overlap', 'equal'])))
                w, _ = gen.rand_prob_vector(rng, 3, rng.choice(['dyadic', 'small']))
                c['w'] = [str(x) for x in w] if rng.random() < 0.8 else None
            if kind == 'restricted':
                vars_ = list(range(n))
                rng.shuffle(vars_)
                k = rng.randint(1, n)
                c['rvs'] = vars_[:k] if rng.random() < 0.5 else sorted(vars_[:k])          # listed in any order
                c['crvs'] = vars_[k:][:rng.randint(0, n - k)]
            if kind == 'lautum':
                # any two disjoint groups, in any order (lautum information is symmetric in its groups)
                vs = list(range(n))
                rng.shuffle(vs)
                k1 = rng.randint(1, max(1, n - 1))
                g1, g2 = sorted(vs[:k1]), sorted(vs[k1:k1 + rng.randint(1, max(1, n - k1))])
                c['rvs'] = [g1, g2] if g2 else [[0], [1]]
                c['crvs'] = []    # the conditional variant has no documented definition; only L(X:Y) is checked
            yield c
        # pmf-level entry points (appended after the main stream so that the cases above do not depend on them)
        for _ in range(70 if tier == 'quick' else 6000):
            yield self.gen_pmfform(rng)
        # conditional maximum correlation (crvs given); appended last for the same reason
        for _ in range(70 if tier == 'quick' else 5000):
            yield self.gen_condmaxcorr(rng)
        # evaluation, in-place change of the probabilities of the same objects, second evaluation; appended after the
        # streams above for the same reason
        for _ in range(90 if tier == 'quick' else 6000):
            yield self.gen_inplace(rng)
        # one fixed pair of the input class of the known f_divergence finding (P = {0: 1/4, 1: 3/4} inside
        # Q = {0: 1/4, 1: 1/4, 2: 1/2}), so that every run meets it whatever the seed
        yield self.fixed_support_mismatch_pair()

    UPDATE_MODES = ['setitem', 'setitem', 'pmf-index', 'pmf-vector', 'weights-normalize']
    UPDATE_VALUES = ['fresh-stored', 'fresh-positive', 'rotate', 'copy-other', 'copy-other']

    def gen_inplace(self, rng):
        """A pair / restricted / lautum case (as in the main stream) plus the description of an in-place change of the
        probabilities of the objects it is evaluated on."""
        kind = rng.choice(['pair', 'pair', 'restricted', 'restricted', 'lautum'])
        klass = rng.choice(['str', 'tuple', 'mixed'])
        n = rng.randint(1, 3) if kind == 'pair' else rng.randint(2, 3)
        for _ in range(6):
            a = gen.rand_dist_case(rng, nmin=n, nmax=n, bases=['linear'], klasses=(klass,), allow_space=False, allow_names=False)
            if len(a['outs']) >= 2:                # a single stored outcome leaves nothing to change
                break
        rel = rng.choice(['equal', 'equal', 'nested', 'overlap', 'same', 'same', 'shifted'])
        b = self.related(rng, a, rel)
        if rng.random() < 0.4:
            full = self.full_space(a, b)
            rng.shuffle(full)
            b['space'] = ['list', full]
            b['sparse'] = rng.random() < 0.5
            b['trim'] = False
        gen.avoid_subnull(a)
        gen.avoid_subnull(b)
        base = {'kind': kind, 'a': a, 'b': b, 'rel': rel, 'alpha': rng.choice(ALPHAS)}
        if kind == 'restricted':
            vars_ = list(range(n))
            rng.shuffle(vars_)
            k = rng.randint(1, n)
            base['rvs'] = vars_[:k] if rng.random() < 0.5 else sorted(vars_[:k])
            base['crvs'] = vars_[k:][:rng.randint(0, n - k)]
        if kind == 'lautum':
            vs = list(range(n))
            rng.shuffle(vs)
            k1 = rng.randint(1, max(1, n - 1))
            g1, g2 = sorted(vs[:k1]), sorted(vs[k1:k1 + rng.randint(1, max(1, n - k1))])
            base['rvs'] = [g1, g2] if g2 else [[0], [1]]
            base['crvs'] = []
        targets = ['a'] if kind == 'lautum' else rng.choice([['a'], ['b'], ['b'], ['a', 'b'], ['b', 'a']])
        return {'kind': 'inplace', 'base': base,
                'updates': [{'target': t, 'mode': rng.choice(self.UPDATE_MODES), 'values': rng.choice(self.UPDATE_VALUES),
                             'style': rng.choice(['dyadic', 'small', 'uneven']), 'seed': rng.randrange(10 ** 6)} for t in targets]}

    def full_space(self, a, b):
        alph = [sorted(set(x) | set(y)) for x, y in zip(a['alphabets'], b['alphabets'])]
        out = [[]]
        for s in alph:
            out = [o + [x] for o in out for x in s]
        for o in a['outs'] + b['outs']:
            if o not in out:
                out.append(o)
        return out

    def related(self, rng, a, rel):
        b = dict(a)
        outs = [list(o) for o in a['outs']]
        n = a['n']
        fresh = lambda: [rng.choice(range(6)) for _ in range(n)]
        if rel == 'same':
            b['outs'] = outs[:]
            b['pmf'] = a['pmf'][:]
            b['alphabets'] = a['alphabets']
            return b
        if rel == 'shifted':
            # same alphabets, same number of outcomes, different members: cyclically shift one coordinate
            i = rng.randrange(n)
            al = a['alphabets'][i]
            nxt = {x: al[(al.index(x) + 1) % len(al)] for x in al}
            new = [o[:i] + [nxt[o[i]]] + o[i + 1:] for o in outs]
            b['outs'] = new
            b['pmf'] = a['pmf'][:] if rng.random() < 0.5 else a['pmf'][1:] + a['pmf'][:1]
            b['alphabets'] = a['alphabets']
            b['space'] = None
            return b
        if rel == 'equal':
            new = outs[:]
        elif rel == 'nested':
            new = outs[:max(1, len(outs) - 1)] if rng.random() < 0.5 else outs + [fresh()]
        elif rel == 'overlap':
            new = outs[:max(1, len(outs) // 2)] + [fresh() for _ in range(rng.randint(1, 2))]
        else:
            new = []
            while len(new) < rng.randint(1, 3):
                o = fresh()
                if o not in outs and o not in new:
                    new.append(o)
        uniq = []
        for o in new:
            if o not in uniq:
                uniq.append(o)
        rng.shuffle(uniq)
        pv, style = gen.rand_prob_vector(rng, len(uniq))
        b['outs'] = uniq
        b['pmf'] = [str(p) for p in pv]
        b['alphabets'] = [sorted(set(o[i] for o in uniq)) for i in range(n)]
        b['space'] = None
        return b

    WFORMS = ['none', 'norm-list', 'norm-array', 'float-list', 'float-tuple', 'float-array', 'float32-array',
              'int-list', 'int-tuple', 'int-array', 'int32-array']

    def gen_pmfform(self, rng):
        k = rng.randint(1, 5)
        n = rng.randint(2, 4)
        rows = []
        for i in range(n):
            if rows and rng.random() < 0.15:
                rows.append(list(rng.choice(rows)))           # a repeated member of the family
            else:
                rows.append([str(v) for v in gen.rand_prob_vector(rng, k, rng.choice(['dyadic', 'small', 'uneven']))[0]])
        wc = [rng.choice([0, 1, 1, 2, 3, 4, 5, 7, 12]) for _ in range(n)]
        if rng.random() < 0.15:
            wc = [wc[0] or 1] * n                            # equal counts: uniform weights, unnormalised
        if sum(wc) == 0:
            wc[rng.randrange(n)] = 1
        return {'kind': 'pmfform', 'pm': rows, 'wc': wc, 'wform': rng.choice(self.WFORMS),
                'scale': rng.choice(['1', '1/2', '1/4', '2', '3']),
                'pform': rng.choice(['array', 'lists', 'rows'])}

    def gen_maxcorr(self, rng, klass):
        style = rng.choice(['random', 'independent', 'deterministic', 'single-symbol', 'random3'])
        nx, ny = rng.randint(1, 4), rng.randint(1, 4)
        if style == 'single-symbol':
            nx = 1
        if style == 'independent':
            px, _ = gen.rand_prob_vector(rng, nx, 'small')
            py, _ = gen.rand_prob_vector(rng, ny, 'small')
            P = [[a * b for b in py] for a in px]
        elif style == 'deterministic':
            ny = nx
            px, _ = gen.rand_prob_vector(rng, nx, 'uneven')
            P = [[px[i] if i == j else Fraction(0) for j in range(ny)] for i in range(nx)]
        else:
            pv, _ = gen.rand_prob_vector(rng, nx * ny, rng.choice(['small', 'dyadic', 'uneven']))
            P = [pv[i * ny:(i + 1) * ny] for i in range(nx)]
        return {'kind': 'maxcorr', 'klass': klass, 'P': [[str(v) for v in row] for row in P], 'style': style,
                'explicit': rng.random() < 0.3, 'dense': rng.random() < 0.5}

    @staticmethod
    def fixed_support_mismatch_pair():
        mk = lambda outs, pmf: {'klass': 'str', 'n': 1, 'alphabets': [sorted(o[0] for o in outs)], 'outs': outs, 'pmf': pmf,
                                'space': None, 'base': 'linear', 'sparse': True, 'trim': True, 'names': None,
                                'style': 'dyadic', 'spacekind': 'none'}
        return {'kind': 'pair', 'a': mk([[0], [1]], ['1/4', '3/4']), 'b': mk([[0], [1], [2]], ['1/4', '1/4', '1/2']),
                'rel': 'nested', 'alpha': 0.5}

    CSTYLES = ['random', 'random', 'sparse', 'cond-independent', 'z-independent', 'slice-deterministic', 'const-z', 'empty-slice']

    def gen_condmaxcorr(self, rng):
        """A joint of X, Y, Z as an exact table P[x][y][z]; the outcome's coordinates hold the roles in any order, X or Z
        possibly spread over two coordinates."""
        style = rng.choice(self.CSTYLES)
        nx, ny, nz = rng.randint(1, 3), rng.randint(1, 3), rng.randint(1, 3)
        if style == 'const-z':
            nz = 1
        if style == 'slice-deterministic':
            nx = ny = rng.randint(2, 3)
        if style == 'empty-slice':
            nz = rng.randint(2, 3)
        pv = lambda k, st: gen.rand_prob_vector(rng, k, st)[0]
        positive = lambda k: pv(k, 'uneven')
        P = [[[Fraction(0)] * nz for _ in range(ny)] for _ in range(nx)]
        cells = [(x, y, z) for x in range(nx) for y in range(ny) for z in range(nz)]
        if style == 'random':
            v = pv(len(cells), rng.choice(['small', 'dyadic', 'uneven']))
            for (x, y, z), p in zip(cells, v):
                P[x][y][z] = p
        elif style == 'sparse':
            sup = rng.sample(cells, rng.randint(1, len(cells)))
            for (x, y, z), p in zip(sup, positive(len(sup))):
                P[x][y][z] = p
        elif style == 'z-independent':
            pxy, pz = pv(nx * ny, rng.choice(['small', 'dyadic', 'uneven'])), positive(nz)
            for x, y, z in cells:
                P[x][y][z] = pxy[x * ny + y] * pz[z]
        elif style == 'empty-slice':
            z0 = rng.randrange(nz)
            live = [c for c in cells if c[2] != z0]
            for (x, y, z), p in zip(live, pv(len(live), rng.choice(['small', 'uneven']))):
                P[x][y][z] = p
        else:
            # every slice a product p(x|z) p(y|z); 'slice-deterministic' replaces one slice by X = Y
            pz = pv(nz, 'small') if style == 'cond-independent' else positive(nz)
            zdet = rng.randrange(nz) if style == 'slice-deterministic' else None
            for z in range(nz):
                px, py = pv(nx, 'small'), pv(ny, 'small')
                pd = positive(nx)
                for x in range(nx):
                    for y in range(ny):
                        P[x][y][z] = pz[z] * ((pd[x] if x == y else 0) if z == zdet else px[x] * py[y])
        split = rng.choice(['none', 'none', 'z2', 'x2'])
        roles = ['x', 'y', 'z'] + {'none': [], 'z2': ['z2'], 'x2': ['x2']}[split]
        rng.shuffle(roles)
        dense = rng.random() < 0.5
        return {'kind': 'condmaxcorr', 'klass': rng.choice(['str', 'tuple', 'mixed']), 'style': style,
                'P': [[[str(v) for v in row] for row in plane] for plane in P], 'roles': roles,
                'dense': dense or style == 'empty-slice', 'explicit': rng.random() < 0.3, 'reverse_groups': rng.random() < 0.5}

    def shrink(self, case):
        return []

    # ------------------------------------------------------------------
    def run(self, case, drv):
        r = core.Result()
        kind = case['kind']
        r.site = 'dit.divergences.' + kind
        r.features = ['kind=%s' % kind, 'rel=%s' % case.get('rel')]
        try:
            getattr(self, 'run_' + kind)(case, drv, r)
        except core.DriverError:
            raise
        except Exception as e:  # noqa
            import traceback
            r.oracle_fail = '%s raised %s: %s' % (kind, type(e).__name__, str(e)[:160])
            r.detail = {'traceback': traceback.format_exc()[-700:]}
        return r

    def tables(self, case):
        klass = case['a']['klass']
        # kind `inplace` hands over the live objects (whose probabilities were changed in place) with the tables they
        # are meant to hold now; every other kind builds fresh objects
        ds = list(case['_objs']) if case.get('_objs') else [gen.build(case[k]) for k in ('a', 'b')]
        tabs = []
        for k in ('a', 'b'):
            tabs.append({tuple(o): Fraction(p) for o, p in zip(case[k]['outs'], case[k]['pmf'])})
        return klass, ds, tabs

    @staticmethod
    def pairs_of(ta, tb, union=True):
        keys = list(ta) + [k for k in tb if k not in ta] if union else list(ta)
        return [(ta.get(k, Fraction(0)), tb.get(k, Fraction(0))) for k in keys]

    def model_div(self, drv, name, pairs, a=1.0):
        out = drv.call('divf', [name, [[f2bits(float(p)), f2bits(float(qq))] for p, qq in pairs], f2bits(float(a))])
        return math.inf if out == 'inf' else bits2f(out)

    def model_fdiv(self, drv, name, pairs):
        """The textbook f-divergence of Core/FDiv.lean (`fdivVals`, the object of Props/C06FDiv) over the union of the
        supports, for the menu entry `name`."""
        out = drv.call('fdivf', [name, [[f2bits(float(p)), f2bits(float(qq))] for p, qq in pairs]])
        return math.inf if out == 'inf' else bits2f(out)

    @staticmethod
    def agree(x, y, tol=1e-9):
        if math.isinf(x) or math.isinf(y):
            return x == y
        if math.isnan(x) or math.isnan(y):
            return False
        return abs(x - y) <= tol * max(1.0, abs(y))

    # ------------------------------------------------------------------ Csiszar f-divergences
    # D_f(P||Q) = sum_x q(x) f(p(x)/q(x)) with the conventions 0 f(0/0) = 0, q f(0/q) = q f(0) and
    # 0 f(p/0) = p lim_{t->inf} f(t)/t (Csiszar; Liese & Vajda, cited in generalized_divergences.py).
    # Every entry: (name, f as handed to dit, f(0), lim f(t)/t).  All f are convex with f(1) = 0.
    @staticmethod
    def fdiv_menu(alpha):
        a = alpha if abs(alpha) < 1 else 0.5
        c = 4.0 / (1.0 - a * a)
        e = (1.0 + a) / 2.0
        return [
            ('kl', lambda t: t * np.log2(t), 0.0, math.inf),                # Kullback-Leibler D(p||q)
            ('rkl', lambda t: -np.log2(t), math.inf, 0.0),                  # reverse: D(q||p)
            ('tv', lambda t: abs(t - 1) / 2, 0.5, 0.5),                     # total variation
            ('chi2', lambda t: (t - 1) ** 2, 1.0, math.inf),                # Pearson chi-square
            ('hel', lambda t: (np.sqrt(t) - 1) ** 2, 1.0, 1.0),             # 2 (1 - BC)
            ('alpha', lambda t: c * (1.0 - np.power(t, e)), c, 0.0),        # 4/(1-a^2) (1 - t^((1+a)/2)), a = alpha if |alpha| < 1 else 1/2
        ]

    def fdiv_judge(self, D, da, db, ta, tb, alpha, r, drv=None, rvs=None, defer=None):
        """f_divergence(da, db, f[, rvs]) against the definition evaluated on the exact tables ta, tb (those of the
        marginals when rvs is given).  Returns False when an oracle failure was recorded."""
        keys = list(ta) + [k for k in tb if k not in ta]
        pq = [(ta.get(k, Fraction(0)), tb.get(k, Fraction(0))) for k in keys]
        only_q = [qq for p, qq in pq if p == 0 and qq > 0]       # mass of Q outside the support of P
        only_p = [p for p, qq in pq if p > 0 and qq == 0]        # mass of P outside the support of Q
        kw = {} if rvs is None else {'rvs': rvs}
        where = '' if rvs is None else ' (rvs=%s)' % (rvs,)
        out = {}
        for name, f, f0, slope in self.fdiv_menu(alpha):
            # KNOWN FINDING (KNOWN_FINDINGS.txt, site dit.divergences.f_divergence.support-mismatch; dit not changed):
            # f_divergence sums q f(p/q) over the outcomes
            # of the FIRST distribution only and lets nansum drop 0 * f(inf).  So (i) the terms q(x) f(0) for
            # outcomes in the second support but outside the first are missing unless f(0) = 0, and (ii) the terms
            # p(x) lim f(t)/t for outcomes in the first support but outside the second are missing unless that
            # limit is 0.  E.g. P = {a: 1/4, b: 3/4}, Q = {a: 1/4, b: 1/4, c: 1/2}: f(t) = |t-1|/2 gives 0.25
            # (total variation is 0.5); f(t) = t log2 t on (Q, P) gives -0.396 (D(Q||P) = +inf); disjoint supports
            # give 0 for every f.  Exactly that input class is put aside here and judged LAST by `fdiv_support_class`
            # (after every other clause of the case, under its own site); everything else is judged here.
            if (only_q and f0 != 0) or (only_p and slope != 0):
                r.features.append('fdiv-support-class=%s' % name)
                if defer is not None:
                    defer.append((name, f, f0, slope))
                continue
            with np.errstate(all='ignore'):
                val = float(D.f_divergence(da, db, f, **kw))
                ref = 0.0
                for p, qq in pq:
                    if p > 0 and qq > 0:
                        ref += float(qq) * float(f(float(p / qq)))
            # (the remaining terms are q f(0) with f(0) = 0 and p * slope with slope = 0)
            out[name] = (val, ref)
            r.features.append('fdiv-judged=%s' % name)
            if not self.agree(val, ref):
                r.oracle_fail = 'f_divergence%s with f = %s is %r but sum_x q f(p/q) over the labels is %r' % (where, name, val, ref)
            elif val < -1e-12:
                r.oracle_fail = 'f_divergence%s with the convex f = %s (f(1) = 0) is negative: %r' % (where, name, val)
            elif name == 'chi2':
                exact = sum((p - qq) ** 2 / qq for p, qq in pq if qq > 0)
                if not self.agree(val, float(exact)):
                    r.oracle_fail = 'f_divergence%s with f = (t-1)^2 is %r but sum (p-q)^2/q = %s' % (where, val, exact)
            elif name == 'tv':
                exact = sum(abs(p - qq) for p, qq in pq) / 2
                if not self.agree(val, float(exact)):
                    r.oracle_fail = 'f_divergence%s with f = |t-1|/2 is %r but the variational distance is %s' % (where, val, exact)
            if r.oracle_fail:
                r.detail = dict(r.detail or {}, fdiv={k: list(v) for k, v in out.items()})
                return False
            if drv is not None and name in ('kl', 'tv') and not r.mismatch:
                mo = self.model_div(drv, name, [(p, qq) for p, qq in pq if p > 0 or name == 'tv'])
                if not self.agree(val, mo):
                    r.mismatch = 'f_divergence with f = %s: impl %r model %r' % (name, val, mo)
            if drv is not None and name != 'alpha' and not r.mismatch:
                mo = self.model_fdiv(drv, name, pq)
                r.features.append('fdiv-model=%s' % name)
                if not self.agree(val, mo):
                    r.mismatch = 'f_divergence%s with f = %s: impl %r, fdivVals of the model %r' % (where, name, val, mo)
            # D_f(P||P) = 0
            with np.errstate(all='ignore'):
                vself = float(D.f_divergence(da, da, f, **kw))
            if abs(vself) > 1e-12:
                r.oracle_fail = 'f_divergence%s of a distribution from itself with f = %s is %r' % (where, name, vself)
                return False
        r.detail = dict(r.detail or {}, fdiv={k: list(v) for k, v in out.items()})
        return True

    def fdiv_support_class(self, D, da, db, ta, tb, deferred, r, rvs=None, drv=None):
        """The input class of the known finding (see `fdiv_judge`): the call against the full textbook value
        sum_{p,q>0} q f(p/q) + f(0) Q(p = 0) + lim f(t)/t P(q = 0) (+inf included).  Runs only when nothing else of the
        case failed or disagreed, so that it cannot hide another clause; a failure gets its own site and mark."""
        if r.bad() or not deferred:
            return
        keys = list(ta) + [k for k in tb if k not in ta]
        pq = [(ta.get(k, Fraction(0)), tb.get(k, Fraction(0))) for k in keys]
        mass_q = sum(qq for p, qq in pq if p == 0 and qq > 0)
        mass_p = sum(p for p, qq in pq if p > 0 and qq == 0)
        kw = {} if rvs is None else {'rvs': rvs}
        where = '' if rvs is None else ' (rvs=%s)' % (rvs,)
        show = lambda t: '{%s}' % ', '.join('%s: %s' % (''.join(str(x) for x in k), v) for k, v in t.items() if v > 0)
        for name, f, f0, slope in deferred:
            with np.errstate(all='ignore'):
                val = float(D.f_divergence(da, db, f, **kw))
                ref = 0.0
                for p, qq in pq:
                    if p > 0 and qq > 0:
                        ref += float(qq) * float(f(float(p / qq)))
            if mass_q > 0 and f0 != 0:
                ref += float(mass_q) * f0
            if mass_p > 0 and slope != 0:
                ref += float(mass_p) * slope
            if drv is not None and name != 'alpha':
                # the textbook value used as the reference here IS the model's `fdivVals`
                mo = self.model_fdiv(drv, name, pq)
                if not self.agree(ref, mo):
                    raise AssertionError('harness: textbook f-divergence %r differs from fdivVals of the model %r (%s)' % (ref, mo, name))
                r.features.append('fdiv-support-class-model=%s' % name)
            if self.agree(val, ref):
                r.features.append('fdiv-support-class-correct=%s' % name)
                continue
            r.oracle_fail = ('f_divergence%s with f = %s of P = %s from Q = %s (outcomes by rank) is %r; the f-divergence sum_x q f(p/q) with '
                             'q f(0) where p = 0 and p lim f(t)/t where q = 0 is %r' % (where, name, show(ta), show(tb), val, ref))
            r.site = 'dit.divergences.f_divergence.support-mismatch'
            r.detail = dict(r.detail or {}, fdiv_support_mismatch=True, fdiv_f=name, fdiv_got=val, fdiv_textbook=ref)
            return

    def run_inplace(self, case, drv, r):
        """Evaluate, change the probabilities of the SAME objects in place, evaluate again: every divergence is a
        function of the probabilities the distributions hold at the time of the call."""
        import random as _random
        base = case['base']
        kind = base['kind']
        judge = getattr(self, 'run_' + kind)
        klass, ds, tabs = self.tables(base)
        objs = dict(zip('ab', ds))
        r.features += ['base=%s' % kind, 'rel=%s' % base.get('rel')]
        # first evaluation (the pair / restricted / lautum check itself, on these objects)
        r1 = core.Result()
        r1.site = r.site
        judge(dict(base, _objs=ds), drv, r1)
        r.features += r1.features
        # the deferred judgement of the known f_divergence finding runs last and only when nothing else of the evaluation
        # failed: such a first evaluation is complete, the update and the second evaluation follow, and the known finding
        # is handed on at the end unless the second evaluation fails otherwise
        known1 = r1.bad() and str(r1.site).endswith('f_divergence.support-mismatch')
        if r1.bad() and not known1:
            r.oracle_fail, r.mismatch, r.detail, r.site = r1.oracle_fail, r1.mismatch, r1.detail, r1.site
            return
        # what the objects store: outcome -> exact probability (zero for stored outcomes the case does not list)
        cur = {}
        for k in 'ab':
            t = {tuple(o): Fraction(p) for o, p in zip(base[k]['outs'], base[k]['pmf'])}
            cur[k] = [(tuple(gen.from_py(o, klass)), t.get(tuple(gen.from_py(o, klass)), Fraction(0))) for o in objs[k].outcomes]
        before = {k: list(v) for k, v in cur.items()}
        notes = []
        for u in case['updates']:
            k, other = u['target'], {'a': 'b', 'b': 'a'}[u['target']]
            d = objs[k]
            stored = [o for o, _ in cur[k]]
            old = [p for _, p in cur[k]]
            rr = _random.Random(u['seed'])
            values = u['values']
            if values == 'copy-other' and not (kind != 'lautum' and sorted(stored) == sorted(o for o, _ in cur[other])):
                values = 'fresh-positive'
            if values == 'copy-other':
                oth = dict(cur[other])
                new = [oth[o] for o in stored]
            elif values == 'rotate':
                new = old[1:] + old[:1]
            elif values == 'fresh-stored':
                new = list(gen.rand_prob_vector(rr, len(stored), u['style'])[0])
            else:
                pos = [i for i, p in enumerate(old) if p > 0]
                pv = gen.rand_prob_vector(rr, len(pos), u['style'])[0]
                new = [Fraction(0)] * len(stored)
                for i, p in zip(pos, pv):
                    new[i] = p
            for _ in range(3):
                if new != old or len(stored) < 2:
                    break
                values = 'fresh-stored'            # the drawn update would change nothing
                new = list(gen.rand_prob_vector(rr, len(stored), u['style'])[0])
            n_before = len(d.outcomes)
            mode = u['mode']
            if mode == 'setitem':
                for o, p in zip(d.outcomes, new):
                    d[o] = float(p)
            elif mode == 'pmf-index':
                for i, p in enumerate(new):
                    d.pmf[i] = float(p)
            elif mode == 'pmf-vector':
                d.pmf[:] = np.array([float(p) for p in new])
            else:
                den = 1
                for p in new:
                    den = den * p.denominator // math.gcd(den, p.denominator)
                mult = rr.choice([1, 2, 3, 5])
                for o, p in zip(d.outcomes, new):
                    d[o] = float(p * den * mult)          # integer weights ...
                d.normalize()                              # ... normalised in place
            if len(d.outcomes) != n_before:
                raise AssertionError('harness: the in-place update changed the number of stored outcomes')
            cur[k] = list(zip(stored, new))
            r.features += ['update=%s' % mode, 'values=%s' % values]
            notes.append('%s by %s to %s' % (k, mode, '{%s}' % ', '.join('%s: %s' % (''.join(str(x) for x in o), p) for o, p in cur[k])))
        changed = [k for k in 'ab' if cur[k] != before[k]]
        r.features += ['updated=%s' % '+'.join(u['target'] for u in case['updates']), 'changed=%s' % bool(changed),
                       'became-equal=%s' % (kind != 'lautum' and dict((o, p) for o, p in cur['a'] if p > 0) == dict((o, p) for o, p in cur['b'] if p > 0))]
        # second evaluation: the same objects against the definitions on the probabilities they hold now
        now = dict(base, _objs=ds)
        for k in 'ab':
            now[k] = dict(base[k], outs=[list(o) for o, _ in cur[k]], pmf=[str(p) for _, p in cur[k]])
        r2 = core.Result()
        r2.site = r.site
        try:
            judge(now, drv, r2)
        except core.DriverError:
            raise
        except Exception as e:  # noqa
            r2.oracle_fail = '%s raised %s: %s' % (kind, type(e).__name__, str(e)[:160])
        r.features += ['second:' + f for f in r2.features]
        r.nontrivial = bool(r1.nontrivial and r2.nontrivial and changed)
        r.detail = {'first': r1.detail, 'second': r2.detail, 'updates': notes}
        if str(r2.site).endswith('f_divergence.support-mismatch') or (known1 and not r2.bad()):
            # the deferred judgement of the known f_divergence finding (runs last and only when nothing else failed):
            # handed on as it is, under its own site
            rk = r2 if r2.bad() else r1
            r.oracle_fail, r.mismatch, r.detail, r.site = rk.oracle_fail, rk.mismatch, rk.detail, rk.site
            return
        where = 'after the in-place update of %s (same objects, evaluated once before): ' % '; '.join(notes)
        if r2.oracle_fail:
            r.oracle_fail = where + r2.oracle_fail
        if r2.mismatch:
            r.mismatch = where + r2.mismatch

    def run_pair(self, case, drv, r):
        dit = import_dit()
        import dit.divergences as D
        from dit.divergences import earth_movers_distance
        klass, (da, db), (ta, tb) = self.tables(case)
        pu = self.pairs_of(ta, tb, union=True)
        pa = self.pairs_of(ta, tb, union=False)
        r.nontrivial = len([p for p in ta.values() if p > 0]) >= 2 and len([p for p in tb.values() if p > 0]) >= 2
        alpha = case['alpha']
        fl = lambda pairs: [(float(p), float(qq)) for p, qq in pairs]
        # reference values straight from the definitions
        supp_ok = all(not (p > 0 and qq == 0) for p, qq in pa)
        ref = {}
        ref['cross_entropy'] = -sum(p * math.log2(qq) for p, qq in fl(pa) if p > 0) if supp_ok else math.inf
        ref['kl'] = sum(p * math.log2(p / qq) for p, qq in fl(pa) if p > 0) if supp_ok else math.inf
        ref['tv'] = sum(abs(p - qq) for p, qq in fl(pu)) / 2
        ref['bc'] = sum(math.sqrt(p * qq) for p, qq in fl(pu))
        ref['hellinger'] = math.sqrt(max(0.0, 1 - ref['bc']))
        got = {'cross_entropy': float(D.cross_entropy(da, db)), 'kl': float(D.kullback_leibler_divergence(da, db)),
               'tv': float(D.variational_distance(da, db)), 'bc': float(D.bhattacharyya_coefficient(da, db)),
               'hellinger': float(D.hellinger_distance(da, db))}
        mo = {'cross_entropy': self.model_div(drv, 'cross_entropy', pa), 'kl': self.model_div(drv, 'kl', pa),
              'tv': self.model_div(drv, 'tv', pu), 'bc': self.model_div(drv, 'bc', pu),
              'hellinger': self.model_div(drv, 'hellinger', pu)}
        tol = {'hellinger': 1e-7}
        if alpha != 1 and supp_ok or alpha in (0.5, 0.25):
            common = [(p, qq) for p, qq in fl(pa) if p > 0 and qq > 0]
            s = sum(p ** alpha * qq ** (1 - alpha) for p, qq in common)
            if alpha != 1 and alpha > 0 and s > 0:    # Renyi-type divergences are defined for positive orders
                ref['renyi'] = math.log2(s) / (alpha - 1)
                ref['tsallis'] = (s - 1) / (alpha - 1)
                got['renyi'] = float(D.renyi_divergence(da, db, alpha))
                got['tsallis'] = float(D.tsallis_divergence(da, db, alpha))
                got['hellinger_div'] = float(D.hellinger_divergence(da, db, alpha))
                ref['hellinger_div'] = ref['tsallis']
                mo['renyi'] = self.model_div(drv, 'renyi', pa, alpha)
                mo['tsallis'] = self.model_div(drv, 'tsallis', pa, alpha)
                mo['hellinger_div'] = mo['tsallis']
            if alpha not in (1, -1) and abs(alpha) < 1:
                s2 = sum(p ** ((1 - alpha) / 2) * qq ** ((1 + alpha) / 2) for p, qq in common)
                ref['alpha'] = 4 * (1 - s2) / (1 - alpha * alpha)
                got['alpha'] = float(D.alpha_divergence(da, db, alpha))
                mo['alpha'] = self.model_div(drv, 'alpha', pa, alpha)
        if alpha > 1 and not supp_ok:
            # orders above one with p > 0 where q = 0: the power sum diverges (the model's sum runs over the
            # common support only, so this clause is decided by the definition alone)
            for name, f in (('renyi', D.renyi_divergence), ('tsallis', D.tsallis_divergence), ('hellinger_div', D.hellinger_divergence)):
                v = float(f(da, db, alpha))
                if not (math.isinf(v) and v > 0):
                    r.oracle_fail = '%s of order %s = %r although the first support is not inside the second (+inf expected)' % (name, alpha, v)
                    r.detail = {'got': {name: v}}
                    return
        if alpha == 1:
            got['renyi(1)'] = float(D.renyi_divergence(da, db, 1))
            ref['renyi(1)'] = ref['kl']
            mo['renyi(1)'] = mo['kl']
        for name in got:
            t = tol.get(name, 1e-9)
            if not self.agree(got[name], ref[name], t):
                r.oracle_fail = '%s = %r but its definition (labels matched) gives %r' % (name, got[name], ref[name])
                break
            if not r.mismatch and not self.agree(got[name], mo[name], t):
                r.mismatch = '%s: impl %r model %r' % (name, got[name], mo[name])
        r.detail = {'got': got, 'ref': ref, 'model': mo}
        if r.oracle_fail:
            return
        # Csiszar f-divergences for a menu of f (the general entry point behind the named ones)
        fdeferred = []
        if not self.fdiv_judge(D, da, db, ta, tb, alpha, r, drv=drv, defer=fdeferred):
            return
        # axioms
        kl_self = float(D.kullback_leibler_divergence(da, da))
        if abs(kl_self) > 1e-12:
            r.oracle_fail = 'D(p||p) = %r' % kl_self
        elif got['kl'] < -1e-12:
            r.oracle_fail = 'KL is negative: %r' % got['kl']
        elif math.isinf(got['kl']) != (not supp_ok):
            r.oracle_fail = 'KL infinite = %s, first support inside the second = %s' % (math.isinf(got['kl']), supp_ok)
        elif not self.agree(float(D.variational_distance(db, da)), got['tv']) or \
                not self.agree(float(D.bhattacharyya_coefficient(db, da)), got['bc']) or \
                not self.agree(float(D.hellinger_distance(db, da)), got['hellinger'], 1e-7):
            r.oracle_fail = 'a symmetric divergence changed under swapping its arguments'
        elif not math.isinf(got['kl']) and 2 * got['tv'] ** 2 > math.log(2) * got['kl'] + 1e-12:
            r.oracle_fail = 'Pinsker fails: TV = %r, KL = %r bits' % (got['tv'], got['kl'])
        elif got['tv'] > 1 + 1e-12 or got['bc'] > 1 + 1e-9 or got['tv'] < 0:
            r.oracle_fail = 'TV or BC out of range: %r, %r' % (got['tv'], got['bc'])
        if r.oracle_fail:
            return
        ci = float(D.chernoff_information(da, db))
        grid = [i / 200.0 for i in range(201)]
        vals = [sum(p ** al * qq ** (1 - al) for p, qq in fl(pu) if p > 0 and qq > 0) for al in grid]
        refci = -math.log2(min(vals)) if min(vals) > 0 else math.inf
        # scipy's bounded scalar minimiser stops at xatol 1e-5: the optimum is located to ~1e-4 in value
        if math.isinf(refci) or math.isinf(ci):
            if ci != refci:
                r.oracle_fail = 'Chernoff information %r, definition gives %r' % (ci, refci)
        elif not (ci >= refci - 1e-4 * max(1.0, refci) and ci <= refci + 1e-3):
            r.oracle_fail = 'Chernoff information %r, definition (grid minimum) about %r' % (ci, refci)
        # the model's objective (Core/Diverge2.lean `chernoffObj`, NumPy's power conventions) on the same grid; by
        # `chernoffObj_nonpos` the true value is >= 0 and >= -objective(alpha) for every alpha in [0,1]
        if not r.oracle_fail:
            mv = [bits2f(v) for v in drv.call('chernf', [[[f2bits(p), f2bits(qq)] for p, qq in fl(pu)], [f2bits(a_) for a_ in grid]])]
            # pointwise on the open interval (at alpha = 0 and 1 NumPy's x**0 = 1 also counts outcomes outside the
            # other support, so the objective jumps to 0 there when the supports differ - the model has the same jump)
            for al, v_def, v_mod in list(zip(grid, vals, mv))[1:-1]:
                o_def = math.log2(v_def) if v_def > 0 else -math.inf
                if math.isinf(o_def) != math.isinf(v_mod) or (not math.isinf(o_def) and abs(o_def - v_mod) > 1e-9):
                    r.mismatch = 'Chernoff objective at alpha = %r: definition %r, model %r' % (al, o_def, v_mod)
                    break
            mref = -min(mv[1:-1])
            if not r.mismatch and not math.isinf(ci) and not math.isinf(mref) and ci < mref - 1e-4 * max(1.0, mref):
                r.mismatch = 'Chernoff information %r is below -objective(alpha) = %r of the model at a grid point' % (ci, mref)
        # last: the input class of the known f_divergence finding (never when something else of this case is wrong)
        self.fdiv_support_class(D, da, db, ta, tb, fdeferred, r, drv=drv)

    def emd_explicit(self, emd, da, db, atoms_a, atoms_b, r, descr):
        """earth_movers_distance(da, db, distances) for cost matrices handed over explicitly (rows: the stored outcomes
        of da, columns: those of db).  atoms_x: (label, position on a line, exact probability) per stored outcome.
        Costs with a closed-form optimum: c * [label_i != label_j] (optimum c * TV), |x_i - y_j| and (x_i - y_j)^2
        (a convex function of the distance on a line: the monotone coupling is optimal).  False after an oracle failure."""
        def monotone(h):
            A = sorted((x, p) for _, x, p in atoms_a if p > 0)
            B = sorted((x, p) for _, x, p in atoms_b if p > 0)
            i = j = 0
            ra, rb = A[0][1], B[0][1]
            tot = Fraction(0)
            while True:
                m = min(ra, rb)
                tot += m * h(abs(A[i][0] - B[j][0]))
                ra -= m
                rb -= m
                if ra == 0:
                    i += 1
                    if i == len(A):
                        break
                    ra = A[i][1]
                if rb == 0:
                    j += 1
                    if j == len(B):
                        break
                    rb = B[j][1]
            return tot
        keys = [k for k, _, _ in atoms_a] + [k for k, _, _ in atoms_b]
        pa_ = {k: p for k, _, p in atoms_a}
        pb_ = {k: p for k, _, p in atoms_b}
        tv = sum(abs(pa_.get(k, 0) - pb_.get(k, 0)) for k in set(keys)) / 2
        costs = [('3 [i != j]', lambda ka, xa, kb, xb: 0 if ka == kb else 3, 3 * tv, 'lists'),
                 ('|x - y|', lambda ka, xa, kb, xb: abs(xa - xb), monotone(lambda d: d), 'array'),
                 ('(x - y)^2', lambda ka, xa, kb, xb: (xa - xb) ** 2, monotone(lambda d: d * d), 'lists')]
        for cname, cf, ref, form in costs:
            M = [[cf(ka, xa, kb, xb) for kb, xb, _ in atoms_b] for ka, xa, _ in atoms_a]
            val = float(emd(da, db, np.array(M, dtype=float) if form == 'array' else M))
            r.features.append('emd-explicit-cost')
            if not self.agree(val, float(ref), 1e-7):
                r.oracle_fail = ('earth mover\'s distance %s with the explicit cost matrix %s between the stored outcomes (positions %s '
                                 'and %s) is %r; the optimal transport cost is %s' % (descr, cname, [x for _, x, _ in atoms_a],
                                                                                     [x for _, x, _ in atoms_b], val, ref))
                r.detail = dict(r.detail or {}, emd_explicit={'cost': cname, 'matrix': M, 'got': val, 'expected': str(ref)})
                return False
        return True

    def run_emd(self, case, drv, r):
        from dit.divergences import earth_movers_distance, variational_distance
        if case.get('numeric'):
            dit = import_dit()
            xa, xb = case['xa'], case['xb']
            pa, pb = [Fraction(v) for v in case['pa']], [Fraction(v) for v in case['pb']]
            da = dit.ScalarDistribution(xa, [float(v) for v in pa], trim=False)
            db = dit.ScalarDistribution(xb, [float(v) for v in pb], trim=False)
            emd = float(earth_movers_distance(da, db))
            # one-dimensional Wasserstein-1: integral of |F_a - F_b|
            pts = sorted(set(xa) | set(xb))
            ref = Fraction(0)
            for lo, hi in zip(pts, pts[1:]):
                Fa = sum(p for x, p in zip(xa, pa) if x <= lo)
                Fb = sum(p for x, p in zip(xb, pb) if x <= lo)
                ref += abs(Fa - Fb) * (hi - lo)
            r.nontrivial = len(xa) >= 2 and len(xb) >= 2 and xa != xb
            r.features.append('emd=numeric')
            if not self.agree(emd, float(ref), 1e-7):
                r.oracle_fail = 'earth mover\'s distance between %s%s and %s%s is %r; the optimal transport cost is %s' % (
                    xa, case['pa'], xb, case['pb'], emd, ref)
                return
            # the same pair with the cost matrix handed over explicitly
            ta_, tb_ = dict(zip(xa, pa)), dict(zip(xb, pb))
            self.emd_explicit(earth_movers_distance, da, db, [(x, x, ta_.get(x, Fraction(0))) for x in da.outcomes],
                              [(x, x, tb_.get(x, Fraction(0))) for x in db.outcomes], r, 'between %s%s and %s%s' % (xa, case['pa'], xb, case['pb']))
            return
        klass, (da, db), (ta, tb) = self.tables(case)
        r.nontrivial = len(ta) >= 2 and len(tb) >= 2
        emd = float(earth_movers_distance(da, db))
        pu = self.pairs_of(ta, tb, union=True)
        tv = sum(abs(float(p) - float(qq)) for p, qq in pu) / 2
        mo = self.model_div(drv, 'tv', pu)
        if not self.agree(emd, tv, 1e-7):
            r.oracle_fail = 'categorical earth mover\'s distance %r, but the mass that must move is %r' % (emd, tv)
        if not self.agree(emd, mo, 1e-7):
            r.mismatch = 'emd: impl %r model %r' % (emd, mo)
        if r.oracle_fail:
            return
        # explicit cost matrices between the stored outcomes of the two objects (zero-probability members of a dense
        # distribution included); each label sits at the point sum_i rank_i 6^i of a line
        def atoms(d, t):
            out = []
            for o in d.outcomes:
                raw = tuple(gen.from_py(o, klass))
                out.append((raw, sum(x * 6 ** i for i, x in enumerate(raw)), t.get(raw, Fraction(0))))
            return out
        self.emd_explicit(earth_movers_distance, da, db, atoms(da, ta), atoms(db, tb), r, 'of case a, b')

    def run_jsd(self, case, drv, r):
        from dit.divergences import jensen_shannon_divergence
        klass = case['a']['klass']
        ds = [gen.build(case[k]) for k in ('a', 'b', 'c')]
        tabs = [{tuple(o): Fraction(p) for o, p in zip(case[k]['outs'], case[k]['pmf'])} for k in ('a', 'b', 'c')]
        keys = []
        for t in tabs:
            for k in t:
                if k not in keys:
                    keys.append(k)
        w = [Fraction(1, 3)] * 3 if case['w'] is None else [Fraction(x) for x in case['w']]
        r.nontrivial = len(keys) >= 3
        val = float(jensen_shannon_divergence(ds, None if case['w'] is None else [float(x) for x in w]))
        pm = [[float(t.get(k, 0)) for k in keys] for t in tabs]
        H = lambda v: -sum(x * math.log2(x) for x in v if x > 0)
        mix = [sum(float(wi) * row[j] for wi, row in zip(w, pm)) for j in range(len(keys))]
        ref = H(mix) - sum(float(wi) * H(row) for wi, row in zip(w, pm))
        mo = bits2f(drv.call('jsdf', [[[f2bits(x) for x in row] for row in pm], [f2bits(float(x)) for x in w]]))
        if not self.agree(val, ref):
            r.oracle_fail = 'JSD = %r, definition gives %r' % (val, ref)
        elif val < -1e-12 or val > H([float(x) for x in w]) + 1e-9:
            r.oracle_fail = 'JSD = %r outside [0, H(w) = %r]' % (val, H([float(x) for x in w]))
        else:
            perm = [2, 0, 1]
            val2 = float(jensen_shannon_divergence([ds[i] for i in perm], None if case['w'] is None else [float(w[i]) for i in perm]))
            if not self.agree(val, val2):
                r.oracle_fail = 'JSD changes when the (distribution, weight) pairs are reordered: %r vs %r' % (val, val2)
        if not self.agree(val, mo):
            r.mismatch = 'jsd: impl %r model %r' % (val, mo)

    @staticmethod
    def weights_arg(wform, wc, scale):
        '''The weights as the caller hands them over, and the exact normalised weights they stand for.'''
        n = len(wc)
        if wform == 'none':
            return None, [Fraction(1, n)] * n
        tot = sum(wc)
        exact = [Fraction(c, tot) for c in wc]
        kindw, cont = wform.split('-')
        if kindw == 'norm':
            vals = [float(x) for x in exact]
        elif kindw in ('float', 'float32'):
            vals = [float(c * scale) for c in wc]          # dyadic multiples of small counts: exact in float32 too
        else:
            vals = [int(c) for c in wc]
        if cont == 'list':
            return list(vals), exact
        if cont == 'tuple':
            return tuple(vals), exact
        dt = {'norm': np.float64, 'float': np.float64, 'float32': np.float32, 'int': np.int64, 'int32': np.int32}[kindw]
        return np.array(vals, dtype=dt), exact

    @staticmethod
    def pmfs_arg(pform, pm):
        if pform == 'array':
            return np.array(pm, dtype=float)
        if pform == 'lists':
            return [list(row) for row in pm]
        return [np.array(row, dtype=float) for row in pm]

    def run_pmfform(self, case, drv, r):
        dit = import_dit()
        import dit.divergences.pmf as P
        from dit.divergences import jensen_shannon_divergence as jsd_dist
        r.site = 'dit.divergences.pmf'
        rows = [[Fraction(v) for v in row] for row in case['pm']]
        pm = [[float(v) for v in row] for row in rows]
        n, k = len(pm), len(pm[0])
        wform, wc, scale = case['wform'], case['wc'], Fraction(case['scale'])
        warg, w = self.weights_arg(wform, wc, scale)
        wf = [float(x) for x in w]
        unnorm = warg is not None and sum(Fraction(float(x)) for x in warg) != 1
        r.features += ['weights=%s' % wform, 'unnormalised=%s' % unnorm, 'pmfs=%s' % case['pform'], 'n=%d' % n,
                       'zero-weight=%s' % (0 in wc and wform != 'none')]
        r.nontrivial = k >= 2 and len(set(tuple(row) for row in rows)) >= 2 and len([x for x in w if x > 0]) >= 2
        H = lambda v: -sum(x * math.log2(x) for x in v if x > 0)
        mix = [sum(wi * row[j] for wi, row in zip(wf, pm)) for j in range(k)]
        ref = H(mix) - sum(wi * H(row) for wi, row in zip(wf, pm))
        hw = H(wf)
        descr = 'pmf-form JSD of %s with weights %r (%s)' % (case['pm'], warg if warg is None else list(warg), wform)
        with np.errstate(all='ignore'):
            val = float(P.jensen_shannon_divergence(self.pmfs_arg(case['pform'], pm), warg))
            mo = bits2f(drv.call('jsdf', [[[f2bits(x) for x in row] for row in pm], [f2bits(x) for x in wf]]))
            r.detail = {'got': val, 'ref': ref, 'model': mo, 'H(w)': hw, 'normalised weights': [str(x) for x in w]}
            if not self.agree(val, ref):
                r.oracle_fail = '%s = %r, but H(sum w_i P_i) - sum w_i H(P_i) with the normalised weights %s is %r' % (
                    descr, val, [str(x) for x in w], ref)
            elif val < -1e-12 or val > hw + 1e-9:
                r.oracle_fail = '%s = %r outside [0, H(w) = %r]' % (descr, val, hw)
            if not self.agree(val, mo):
                r.mismatch = 'pmf-form jsd: impl %r model %r' % (val, mo)
            if r.oracle_fail:
                return
            # the (pmf, weight) pairs in another order
            perm = list(range(1, n)) + [0]
            warg2, _ = self.weights_arg(wform, [wc[i] for i in perm], scale)
            val2 = float(P.jensen_shannon_divergence(self.pmfs_arg(case['pform'], [pm[i] for i in perm]), warg2))
            if not self.agree(val, val2):
                r.oracle_fail = '%s changes when the (pmf, weight) pairs are reordered: %r vs %r' % (descr, val, val2)
                return
            # the same weights handed over in every other shape: only their ratios matter
            if wform != 'none':
                for other in self.WFORMS[1:]:
                    if other == wform:
                        continue
                    wo, _ = self.weights_arg(other, wc, scale)
                    vo = float(P.jensen_shannon_divergence(self.pmfs_arg(case['pform'], pm), wo))
                    if not self.agree(vo, ref):
                        r.oracle_fail = 'pmf-form JSD of %s with the weights %s given as %r (%s) = %r, definition gives %r' % (
                            case['pm'], [str(x) for x in w], list(wo), other, vo, ref)
                        return
            # the Distribution form on the same family (weights must be normalised there; positive weights only,
            # exactly representable so that the validation of the mixture accepts them)
            if all(x > 0 and (x.denominator & (x.denominator - 1)) == 0 for x in w):
                ds = [dit.Distribution([(j,) for j in range(k)], list(row), trim=False) for row in pm]
                vd = float(jsd_dist(ds, None if wform == 'none' else wf))
                if not self.agree(val, vd):
                    r.oracle_fail = '%s = %r but the Distribution form gives %r' % (descr, val, vd)
                    return
            # pair functions on the first two vectors
            p, qv = np.array(pm[0]), np.array(pm[1])
            pairs = list(zip(rows[0], rows[1]))
            fl = [(float(a), float(b)) for a, b in pairs]
            supp_ok = all(not (a > 0 and b == 0) for a, b in pairs)
            refs = {'cross_entropy': -sum(a * math.log2(b) for a, b in fl if a > 0) if supp_ok else math.inf,
                    'relative_entropy': sum(a * math.log2(a / b) for a, b in fl if a > 0) if supp_ok else math.inf,
                    'variational_distance': sum(abs(a - b) for a, b in fl) / 2,
                    'bhattacharyya_coefficient': sum(math.sqrt(a * b) for a, b in fl)}
            refs['hellinger_distance'] = math.sqrt(max(0.0, 1 - refs['bhattacharyya_coefficient']))
            refs['earth_movers_distance'] = refs['variational_distance']      # 0-1 metric: the mass that must move
            m2 = [(a + b) / 2 for a, b in fl]
            refs['jensen_shannon_divergence2'] = H(m2) - (H(pm[0]) + H(pm[1])) / 2
            mname = {'cross_entropy': 'cross_entropy', 'relative_entropy': 'kl', 'variational_distance': 'tv',
                     'bhattacharyya_coefficient': 'bc', 'hellinger_distance': 'hellinger', 'earth_movers_distance': 'tv'}
            tols = {'hellinger_distance': 1e-7, 'earth_movers_distance': 1e-7}
            got = {}
            for name in refs:
                got[name] = float(getattr(P, name)(p.copy(), qv.copy()))
                t = tols.get(name, 1e-9)
                if not self.agree(got[name], refs[name], t):
                    r.oracle_fail = 'pmf-form %s(%s, %s) = %r but its definition gives %r' % (
                        name, case['pm'][0], case['pm'][1], got[name], refs[name])
                    break
                if name in mname and not r.mismatch:
                    mv = self.model_div(drv, mname[name], pairs)
                    if not self.agree(got[name], mv, t):
                        r.mismatch = 'pmf-form %s: impl %r model %r' % (name, got[name], mv)
            r.detail.update({'pair got': got, 'pair ref': refs})
            if r.oracle_fail:
                return
            ci = float(P.chernoff_information(p.copy(), qv.copy()))
            grid = [i / 200.0 for i in range(201)]
            vals = [sum(a ** al * b ** (1 - al) for a, b in fl if a > 0 and b > 0) for al in grid]
            refci = -math.log2(min(vals)) if min(vals) > 0 else math.inf
            if math.isinf(refci) or math.isinf(ci):
                if ci != refci:
                    r.oracle_fail = 'pmf-form Chernoff information %r, definition gives %r' % (ci, refci)
            elif not (ci >= refci - 1e-4 * max(1.0, refci) and ci <= refci + 1e-3):
                r.oracle_fail = 'pmf-form Chernoff information %r, definition (grid minimum) about %r' % (ci, refci)

    def run_restricted(self, case, drv, r):
        import dit.divergences as D
        klass, (da, db), (ta, tb) = self.tables(case)
        rvs, crvs = case['rvs'], case['crvs']
        r.nontrivial = len(ta) >= 2
        r.features.append('crvs=%d' % len(crvs))
        fdeferred = []

        def marg(t, idx):
            m = {}
            for o, p in t.items():
                k = tuple(o[i] for i in idx)
                m[k] = m.get(k, 0) + p
            return m

        def xent(idx):
            pa_, pb_ = marg(ta, idx), marg(tb, idx)
            if any(p > 0 and pb_.get(k, 0) == 0 for k, p in pa_.items()):
                return math.inf
            return -sum(float(p) * math.log2(float(pb_[k])) for k, p in pa_.items() if p > 0)

        def ent(idx):
            return -sum(float(p) * math.log2(float(p)) for p in marg(ta, idx).values() if p > 0)
        both = sorted(rvs + crvs)
        refx = xent(both) - (xent(crvs) if crvs else 0.0)
        refh = ent(both) - (ent(crvs) if crvs else 0.0)
        refkl = refx - refh
        if math.isnan(refx):
            r.features.append('inf-minus-inf')
            return
        gx = float(D.cross_entropy(da, db, rvs, crvs))
        gk = float(D.kullback_leibler_divergence(da, db, rvs, crvs))
        if not self.agree(gx, refx):
            r.oracle_fail = 'cross_entropy(rvs=%s, crvs=%s) = %r, definition gives %r' % (rvs, crvs, gx, refx)
        elif not self.agree(gk, refkl):
            r.oracle_fail = 'KL(rvs=%s, crvs=%s) = %r, definition gives %r' % (rvs, crvs, gk, refkl)
        elif gk < -1e-9:
            r.oracle_fail = 'conditional KL negative: %r' % gk
        # "restricted to rvs" means: of the marginals on rvs - for the whole generalised family and every order
        if not r.oracle_fail and not crvs:
            srt = sorted(rvs)
            try:
                ma_, mb_ = da.marginal(srt), db.marginal(srt)
            except Exception:
                ma_ = None
            if ma_ is not None:
                for name in ('alpha_divergence', 'renyi_divergence', 'tsallis_divergence', 'hellinger_divergence', 'hellinger_sum'):
                    f = getattr(D, name)
                    for al in (-1, 0.5, 1, 2, 3):
                        if name != 'alpha_divergence' and al <= 0:
                            continue
                        try:
                            v1 = float(f(da, db, al, rvs=rvs))
                            v2 = float(f(ma_, mb_, al))
                        except Exception as e:  # noqa
                            r.oracle_fail = '%s(alpha=%s, rvs=%s) raised %s' % (name, al, rvs, type(e).__name__)
                            break
                        if not (self.agree(v1, v2, 1e-9) or (math.isnan(v1) and math.isnan(v2))):
                            r.oracle_fail = '%s(alpha=%s, rvs=%s) = %r, but %r on the marginals themselves' % (name, al, rvs, v1, v2)
                            break
                    if r.oracle_fail:
                        break
        # the f-divergence restricted to rvs is the f-divergence of the marginals on rvs: against the definition on the
        # exact marginal tables, and against the call on the marginal distributions themselves
        if not r.oracle_fail and not crvs:
            if not self.fdiv_judge(D, da, db, marg(ta, both), marg(tb, both), case['alpha'], r, rvs=rvs, defer=fdeferred):
                return
            if ma_ is not None:
                for name, f, _f0, _slope in self.fdiv_menu(case['alpha']):
                    with np.errstate(all='ignore'):
                        v1 = float(D.f_divergence(da, db, f, rvs=rvs))
                        v2 = float(D.f_divergence(ma_, mb_, f))
                    if not (self.agree(v1, v2, 1e-9) or (math.isnan(v1) and math.isnan(v2))):
                        r.oracle_fail = 'f_divergence(f=%s, rvs=%s) = %r, but %r on the marginals themselves' % (name, rvs, v1, v2)
                        return
        # model: marginal alignment through the driver
        if not crvs:
            ma, mb = marg(ta, both), marg(tb, both)
            pairs = [(p, mb.get(k, Fraction(0))) for k, p in ma.items()]
            mo = self.model_div(drv, 'kl', pairs)
            if not self.agree(gk, mo):
                r.mismatch = 'restricted KL: impl %r model %r' % (gk, mo)
        # last: the input class of the known f_divergence finding (never when something else of this case is wrong)
        if not crvs:
            self.fdiv_support_class(D, da, db, marg(ta, both), marg(tb, both), fdeferred, r, rvs=rvs, drv=drv)

    def run_maxcorr(self, case, drv, r):
        dit = import_dit()
        from dit.divergences import maximum_correlation
        klass = case['klass']
        P = [[Fraction(v) for v in row] for row in case['P']]
        nx, ny = len(P), len(P[0])
        outs, pmf = [], []
        for i in range(nx):
            for j in range(ny):
                if P[i][j] > 0 or case['dense']:
                    outs.append(gen.to_py([i, j], klass))
                    pmf.append(float(P[i][j]))
        kw = {}
        if case['explicit']:
            kw['sample_space'] = list(outs)
        d = dit.Distribution(outs, pmf, trim=False, **kw)
        r.features.append('style=%s' % case['style'])
        r.nontrivial = nx >= 2 and ny >= 2
        rho = float(maximum_correlation(d, [[0], [1]]))
        # the same joint with symbols of a different type for each variable (integers for X, strings for Y): alphabets of
        # different variables need not be comparable with one another
        houts = [(i_, 'abcdefghij'[j_]) for i_ in range(nx) for j_ in range(ny) if P[i_][j_] > 0 or case['dense']]
        hd = dit.Distribution(houts, pmf, trim=False, **({'sample_space': list(houts)} if case['explicit'] else {}))
        try:
            rho_h = float(maximum_correlation(hd, [[0], [1]]))
            if abs(rho_h - rho) > 1e-8:
                r.oracle_fail = 'maximum correlation %r, but %r when Y is labelled by strings and X by integers' % (rho, rho_h)
                return
        except Exception as e:  # noqa
            r.oracle_fail = 'maximum correlation raised %s when Y is labelled by strings and X by integers' % type(e).__name__
            return
        # drop empty rows / columns for the model
        rows = [i for i in range(nx) if sum(P[i]) > 0]
        cols = [j for j in range(ny) if sum(P[i][j] for i in range(nx)) > 0]
        Pm = [[P[i][j] for j in cols] for i in rows]
        A, coeffs = drv.call('maxcorr', [[[q(v) for v in row] for row in Pm]])
        # exact characteristic polynomial of the companion matrix: 1 is always a root (top singular value);
        # deflate it exactly, then rho^2 must be the largest root of what remains
        poly = [Fraction(1)] + [unq(c) for c in coeffs]
        g = []
        acc = Fraction(0)
        for c in poly[:-1]:
            acc = acc + c
            g.append(acc)          # synthetic division by (x - 1)
        rem = acc + poly[-1]
        ev = lambda cs, x: sum(float(c) * x ** (len(cs) - 1 - i) for i, c in enumerate(cs))
        scale = sum(abs(float(c)) for c in g) or 1.0
        lam = rho * rho
        r.detail = {'rho': rho, 'charpoly': [str(c) for c in poly], 'deflated': [str(c) for c in g]}
        if len(rows) > 1 and len(cols) > 1:
            if rem != 0:
                r.mismatch = 'model: 1 is not an eigenvalue of the companion matrix (remainder %s)' % rem
            elif len(g) > 1 and abs(ev(g, lam)) > 1e-7 * scale:
                r.mismatch = 'maximum correlation %r: rho^2 is not a root of the exact deflated characteristic polynomial (value %r)' % (rho, ev(g, lam))
            elif len(g) > 1:
                xs = [lam + 1e-5 + i * (1.2 - lam) / 400.0 for i in range(1, 401)]
                signs = set(ev(g, x) > 0 for x in xs if abs(ev(g, x)) > 1e-9 * scale)
                if len(signs) > 1:
                    r.mismatch = 'maximum correlation %r: the exact characteristic polynomial has a larger root below 1' % rho
        elif abs(rho) > 1e-9:
            r.mismatch = 'maximum correlation %r but one variable has a single symbol' % rho
        px = [sum(row) for row in P]
        py = [sum(P[i][j] for i in range(nx)) for j in range(ny)]
        indep = all(P[i][j] == px[i] * py[j] for i in range(nx) for j in range(ny))
        ref = self.svd_ref(P)
        if not (-1e-9 <= rho <= 1 + 1e-9):
            r.oracle_fail = 'maximum correlation %r outside [0,1]' % rho
        elif indep != (abs(rho) <= 1e-7):
            r.oracle_fail = 'maximum correlation %r, variables independent = %s' % (rho, indep)
        elif abs(rho - ref) > 1e-7:
            r.oracle_fail = 'maximum correlation %r, second singular value of P/sqrt(pX pY) is %r' % (rho, ref)
        else:
            # the pmf-level entry point on the joint matrix itself (empty rows / columns included)
            from dit.divergences.pmf import maximum_correlation as maxcorr_pmf
            with np.errstate(all='ignore'):
                rho_p = float(maxcorr_pmf(np.array([[float(v) for v in row] for row in P])))
            if abs(rho_p - ref) > 1e-7:
                r.oracle_fail = 'pmf-form maximum correlation of the joint matrix %s is %r, second singular value of P/sqrt(pX pY) is %r' % (
                    case['P'], rho_p, ref)

    def run_condmaxcorr(self, case, drv, r):
        """maximum_correlation(d, [X, Y], crvs=Z) = max over the values z of positive probability of the maximum
        correlation of p(x, y | z) (the conditional maximal correlation: sup over f(X,Z), g(Y,Z) as in the docstring)."""
        dit = import_dit()
        from dit.divergences import maximum_correlation
        from dit.divergences.pmf import conditional_maximum_correlation as cond_pmf
        r.site = 'dit.divergences.maxcorr.conditional'
        klass, roles = case['klass'], case['roles']
        P = [[[Fraction(v) for v in row] for row in plane] for plane in case['P']]
        nx, ny, nz = len(P), len(P[0]), len(P[0][0])
        coord = {'x': lambda x, y, z: x // 2 if 'x2' in roles else x, 'x2': lambda x, y, z: x % 2, 'y': lambda x, y, z: y,
                 'z': lambda x, y, z: z // 2 if 'z2' in roles else z, 'z2': lambda x, y, z: z % 2}
        outs, pmf = [], []
        for x in range(nx):
            for y in range(ny):
                for z in range(nz):
                    if P[x][y][z] > 0 or case['dense']:
                        outs.append(gen.to_py([coord[ro](x, y, z) for ro in roles], klass))
                        pmf.append(float(P[x][y][z]))
        kw = {'sample_space': list(outs)} if case['explicit'] else {}
        d = dit.Distribution(outs, pmf, trim=False, **kw)
        gx = [roles.index(ro) for ro in ('x', 'x2') if ro in roles]
        gz = [roles.index(ro) for ro in ('z', 'z2') if ro in roles]
        if case['reverse_groups']:
            gx, gz = gx[::-1], gz[::-1]
        gy = [roles.index('y')]
        pz = [sum(P[x][y][z] for x in range(nx) for y in range(ny)) for z in range(nz)]
        live = [z for z in range(nz) if pz[z] > 0]
        r.features += ['style=%s' % case['style'], 'roles=%d' % len(roles), 'z-values=%d' % len(live),
                       'empty-z=%s' % (len(live) < nz)]
        r.nontrivial = nx >= 2 and ny >= 2 and len(live) >= 2
        with np.errstate(all='ignore'):
            rho = float(maximum_correlation(d, [gx, gy], gz))
        slices = {z: [[P[x][y][z] / pz[z] for y in range(ny)] for x in range(nx)] for z in live}
        per_z = {z: self.svd_ref(slices[z]) for z in live}
        ref = max(per_z.values())
        pxz = {z: [sum(slices[z][x]) for x in range(nx)] for z in live}
        pyz = {z: [sum(slices[z][x][y] for x in range(nx)) for y in range(ny)] for z in live}
        cindep = all(slices[z][x][y] == pxz[z][x] * pyz[z][y] for z in live for x in range(nx) for y in range(ny))
        descr = 'conditional maximum correlation of %s (rvs=%s, crvs=%s)' % (case['P'], [gx, gy], gz)
        r.detail = {'rho': rho, 'per z': {str(z): v for z, v in per_z.items()}, 'conditionally independent': cindep}
        if not (-1e-9 <= rho <= 1 + 1e-9):
            r.oracle_fail = '%s = %r outside [0,1]' % (descr, rho)
        elif cindep != (abs(rho) <= 1e-7):
            r.oracle_fail = '%s = %r, X and Y independent given Z = %s' % (descr, rho, cindep)
        elif abs(rho - ref) > 1e-7:
            r.oracle_fail = '%s = %r, but the largest second singular value of p(x,y|z)/sqrt(p(x|z) p(y|z)) over z is %r' % (descr, rho, ref)
        if r.oracle_fail:
            return
        with np.errstate(all='ignore'):
            rho_sw = float(maximum_correlation(d, [gy, gx], gz))
            rho_p = float(cond_pmf(np.array([[[float(v) for v in row] for row in plane] for plane in P])))
        if abs(rho_sw - rho) > 1e-8:
            r.oracle_fail = '%s = %r but %r with the two groups swapped' % (descr, rho, rho_sw)
            return
        if abs(rho_p - ref) > 1e-7:
            r.oracle_fail = 'pmf-form conditional maximum correlation of the array %s is %r, the definition gives %r' % (case['P'], rho_p, ref)
            return
        pxy = [[sum(P[x][y]) for y in range(ny)] for x in range(nx)]
        if all(P[x][y][z] == pxy[x][y] * pz[z] for x in range(nx) for y in range(ny) for z in range(nz)):
            # Z independent of (X, Y): conditioning changes nothing
            r.features.append('z-independent-of-xy')
            with np.errstate(all='ignore'):
                rho_u = float(maximum_correlation(d, [gx, gy]))
            if abs(rho_u - rho) > 1e-8:
                r.oracle_fail = '%s = %r although Z is independent of (X, Y) and the unconditional value is %r' % (descr, rho, rho_u)
                return
        # model: per value z the exact characteristic polynomial of the companion matrix of p(x,y|z) (Core/Diverge.lean
        # `maxcorrCompanion`, `charPoly`); rho^2 must be a root of one of the deflated polynomials and none may have a
        # larger root below 1
        lam = rho * rho
        ev = lambda cs, x_: sum(float(c) * x_ ** (len(cs) - 1 - i) for i, c in enumerate(cs))
        is_root, any_big = False, False
        for z in live:
            rows = [x for x in range(nx) if pxz[z][x] > 0]
            cols = [y for y in range(ny) if pyz[z][y] > 0]
            if len(rows) < 2 or len(cols) < 2:
                continue
            any_big = True
            _A, coeffs = drv.call('maxcorr', [[[q(slices[z][x][y]) for y in cols] for x in rows]])
            poly = [Fraction(1)] + [unq(c) for c in coeffs]
            g, acc = [], Fraction(0)
            for c in poly[:-1]:
                acc = acc + c
                g.append(acc)
            if acc + poly[-1] != 0:
                r.mismatch = 'model: 1 is not an eigenvalue of the companion matrix of the slice z = %d' % z
                return
            scale = sum(abs(float(c)) for c in g) or 1.0
            if len(g) > 1:
                if abs(ev(g, lam)) <= 1e-7 * scale:
                    is_root = True
                xs = [lam + 1e-5 + i * (1.2 - lam) / 400.0 for i in range(1, 401)]
                signs = set(ev(g, x_) > 0 for x_ in xs if abs(ev(g, x_)) > 1e-9 * scale)
                if len(signs) > 1:
                    r.mismatch = '%s = %r: the exact characteristic polynomial of the slice z = %d has a larger root below 1' % (descr, rho, z)
                    return
        if any_big and not is_root:
            r.mismatch = '%s = %r: rho^2 is not a root of the exact deflated characteristic polynomial of any slice' % (descr, rho)
        elif not any_big and abs(rho) > 1e-9:
            r.mismatch = '%s = %r but in every slice one variable has a single symbol' % (descr, rho)

    @staticmethod
    def svd_ref(P):
        M = np.array([[float(v) for v in row] for row in P])
        px = M.sum(axis=1, keepdims=True)
        py = M.sum(axis=0, keepdims=True)
        with np.errstate(all='ignore'):
            Q = M / (np.sqrt(px) * np.sqrt(py))
        Q[np.isnan(Q)] = 0
        sv = np.linalg.svd(Q, compute_uv=False)
        return float(sv[1]) if len(sv) > 1 else 0.0

    def run_lautum(self, case, drv, r):
        from dit.other import lautum_information
        klass, (da, db), (ta, tb) = self.tables(case)
        n = case['a']['n']
        rvs, crvs = case['rvs'], case['crvs']
        r.nontrivial = len(ta) >= 2

        def marg(idx):
            m = {}
            for o, p in ta.items():
                k = tuple(o[i] for i in idx)
                m[k] = m.get(k, 0) + p
            return m
        X, Y, Z = rvs[0], rvs[1], crvs
        pxyz = marg(X + Y + Z)
        pz = marg(Z)
        pxz, pyz = marg(X + Z), marg(Y + Z)
        ref = 0.0
        inf = False
        for kx, pxz_v in pxz.items():
            for ky, pyz_v in pyz.items():
                if kx[len(X):] != ky[len(Y):]:
                    continue
                z = kx[len(X):]
                prod = pxz_v * pyz_v / pz[z]
                if prod <= Fraction(1, 10 ** 8):
                    continue     # within the library's null tolerance: the product distribution drops it
                joint = pxyz.get(kx[:len(X)] + ky[:len(Y)] + z, 0)
                if joint == 0:
                    inf = True
                else:
                    ref += float(prod) * math.log2(float(prod) / float(joint))
        ref = math.inf if inf else ref
        val = float(lautum_information(da, rvs, crvs))
        if not self.agree(val, ref, 1e-8):
            r.oracle_fail = 'lautum information %r, definition D(p(x|z)p(y|z)p(z) || p(x,y,z)) gives %r' % (val, ref)
        elif not Z and all(Fraction(p) == 0 or Fraction(p) > Fraction(1, 10 ** 4) for p in ta.values()):
            # correspondence with Core/Diverge2.lean `lautumVals` (unconditional form; no entries near the null tolerance)
            mo = drv.call('lautumf', [[[list(o), f2bits(float(p))] for o, p in ta.items() if p > 0], X, Y])
            mval = math.inf if mo == 'inf' else bits2f(mo)
            if not self.agree(val, mval, 1e-8):
                r.mismatch = 'lautum information %r, model %r' % (val, mval)


PROP = C06()
